//! C01 / C03 on the real certificate verifiers: a corpus of adversarial certificates built here (rcgen + ring), offered to
//! crypto.rs peer_id_from_certificate / CertVerifier::verify_{client,server}_cert / ExpectedCertVerifier::verify_server_cert.
use anemo::verif_hooks as h;
use ed25519::pkcs8::EncodePrivateKey;
use rustls_pki_types::PrivateKeyDer;
use serde_json::{json, Value};

const NAME: &str = "verif";
const NOW: u64 = 1_790_000_000; // 2026-09
const SPKI_HDR: [u8; 12] = [0x30, 0x2a, 0x30, 0x05, 0x06, 0x03, 0x2b, 0x65, 0x70, 0x03, 0x21, 0x00];

struct Id { seed: [u8; 32], key: rcgen::KeyPair, public: [u8; 32] }

fn id(seed: u8) -> Id {
    let seed = [seed; 32];
    let pkcs8 = ed25519::KeypairBytes { secret_key: seed, public_key: None }.to_pkcs8_der().unwrap();
    let der = PrivateKeyDer::Pkcs8(pkcs8.as_bytes().to_vec().into());
    let key = rcgen::KeyPair::from_der_and_sign_algo(&der, &rcgen::PKCS_ED25519).unwrap();
    let public: [u8; 32] = key.public_key_raw().try_into().unwrap();
    Id { seed, key, public }
}

/// (total length, header length) of the DER TLV at the start of `buf`
fn tlv(buf: &[u8]) -> (usize, usize) {
    let first = buf[1] as usize;
    if first < 0x80 { (2 + first, 2) } else {
        let n = first & 0x7f;
        let len = buf[2..2 + n].iter().fold(0usize, |acc, b| (acc << 8) | *b as usize);
        (2 + n + len, 2 + n)
    }
}

/// replace the signature of an Ed25519-signed certificate by `signer`'s signature over its TBSCertificate
fn resign(der: &mut [u8], signer: &Id) {
    let (_, outer) = tlv(der);
    let (tbs_len, _) = tlv(&der[outer..]);
    let kp = ring::signature::Ed25519KeyPair::from_seed_unchecked(&signer.seed).unwrap();
    let sig = kp.sign(&der[outer..outer + tbs_len]);
    let at = der.len() - 64;
    der[at..].copy_from_slice(sig.as_ref());
}

fn honest(who: &Id, name: &str) -> Vec<u8> {
    rcgen::CertificateParams::new(vec![name.to_owned()]).unwrap().self_signed(&who.key).unwrap().der().to_vec()
}

/// `who`'s certificate whose common name (issuer and subject) is the 44 bytes of an Ed25519 SubjectPublicKeyInfo holding `decoy`
fn decoy_in_name(who: &Id, decoy: &[u8; 32]) -> Vec<u8> {
    let placeholder = "N".repeat(44);
    let mut p = rcgen::CertificateParams::new(vec![NAME.to_owned()]).unwrap();
    p.distinguished_name = rcgen::DistinguishedName::new();
    p.distinguished_name.push(rcgen::DnType::CommonName, placeholder.clone());
    let mut der = p.self_signed(&who.key).unwrap().der().to_vec();
    let mut name = [0u8; 44];
    name[..12].copy_from_slice(&SPKI_HDR);
    name[12..].copy_from_slice(decoy);
    let mut i = 0;
    while i + 44 <= der.len() {
        if &der[i..i + 44] == placeholder.as_bytes() { der[i..i + 44].copy_from_slice(&name); i += 44; } else { i += 1; }
    }
    resign(&mut der, who);
    der
}

/// `who`'s certificate with a custom (non-critical) extension whose content is an SPKI holding `decoy`
fn decoy_in_extension(who: &Id, decoy: &[u8; 32]) -> Vec<u8> {
    let mut content = SPKI_HDR.to_vec();
    content.extend_from_slice(decoy);
    let mut p = rcgen::CertificateParams::new(vec![NAME.to_owned()]).unwrap();
    p.custom_extensions.push(rcgen::CustomExtension::from_oid_content(&[1, 3, 6, 1, 4, 1, 99999, 1], content));
    p.self_signed(&who.key).unwrap().der().to_vec()
}

fn ids(r: Result<anemo::PeerId, String>) -> Value {
    match r { Ok(p) => json!(hex::encode(p.0)), Err(_) => Value::Null }
}

pub fn cert_corpus(_a: &Value) -> Value {
    let a = id(0xA1);
    let x = id(0xB2);
    let names = || vec![NAME.to_owned()];
    let client = |ee: &[u8], inter: &[Vec<u8>], now: u64| h::verify_client_cert(names(), ee, inter, now).is_ok();
    let server = |pin: Option<&Id>, ee: &[u8], inter: &[Vec<u8>], sn: &str, now: u64| {
        h::verify_server_cert(names(), pin.map(|i| anemo::PeerId(i.public)), ee, inter, sn, now).is_ok()
    };
    let mut cases = Vec::new();
    let mut case = |name: &str, what: &str, ee: &[u8], inter: &[Vec<u8>], now: u64| {
        cases.push(json!({
            "case": name, "what": what,
            "peer_id": ids(h::peer_id_from_certificate_der(ee)),
            "client_ok": client(ee, inter, now),
            "server_ok": server(None, ee, inter, NAME, now),
            "pinned_a_ok": server(Some(&a), ee, inter, NAME, now),
            "pinned_x_ok": server(Some(&x), ee, inter, NAME, now),
        }));
    };
    let cert_a = honest(&a, NAME);
    let cert_x = honest(&x, NAME);
    case("honest", "A's own certificate", &cert_a, &[], NOW);
    case("decoy_in_name", "A's certificate, validly self-signed, whose common name is the DER of an Ed25519 SubjectPublicKeyInfo holding X's key", &decoy_in_name(&a, &x.public), &[], NOW);
    case("decoy_in_extension", "A's certificate with an extra extension whose content is an SPKI holding X's key", &decoy_in_extension(&a, &x.public), &[], NOW);
    case("x_cert_as_intermediate", "A's certificate followed by X's certificate in the chain", &cert_a, &[cert_x.clone()], NOW);
    let mut forged = cert_x.clone();
    resign(&mut forged, &a);
    case("x_tbs_signed_by_a", "X's certificate body re-signed with A's key (A lacks X's private key)", &forged, &[], NOW);
    let ec = rcgen::KeyPair::generate_for(&rcgen::PKCS_ECDSA_P256_SHA256).unwrap();
    let ec_cert = rcgen::CertificateParams::new(vec![NAME.to_owned()]).unwrap().self_signed(&ec).unwrap().der().to_vec();
    case("ecdsa", "a self-signed ECDSA P-256 certificate", &ec_cert, &[], NOW);
    case("expired", "A's certificate long after its notAfter", &cert_a, &[], 90_000_000_000);
    case("not_yet_valid", "A's certificate long before its notBefore", &cert_a, &[], 1000);
    case("other_network", "A's certificate issued for another network name", &honest(&a, "other"), &[], NOW);
    case("empty", "an empty certificate", &[], &[], NOW);
    case("garbage", "64 bytes of 0x30", &[0x30; 64], &[], NOW);
    // wrong server name asked for by the dialer
    let wrong_sni_ok = server(None, &cert_a, &[], "other", NOW);
    // every single-byte mutation (two masks) of A's valid certificate
    let (mut mutations, mut accepted_as_other, mut pinned_x_accepts, mut panics) = (0u64, Vec::new(), Vec::new(), 0u64);
    let hook = std::panic::take_hook();
    std::panic::set_hook(Box::new(|_| {}));
    for k in 0..cert_a.len() {
        for mask in [0x01u8, 0x80] {
            let mut m = cert_a.clone();
            m[k] ^= mask;
            mutations += 1;
            let r = std::panic::catch_unwind(|| {
                let idm = h::peer_id_from_certificate_der(&m).ok().map(|p| p.0);
                let ok = h::verify_client_cert(vec![NAME.to_owned()], &m, &[], NOW).is_ok()
                    || h::verify_server_cert(vec![NAME.to_owned()], None, &m, &[], NAME, NOW).is_ok();
                let px = h::verify_server_cert(vec![NAME.to_owned()], Some(anemo::PeerId(id(0xB2).public)), &m, &[], NAME, NOW).is_ok();
                (idm, ok, px)
            });
            match r {
                Err(_) => panics += 1,
                Ok((idm, ok, px)) => {
                    if ok && idm != Some(a.public) && accepted_as_other.len() < 5 { accepted_as_other.push(json!({"offset": k, "mask": mask})); }
                    if px && pinned_x_accepts.len() < 5 { pinned_x_accepts.push(json!({"offset": k, "mask": mask})); }
                }
            }
        }
    }
    std::panic::set_hook(hook);
    json!({"a": hex::encode(a.public), "x": hex::encode(x.public), "cases": cases, "wrong_server_name_ok": wrong_sni_ok,
           "mutations": mutations, "mutation_accepted_with_other_identity": accepted_as_other, "mutation_accepted_by_pin_on_x": pinned_x_accepts, "mutation_panics": panics})
}
