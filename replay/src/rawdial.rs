//! C14 with an adversarial dialer: a bare quinn / rustls client that CLAIMS one network name in the TLS hello, PRESENTS a certificate
//! issued for a (possibly different) name and accepts whatever certificate the listener shows.  Is it admitted?
use anemo::{Config, Request, Response};
use bytes::Bytes;
use ed25519::pkcs8::EncodePrivateKey;
use rustls_pki_types::{CertificateDer, PrivateKeyDer, ServerName, UnixTime};
use serde_json::{json, Value};
use std::sync::Arc;
use std::time::Duration;

#[derive(Debug)]
struct AcceptAny;
impl rustls::client::danger::ServerCertVerifier for AcceptAny {
    fn verify_server_cert(&self, _e: &CertificateDer<'_>, _i: &[CertificateDer<'_>], _n: &ServerName<'_>, _o: &[u8], _t: UnixTime)
        -> Result<rustls::client::danger::ServerCertVerified, rustls::Error> { Ok(rustls::client::danger::ServerCertVerified::assertion()) }
    fn verify_tls12_signature(&self, _m: &[u8], _c: &CertificateDer<'_>, _d: &rustls::DigitallySignedStruct)
        -> Result<rustls::client::danger::HandshakeSignatureValid, rustls::Error> { Ok(rustls::client::danger::HandshakeSignatureValid::assertion()) }
    fn verify_tls13_signature(&self, _m: &[u8], _c: &CertificateDer<'_>, _d: &rustls::DigitallySignedStruct)
        -> Result<rustls::client::danger::HandshakeSignatureValid, rustls::Error> { Ok(rustls::client::danger::HandshakeSignatureValid::assertion()) }
    fn supported_verify_schemes(&self) -> Vec<rustls::SignatureScheme> { vec![rustls::SignatureScheme::ED25519, rustls::SignatureScheme::ECDSA_NISTP256_SHA256] }
}

pub fn raw_client(seed: u8, cert_name: &str) -> (quinn::Endpoint, [u8; 32]) {
    let secret = [seed; 32];
    let pkcs8 = ed25519::KeypairBytes { secret_key: secret, public_key: None }.to_pkcs8_der().unwrap();
    let key_der = PrivateKeyDer::Pkcs8(pkcs8.as_bytes().to_vec().into());
    let kp = rcgen::KeyPair::from_der_and_sign_algo(&key_der, &rcgen::PKCS_ED25519).unwrap();
    let public: [u8; 32] = kp.public_key_raw().try_into().unwrap();
    let cert = rcgen::CertificateParams::new(vec![cert_name.to_owned()]).unwrap().self_signed(&kp).unwrap().der().to_owned();
    let crypto = rustls::ClientConfig::builder_with_provider(Arc::new(rustls::crypto::ring::default_provider()))
        .with_protocol_versions(&[&rustls::version::TLS13]).unwrap()
        .dangerous().with_custom_certificate_verifier(Arc::new(AcceptAny))
        .with_client_auth_cert(vec![cert], key_der).unwrap();
    let cfg = quinn::ClientConfig::new(Arc::new(quinn::crypto::rustls::QuicClientConfig::try_from(crypto).unwrap()));
    let mut ep = quinn::Endpoint::client("127.0.0.1:0".parse().unwrap()).unwrap();
    ep.set_default_client_config(cfg);
    (ep, public)
}

pub async fn claimed_name_grid(_a: &Value) -> Value {
    let echo = || tower::ServiceExt::boxed_clone(tower::service_fn(|r: Request<Bytes>| async move { Ok::<_, std::convert::Infallible>(Response::new(r.into_body())) }));
    let listener = |key: u8, alt: Option<&str>| {
        let mut c = Config::default();
        c.connect_timeout_ms = Some(1500);
        let b = anemo::Network::bind("127.0.0.1:0").server_name("net-a").private_key([key; 32]).config(c);
        let b = match alt { Some(a) => b.alternate_server_name(a), None => b };
        b.start(echo()).expect("listener")
    };
    let listeners = [("single", listener(41, None)), ("with_alternate", listener(42, Some("net-old")))];
    let mut out = Vec::new();
    let mut seed = 60u8;
    for (lname, l) in listeners.iter() {
        for claimed in ["net-a", "net-b", "net-old", "net-c"] {
            for cert_name in ["net-a", "net-b", "net-old"] {
                seed += 1;
                let (ep, public) = raw_client(seed, cert_name);
                let id = anemo::PeerId(public);
                let mut admitted = false;
                let mut got_ack = false;
                if let Ok(connecting) = ep.connect(l.local_addr(), claimed) {
                    if let Ok(Ok(conn)) = tokio::time::timeout(Duration::from_millis(1500), connecting).await {
                        // the listener acknowledges an admitted dialer with the 8-byte version frame on a unidirectional stream
                        if let Ok(Ok(mut rx)) = tokio::time::timeout(Duration::from_millis(700), conn.accept_uni()).await {
                            let mut buf = [0u8; 8];
                            got_ack = matches!(tokio::time::timeout(Duration::from_millis(500), rx.read_exact(&mut buf)).await, Ok(Ok(())));
                        }
                        for _ in 0..20 { if l.peers().contains(&id) { admitted = true; break; } tokio::time::sleep(Duration::from_millis(10)).await; }
                        conn.close(0u32.into(), b"done");
                    }
                }
                out.push(json!({"listener": lname, "claimed": claimed, "certificate_for": cert_name, "acknowledged": got_ack, "listed": admitted}));
                ep.close(0u32.into(), b"");
            }
        }
    }
    // a key the listener has already admitted legitimately comes back presenting a certificate for another network (same key, claimed name accepted)
    let mut returning = Vec::new();
    for (lname, l) in listeners.iter() {
        let mut seq = Vec::new();
        for cert_name in ["net-a", "net-b", "net-a"] {
            let (ep, public) = raw_client(200, cert_name);
            let id = anemo::PeerId(public);
            let mut got_ack = false;
            if let Ok(connecting) = ep.connect(l.local_addr(), "net-a") {
                if let Ok(Ok(conn)) = tokio::time::timeout(Duration::from_millis(1500), connecting).await {
                    if let Ok(Ok(mut rx)) = tokio::time::timeout(Duration::from_millis(700), conn.accept_uni()).await {
                        let mut buf = [0u8; 8];
                        got_ack = matches!(tokio::time::timeout(Duration::from_millis(500), rx.read_exact(&mut buf)).await, Ok(Ok(())));
                    }
                    conn.close(0u32.into(), b"done");
                }
            }
            ep.close(0u32.into(), b"");
            for _ in 0..50 { if !l.peers().contains(&id) { break; } tokio::time::sleep(Duration::from_millis(10)).await; }
            seq.push(json!({"certificate_for": cert_name, "acknowledged": got_ack}));
        }
        returning.push(json!({"listener": lname, "same_key_three_dials": seq}));
    }
    json!({"cells": out, "returning": returning})
}
