//! C14 with an adversarial dialer: a bare quinn / rustls client that CLAIMS one network name in the TLS hello, PRESENTS a certificate
//! issued for a (possibly different) name and accepts whatever certificate the listener shows.  Is it admitted?
use anemo::{Config, Request, Response};
use bytes::Bytes;
use ed25519::pkcs8::EncodePrivateKey;
use rustls_pki_types::{CertificateDer, PrivateKeyDer, ServerName, UnixTime};
use serde_json::{json, Value};
use std::sync::Arc;
use std::time::Duration;

#[derive(Debug)]
struct AcceptAny;
impl rustls::client::danger::ServerCertVerifier for AcceptAny {
    fn verify_server_cert(&self, _e: &CertificateDer<'_>, _i: &[CertificateDer<'_>], _n: &ServerName<'_>, _o: &[u8], _t: UnixTime)
        -> Result<rustls::client::danger::ServerCertVerified, rustls::Error> { Ok(rustls::client::danger::ServerCertVerified::assertion()) }
    fn verify_tls12_signature(&self, _m: &[u8], _c: &CertificateDer<'_>, _d: &rustls::DigitallySignedStruct)
        -> Result<rustls::client::danger::HandshakeSignatureValid, rustls::Error> { Ok(rustls::client::danger::HandshakeSignatureValid::assertion()) }
    fn verify_tls13_signature(&self, _m: &[u8], _c: &CertificateDer<'_>, _d: &rustls::DigitallySignedStruct)
        -> Result<rustls::client::danger::HandshakeSignatureValid, rustls::Error> { Ok(rustls::client::danger::HandshakeSignatureValid::assertion()) }
    fn supported_verify_schemes(&self) -> Vec<rustls::SignatureScheme> { vec![rustls::SignatureScheme::ED25519, rustls::SignatureScheme::ECDSA_NISTP256_SHA256] }
}

pub fn raw_client(seed: u8, cert_name: &str) -> (quinn::Endpoint, [u8; 32]) {
    let secret = [seed; 32];
    let pkcs8 = ed25519::KeypairBytes { secret_key: secret, public_key: None }.to_pkcs8_der().unwrap();
    let key_der = PrivateKeyDer::Pkcs8(pkcs8.as_bytes().to_vec().into());
    let kp = rcgen::KeyPair::from_der_and_sign_algo(&key_der, &rcgen::PKCS_ED25519).unwrap();
    let public: [u8; 32] = kp.public_key_raw().try_into().unwrap();
    let cert = rcgen::CertificateParams::new(vec![cert_name.to_owned()]).unwrap().self_signed(&kp).unwrap().der().to_owned();
    let crypto = rustls::ClientConfig::builder_with_provider(Arc::new(rustls::crypto::ring::default_provider()))
        .with_protocol_versions(&[&rustls::version::TLS13]).unwrap()
        .dangerous().with_custom_certificate_verifier(Arc::new(AcceptAny))
        .with_client_auth_cert(vec![cert], key_der).unwrap();
    let cfg = quinn::ClientConfig::new(Arc::new(quinn::crypto::rustls::QuicClientConfig::try_from(crypto).unwrap()));
    let mut ep = quinn::Endpoint::client("127.0.0.1:0".parse().unwrap()).unwrap();
    ep.set_default_client_config(cfg);
    (ep, public)
}

pub async fn claimed_name_grid(_a: &Value) -> Value {
    let echo = || tower::ServiceExt::boxed_clone(tower::service_fn(|r: Request<Bytes>| async move { Ok::<_, std::convert::Infallible>(Response::new(r.into_body())) }));
    let listener = |key: u8, alt: Option<&str>| {
        let mut c = Config::default();
        c.connect_timeout_ms = Some(1500);
        let b = anemo::Network::bind("127.0.0.1:0").server_name("net-a").private_key([key; 32]).config(c);
        let b = match alt { Some(a) => b.alternate_server_name(a), None => b };
        b.start(echo()).expect("listener")
    };
    let listeners = [("single", listener(41, None)), ("with_alternate", listener(42, Some("net-old")))];
    let mut out = Vec::new();
    let mut seed = 60u8;
    for (lname, l) in listeners.iter() {
        for claimed in ["net-a", "net-b", "net-old", "net-c"] {
            for cert_name in ["net-a", "net-b", "net-old"] {
                seed += 1;
                let (ep, public) = raw_client(seed, cert_name);
                let id = anemo::PeerId(public);
                let mut admitted = false;
                let mut got_ack = false;
                if let Ok(connecting) = ep.connect(l.local_addr(), claimed) {
                    if let Ok(Ok(conn)) = tokio::time::timeout(Duration::from_millis(1500), connecting).await {
                        // the listener acknowledges an admitted dialer with the 8-byte version frame on a unidirectional stream
                        if let Ok(Ok(mut rx)) = tokio::time::timeout(Duration::from_millis(700), conn.accept_uni()).await {
                            let mut buf = [0u8; 8];
                            got_ack = matches!(tokio::time::timeout(Duration::from_millis(500), rx.read_exact(&mut buf)).await, Ok(Ok(())));
                        }
                        for _ in 0..20 { if l.peers().contains(&id) { admitted = true; break; } tokio::time::sleep(Duration::from_millis(10)).await; }
                        conn.close(0u32.into(), b"done");
                    }
                }
                out.push(json!({"listener": lname, "claimed": claimed, "certificate_for": cert_name, "acknowledged": got_ack, "listed": admitted}));
                ep.close(0u32.into(), b"");
            }
        }
    }
    // a key the listener has already admitted legitimately comes back presenting a certificate for another network (same key, claimed name accepted)
    let mut returning = Vec::new();
    for (lname, l) in listeners.iter() {
        let mut seq = Vec::new();
        for cert_name in ["net-a", "net-b", "net-a"] {
            let (ep, public) = raw_client(200, cert_name);
            let id = anemo::PeerId(public);
            let mut got_ack = false;
            if let Ok(connecting) = ep.connect(l.local_addr(), "net-a") {
                if let Ok(Ok(conn)) = tokio::time::timeout(Duration::from_millis(1500), connecting).await {
                    if let Ok(Ok(mut rx)) = tokio::time::timeout(Duration::from_millis(700), conn.accept_uni()).await {
                        let mut buf = [0u8; 8];
                        got_ack = matches!(tokio::time::timeout(Duration::from_millis(500), rx.read_exact(&mut buf)).await, Ok(Ok(())));
                    }
                    conn.close(0u32.into(), b"done");
                }
            }
            ep.close(0u32.into(), b"");
            for _ in 0..50 { if !l.peers().contains(&id) { break; } tokio::time::sleep(Duration::from_millis(10)).await; }
            seq.push(json!({"certificate_for": cert_name, "acknowledged": got_ack}));
        }
        returning.push(json!({"listener": lname, "same_key_three_dials": seq}));
    }
    json!({"cells": out, "returning": returning})
}

// ---- C01 / C03: a certificate is public; only the holder of its private key may act under it ----------------------------------------
// a rustls identity whose CERTIFICATE is `cert` but whose handshake signatures are made with the key derived from `signer_seed`
#[derive(Debug)]
struct Fixed(Arc<rustls::sign::CertifiedKey>);
impl rustls::client::ResolvesClientCert for Fixed {
    fn resolve(&self, _hints: &[&[u8]], _schemes: &[rustls::SignatureScheme]) -> Option<Arc<rustls::sign::CertifiedKey>> { Some(self.0.clone()) }
    fn has_certs(&self) -> bool { true }
}
impl rustls::server::ResolvesServerCert for Fixed {
    fn resolve(&self, _hello: rustls::server::ClientHello<'_>) -> Option<Arc<rustls::sign::CertifiedKey>> { Some(self.0.clone()) }
}
fn key_and_cert(seed: u8, cert_name: &str) -> (rustls_pki_types::PrivatePkcs8KeyDer<'static>, CertificateDer<'static>, [u8; 32]) {
    let pkcs8 = ed25519::KeypairBytes { secret_key: [seed; 32], public_key: None }.to_pkcs8_der().unwrap();
    let p8 = rustls_pki_types::PrivatePkcs8KeyDer::from(pkcs8.as_bytes().to_vec());
    let kp = rcgen::KeyPair::from_der_and_sign_algo(&PrivateKeyDer::Pkcs8(p8.clone_key()), &rcgen::PKCS_ED25519).unwrap();
    let public: [u8; 32] = kp.public_key_raw().try_into().unwrap();
    let cert = rcgen::CertificateParams::new(vec![cert_name.to_owned()]).unwrap().self_signed(&kp).unwrap().der().to_owned();
    (p8, cert, public)
}
fn identity(cert: CertificateDer<'static>, signer_seed: u8) -> Arc<Fixed> { identity_chain(vec![cert], signer_seed) }
fn identity_chain(chain: Vec<CertificateDer<'static>>, signer_seed: u8) -> Arc<Fixed> {
    let (p8, _, _) = key_and_cert(signer_seed, "net-a");
    let signer = rustls::crypto::ring::sign::any_eddsa_type(&p8).unwrap();
    Arc::new(Fixed(Arc::new(rustls::sign::CertifiedKey::new(chain, signer))))
}
fn dialer_presenting(cert: CertificateDer<'static>, signer_seed: u8) -> quinn::Endpoint {
    let crypto = rustls::ClientConfig::builder_with_provider(Arc::new(rustls::crypto::ring::default_provider()))
        .with_protocol_versions(&[&rustls::version::TLS13]).unwrap()
        .dangerous().with_custom_certificate_verifier(Arc::new(AcceptAny))
        .with_client_cert_resolver(identity(cert, signer_seed));
    let cfg = quinn::ClientConfig::new(Arc::new(quinn::crypto::rustls::QuicClientConfig::try_from(crypto).unwrap()));
    let mut ep = quinn::Endpoint::client("127.0.0.1:0".parse().unwrap()).unwrap();
    ep.set_default_client_config(cfg);
    ep
}
// a listener that is not anemo: shows `cert`, signs with `signer_seed`, asks for no client certificate and acknowledges every connection the way anemo does
fn listener_presenting(cert: CertificateDer<'static>, signer_seed: u8) -> quinn::Endpoint { listener_presenting_chain(vec![cert], signer_seed) }
fn listener_presenting_chain(chain: Vec<CertificateDer<'static>>, signer_seed: u8) -> quinn::Endpoint {
    let crypto = rustls::ServerConfig::builder_with_provider(Arc::new(rustls::crypto::ring::default_provider()))
        .with_protocol_versions(&[&rustls::version::TLS13]).unwrap()
        .with_no_client_auth()
        .with_cert_resolver(identity_chain(chain, signer_seed));
    let cfg = quinn::ServerConfig::with_crypto(Arc::new(quinn::crypto::rustls::QuicServerConfig::try_from(crypto).unwrap()));
    let ep = quinn::Endpoint::server(cfg, "127.0.0.1:0".parse().unwrap()).unwrap();
    let acc = ep.clone();
    tokio::spawn(async move {
        while let Some(incoming) = acc.accept().await {
            tokio::spawn(async move {
                if let Ok(conn) = incoming.await {
                    if let Ok(mut tx) = conn.open_uni().await {
                        let _ = tx.write_all(b"anemo\x00\x01\x00").await;
                        let _ = tx.finish();
                        let _ = tx.stopped().await;
                    }
                    tokio::time::sleep(Duration::from_millis(1500)).await;
                }
            });
        }
    });
    ep
}
async fn raw_dial_admitted(ep: &quinn::Endpoint, l: &anemo::Network, id: anemo::PeerId) -> Value {
    let (mut got_ack, mut listed) = (false, false);
    if let Ok(connecting) = ep.connect(l.local_addr(), "net-a") {
        if let Ok(Ok(conn)) = tokio::time::timeout(Duration::from_millis(1500), connecting).await {
            if let Ok(Ok(mut rx)) = tokio::time::timeout(Duration::from_millis(700), conn.accept_uni()).await {
                let mut buf = [0u8; 8];
                got_ack = matches!(tokio::time::timeout(Duration::from_millis(500), rx.read_exact(&mut buf)).await, Ok(Ok(())));
            }
            for _ in 0..20 { if l.peers().contains(&id) { listed = true; break; } tokio::time::sleep(Duration::from_millis(10)).await; }
            conn.close(0u32.into(), b"done");
        }
    }
    for _ in 0..100 { if !l.peers().contains(&id) { break; } tokio::time::sleep(Duration::from_millis(10)).await; }
    json!({"acknowledged": got_ack, "listed": listed})
}
/// histories in which somebody presents a certificate whose private key they do not hold, before and after the rightful holder used it
pub async fn stolen_certificate(_a: &Value) -> Value {
    let echo = || tower::ServiceExt::boxed_clone(tower::service_fn(|r: Request<Bytes>| async move { Ok::<_, std::convert::Infallible>(Response::new(r.into_body())) }));
    let network = |key: u8| {
        let mut c = Config::default();
        c.connect_timeout_ms = Some(1500);
        anemo::Network::bind("127.0.0.1:0").server_name("net-a").private_key([key; 32]).config(c).start(echo()).expect("network")
    };
    let (_, victim_cert, victim_pub) = key_and_cert(211, "net-a");
    let victim = anemo::PeerId(victim_pub);
    // (1) inbound: a dialer shows the victim's certificate to an anemo listener
    let l = network(44);
    let mut inbound = Vec::new();
    for (who, signer) in [("thief_first", 212u8), ("holder", 211), ("thief_after_holder", 212), ("holder_again", 211), ("another_thief", 213)] {
        let ep = dialer_presenting(victim_cert.clone(), signer);
        let mut r = raw_dial_admitted(&ep, &l, victim).await;
        r["who"] = json!(who); r["holds_the_private_key"] = json!(signer == 211);
        inbound.push(r);
        ep.close(0u32.into(), b"");
    }
    // (2) outbound: an anemo network dials a listener that shows the victim's certificate; with and without naming the identity it expects
    let d = network(45);
    let mut outbound = Vec::new();
    for (who, signer) in [("thief_first", 212u8), ("holder", 211), ("thief_after_holder", 212), ("holder_again", 211)] {
        for pinned in [false, true] {
            let srv = listener_presenting(victim_cert.clone(), signer);
            let addr = srv.local_addr().unwrap();
            let res = if pinned { tokio::time::timeout(Duration::from_millis(4000), d.connect_with_peer_id(addr, victim)).await }
                      else { tokio::time::timeout(Duration::from_millis(4000), d.connect(addr)).await };
            let (ok, as_id) = match res { Ok(Ok(p)) => (true, Some(p.0[0])), _ => (false, None) };
            let listed = d.peers().contains(&victim);
            let _ = d.disconnect(victim);
            srv.close(0u32.into(), b"");
            for _ in 0..100 { if !d.peers().contains(&victim) { break; } tokio::time::sleep(Duration::from_millis(10)).await; }
            outbound.push(json!({"who": who, "holds_the_private_key": signer == 211, "dial_names_the_identity": pinned, "connect_ok": ok, "listed": listed, "attributed_first_byte": as_id, "victim_first_byte": victim.0[0]}));
        }
    }
    // (3) the holder of the key shows its certificate FOLLOWED by somebody else's: the identity reached is the holder's (the first certificate, whose key
    // signed the handshake), for a dial that names it and for one that does not
    let (_, other_cert, other_pub) = key_and_cert(214, "net-a");
    let mut chains = Vec::new();
    for pinned in [false, true] {
        let srv = listener_presenting_chain(vec![victim_cert.clone(), other_cert.clone()], 211);
        let addr = srv.local_addr().unwrap();
        let res = if pinned { tokio::time::timeout(Duration::from_millis(4000), d.connect_with_peer_id(addr, victim)).await } else { tokio::time::timeout(Duration::from_millis(4000), d.connect(addr)).await };
        let returned = match res { Ok(Ok(p)) => Some(p), _ => None };
        let (lists_holder, lists_other) = (d.peers().contains(&victim), d.peers().contains(&anemo::PeerId(other_pub)));
        let _ = d.disconnect(victim); let _ = d.disconnect(anemo::PeerId(other_pub));
        srv.close(0u32.into(), b"");
        for _ in 0..100 { if d.peers().is_empty() { break; } tokio::time::sleep(Duration::from_millis(10)).await; }
        chains.push(json!({"dial_names_the_identity": pinned, "connect_ok": returned.is_some(), "returned_the_holder": returned == Some(victim), "returned_the_other": returned == Some(anemo::PeerId(other_pub)), "lists_holder": lists_holder, "lists_other": lists_other}));
    }
    json!({"inbound": inbound, "outbound": outbound, "two_certificate_chain": chains})
}
