//! C06 on real networks: a connected peer that is NOT anemo (a bare quinn / rustls client with a valid certificate, see rawdial.rs)
//! misbehaves on its connection; after every misbehaviour a well-formed RPC on the SAME connection (encoded by hand here, from the
//! statement of the wire format) and one from another, honest peer must succeed.  Uses no hook of the library.
use crate::rawdial::raw_client;
use anemo::{Config, Request, Response};
use bytes::Bytes;
use serde_json::{json, Value};
use std::time::{Duration, Instant};

fn service(slow_ms: u64) -> tower::util::BoxCloneService<Request<Bytes>, Response<Bytes>, std::convert::Infallible> {
    tower::ServiceExt::boxed_clone(tower::service_fn(move |r: Request<Bytes>| async move {
        if r.body().starts_with(b"slow") {
            tokio::time::sleep(Duration::from_millis(slow_ms)).await;
        }
        Ok::<_, std::convert::Infallible>(Response::new(r.into_body()))
    }))
}
fn net(key: u8, slow_ms: u64) -> anemo::Network {
    let mut c = Config::default();
    c.connect_timeout_ms = Some(3000);
    anemo::Network::bind("127.0.0.1:0").server_name("verif").private_key([key; 32]).config(c).start(service(slow_ms)).expect("network")
}
/// version preamble + length-prefixed bincode header (route, no headers) + length-prefixed body
pub fn encode_request(route: &str, body: &[u8]) -> Vec<u8> { encode_request_with(route, &[], body) }
pub fn encode_request_with(route: &str, headers: &[(&str, &str)], body: &[u8]) -> Vec<u8> {
    let mut h = Vec::new();
    h.extend_from_slice(&(route.len() as u64).to_le_bytes());
    h.extend_from_slice(route.as_bytes());
    h.extend_from_slice(&(headers.len() as u64).to_le_bytes());
    for (k, v) in headers {
        h.extend_from_slice(&(k.len() as u64).to_le_bytes()); h.extend_from_slice(k.as_bytes());
        h.extend_from_slice(&(v.len() as u64).to_le_bytes()); h.extend_from_slice(v.as_bytes());
    }
    let mut m = b"anemo\x00\x01\x00".to_vec();
    m.extend_from_slice(&(h.len() as u32).to_be_bytes());
    m.extend_from_slice(&h);
    m.extend_from_slice(&(body.len() as u32).to_be_bytes());
    m.extend_from_slice(body);
    m
}
/// (status, body) of a response message
fn decode_response(m: &[u8]) -> Option<(u16, Vec<u8>)> {
    if m.len() < 12 || &m[..8] != b"anemo\x00\x01\x00" { return None; }
    let hl = u32::from_be_bytes(m[8..12].try_into().ok()?) as usize;
    let h = m.get(12..12 + hl)?;
    let status = u16::from_le_bytes(h.get(0..2)?.try_into().ok()?);
    let rest = &m[12 + hl..];
    let bl = u32::from_be_bytes(rest.get(0..4)?.try_into().ok()?) as usize;
    Some((status, rest.get(4..4 + bl)?.to_vec()))
}
/// one well-formed RPC by hand on a raw connection
async fn raw_rpc(conn: &quinn::Connection, tag: &str, limit_ms: u64) -> (bool, u64) {
    let t0 = Instant::now();
    let body = format!("probe-{tag}").into_bytes();
    let fut = async {
        let (mut tx, mut rx) = conn.open_bi().await.ok()?;
        tx.write_all(&encode_request("/probe", &body)).await.ok()?;
        tx.finish().ok()?;
        let all = rx.read_to_end(1 << 20).await.ok()?;
        decode_response(&all)
    };
    let r = tokio::time::timeout(Duration::from_millis(limit_ms), fut).await;
    (matches!(r, Ok(Some((200, ref b))) if *b == body), t0.elapsed().as_millis() as u64)
}
async fn probe(from: &anemo::Network, to: anemo::PeerId, tag: &str, limit_ms: u64) -> (bool, u64) {
    let t0 = Instant::now();
    let body = Bytes::from(format!("probe-{tag}").into_bytes());
    let r = tokio::time::timeout(Duration::from_millis(limit_ms), from.rpc(to, Request::new(body.clone()))).await;
    (matches!(r, Ok(Ok(ref resp)) if resp.body() == &body), t0.elapsed().as_millis() as u64)
}

pub async fn hostile_streams(a: &Value) -> Value {
    let slow_ms = a.get("slow_ms").and_then(|x| x.as_u64()).unwrap_or(2000);
    let limit_ms = a.get("limit_ms").and_then(|x| x.as_u64()).unwrap_or(1000);
    let s = net(21, slow_ms);
    let honest = net(22, slow_ms);
    honest.connect(s.local_addr()).await.expect("connect");
    let (ep, public) = raw_client(23, "verif");
    let hostile_id = anemo::PeerId(public);
    let conn = match tokio::time::timeout(Duration::from_secs(3), ep.connect(s.local_addr(), "verif").expect("connect")).await {
        Ok(Ok(c)) => c,
        other => return json!({"setup_failed": format!("the raw client could not connect: {:?}", other.map(|r| r.map(|_| ()))) }),
    };
    // anemo's acknowledgement: the listener's 8-byte version frame on a unidirectional stream
    let mut ack = [0u8; 8];
    let acked = match tokio::time::timeout(Duration::from_secs(2), conn.accept_uni()).await {
        Ok(Ok(mut rx)) => matches!(tokio::time::timeout(Duration::from_secs(1), rx.read_exact(&mut ack)).await, Ok(Ok(()))),
        _ => false,
    };
    if !acked { return json!({"setup_failed": "the listener did not acknowledge the raw client"}); }
    for _ in 0..100 { if s.peers().contains(&hostile_id) { break; } tokio::time::sleep(Duration::from_millis(10)).await; }
    let valid = encode_request("/x", b"hello");
    let mut keep_send = Vec::new();
    let mut keep_recv = Vec::new();
    let mut steps = Vec::new();
    let names = ["one_byte_then_silence", "partial_version_frame", "garbage_then_finish", "huge_length_prefix", "valid_request_then_reset",
                 "valid_request_then_stop", "uni_stream_garbage", "datagram", "thirty_silent_streams", "slow_handler_in_flight"];
    let only: Option<Vec<String>> = a.get("only").and_then(|x| x.as_array()).map(|v| v.iter().filter_map(|s| s.as_str().map(|s| s.to_owned())).collect());
    let mut slow_task = None;
    for name in names {
        if let Some(o) = &only { if !o.iter().any(|n| n == name) { continue; } }
        let mut note = String::new();
        match name {
            "one_byte_then_silence" | "partial_version_frame" | "garbage_then_finish" | "huge_length_prefix" | "valid_request_then_reset" | "valid_request_then_stop" => {
                match conn.open_bi().await {
                    Ok((mut tx, mut rx)) => {
                        let payload: Vec<u8> = match name {
                            "one_byte_then_silence" => vec![b'a'],
                            "partial_version_frame" => b"ane".to_vec(),
                            "garbage_then_finish" => vec![0xff; 64],
                            "huge_length_prefix" => { let mut v = b"anemo\x00\x01\x00".to_vec(); v.extend_from_slice(&[0xff, 0xff, 0xff, 0xff, 1, 2, 3]); v }
                            _ => valid.clone(),
                        };
                        if let Err(e) = tx.write_all(&payload).await { note = format!("write: {e}"); }
                        match name {
                            "garbage_then_finish" => { let _ = tx.finish(); }
                            "valid_request_then_reset" => { let _ = tx.reset(7u32.into()); }
                            "valid_request_then_stop" => { let _ = tx.finish(); let _ = rx.stop(9u32.into()); }
                            _ => {}
                        }
                        keep_send.push(tx);
                        keep_recv.push(rx);
                    }
                    Err(e) => note = format!("open_bi: {e}"),
                }
            }
            "uni_stream_garbage" => {
                if let Ok(mut tx) = conn.open_uni().await { let _ = tx.write_all(&[0x42; 100]).await; let _ = tx.finish(); keep_send.push(tx); }
            }
            "datagram" => { if let Err(e) = conn.send_datagram(Bytes::from_static(b"datagram")) { note = format!("send_datagram: {e}"); } }
            "thirty_silent_streams" => {
                for _ in 0..30 {
                    if let Ok((mut tx, rx)) = conn.open_bi().await { let _ = tx.write_all(b"a").await; keep_send.push(tx); keep_recv.push(rx); }
                }
            }
            "slow_handler_in_flight" => {
                let c2 = conn.clone();
                slow_task = Some(tokio::spawn(async move {
                    let (mut tx, mut rx) = c2.open_bi().await.ok()?;
                    tx.write_all(&encode_request("/slow", b"slow-one")).await.ok()?;
                    tx.finish().ok()?;
                    decode_response(&rx.read_to_end(1 << 20).await.ok()?)
                }));
                tokio::time::sleep(Duration::from_millis(100)).await;
                // a first quick request completes while the slow one is still being handled ...
                let _ = raw_rpc(&conn, "warmup", limit_ms).await;
            }
            _ => {}
        }
        tokio::time::sleep(Duration::from_millis(50)).await;
        // ... and the next well-formed request on the same connection must still be served promptly
        let (same_ok, same_ms) = raw_rpc(&conn, name, limit_ms).await;
        let (other_ok, other_ms) = probe(&honest, s.peer_id(), name, limit_ms).await;
        steps.push(json!({"misbehaviour": name, "same_connection_rpc_ok": same_ok, "same_connection_ms": same_ms, "other_peer_rpc_ok": other_ok, "other_peer_ms": other_ms, "note": note}));
    }
    let slow_ok = match slow_task { Some(t) => matches!(tokio::time::timeout(Duration::from_millis(slow_ms + 3000), t).await, Ok(Ok(Some((200, ref b)))) if b == b"slow-one"), None => true };
    let still = s.peers().contains(&hostile_id) && s.peers().contains(&honest.peer_id());
    let (final_ok, _) = probe(&honest, s.peer_id(), "final", limit_ms).await;
    drop(keep_send); drop(keep_recv);
    // a peer goes away ABRUPTLY with requests of its own in flight (one being handled, one half sent): that ends its connection, nothing else
    let abrupt = if only.is_none() {
        let (ep2, _p2) = raw_client(24, "verif");
        let mut r = json!({"connected": false});
        if let Ok(Ok(c2)) = tokio::time::timeout(Duration::from_secs(3), ep2.connect(s.local_addr(), "verif").expect("connect")).await {
            if let Ok(Ok(mut rx)) = tokio::time::timeout(Duration::from_secs(2), c2.accept_uni()).await { let mut b = [0u8; 8]; let _ = rx.read_exact(&mut b).await; }
            let mut held = Vec::new();
            if let Ok((mut tx, rx)) = c2.open_bi().await { let _ = tx.write_all(&encode_request("/slow", b"slow-two")).await; let _ = tx.finish(); held.push((tx, rx)); }
            if let Ok((mut tx, rx)) = c2.open_bi().await { let _ = tx.write_all(&valid[..valid.len() / 2]).await; held.push((tx, rx)); }
            tokio::time::sleep(Duration::from_millis(150)).await;
            c2.close(3u32.into(), b"gone");
            ep2.close(3u32.into(), b"gone");
            drop(held);
            tokio::time::sleep(Duration::from_millis(400)).await;
            let (honest_ok, _) = probe(&honest, s.peer_id(), "after-abrupt", limit_ms).await;
            let (ep3, _p3) = raw_client(25, "verif");
            let newcomer = matches!(tokio::time::timeout(Duration::from_secs(3), ep3.connect(s.local_addr(), "verif").expect("connect")).await, Ok(Ok(_)));
            r = json!({"connected": true, "server_closed": s.is_closed(), "honest_rpc_ok": honest_ok, "new_peer_can_connect": newcomer});
        }
        r
    } else { Value::Null };
    json!({"steps": steps, "slow_rpc_ok": slow_ok, "both_still_connected": still, "final_rpc_ok": final_ok, "limit_ms": limit_ms, "slow_ms": slow_ms, "after_abrupt_close_with_requests_in_flight": abrupt})
}

/// C11, serving side, with a caller that is NOT anemo (so nothing on the calling side enforces the header): a request carrying a timeout header
/// of `header_ms` to a server whose handler needs `handler_ms`, with or without a configured inbound default.
pub async fn header_only_deadline(a: &Value) -> Value {
    let handler_ms = a["handler_ms"].as_u64().unwrap();
    let slow = tower::ServiceExt::boxed_clone(tower::service_fn(move |r: Request<Bytes>| async move {
        tokio::time::sleep(Duration::from_millis(handler_ms)).await;
        Ok::<_, std::convert::Infallible>(Response::new(r.into_body()))
    }));
    let mut cfg = Config::default();
    cfg.inbound_request_timeout_ms = a.get("server_inbound_ms").and_then(|x| x.as_u64());
    let server = anemo::Network::bind("127.0.0.1:0").server_name("verif").private_key([51; 32]).config(cfg).start(slow).expect("server");
    let (ep, _public) = raw_client(52, "verif");
    let conn = match tokio::time::timeout(Duration::from_secs(3), ep.connect(server.local_addr(), "verif").expect("connect")).await {
        Ok(Ok(c)) => c,
        _ => return json!({"setup_failed": "the raw client could not connect"}),
    };
    if let Ok(Ok(mut rx)) = tokio::time::timeout(Duration::from_secs(2), conn.accept_uni()).await { let mut b = [0u8; 8]; let _ = rx.read_exact(&mut b).await; }
    let ns = a.get("header_ms").and_then(|x| x.as_u64()).map(|ms| (ms * 1_000_000).to_string());
    let headers: Vec<(&str, &str)> = match &ns { Some(v) => vec![("timeout", v.as_str())], None => vec![] };
    let t0 = Instant::now();
    let fut = async {
        let (mut tx, mut rx) = conn.open_bi().await.ok()?;
        tx.write_all(&encode_request_with("/x", &headers, b"hello")).await.ok()?;
        tx.finish().ok()?;
        decode_response(&rx.read_to_end(1 << 20).await.ok()?)
    };
    let r = tokio::time::timeout(Duration::from_millis(handler_ms + 3000), fut).await;
    let ms = t0.elapsed().as_millis() as u64;
    match r {
        Ok(Some((status, _))) => json!({"outcome": "response", "status": status, "elapsed_ms": ms}),
        Ok(None) => json!({"outcome": "no-response", "elapsed_ms": ms}),
        Err(_) => json!({"outcome": "hung", "elapsed_ms": ms}),
    }
}

/// C06, application-level decode paths reachable from a remote peer: a node that serves through anemo's Router, with one untyped route and typed
/// routes wired like generated code (rpc::server::Rpc with the json and the bincode codec).  A hostile (but anemo) peer sends odd routes and
/// undecodable bodies of every length; every one must be answered (an error status), nothing may crash, and honest calls keep working.
pub async fn hostile_requests(_a: &Value) -> Value {
    use anemo::rpc::codec::{BincodeCodec, JsonCodec};
    use anemo::rpc::Status;
    let untyped = tower::service_fn(|r: Request<Bytes>| async move { Ok::<_, std::convert::Infallible>(Response::new(r.into_body())) });
    let json = tower::service_fn(|request: Request<Bytes>| async move {
        let method = tower::service_fn(|request: Request<u64>| async move { Ok::<_, Status>(Response::new(request.into_body().wrapping_add(1))) });
        let mut rpc = anemo::rpc::server::Rpc::new(JsonCodec::<u64, u64>::default(), JsonCodec::<u64, u64>::default());
        Ok::<_, std::convert::Infallible>(rpc.unary(method, request).await)
    });
    let bincode = tower::service_fn(|request: Request<Bytes>| async move {
        let method = tower::service_fn(|request: Request<String>| async move { Ok::<_, Status>(Response::new(request.into_body().len() as u64)) });
        let mut rpc = anemo::rpc::server::Rpc::new(BincodeCodec::<u64, String>::default(), BincodeCodec::<u64, String>::default());
        Ok::<_, std::convert::Infallible>(rpc.unary(method, request).await)
    });
    let router = anemo::Router::new().route("/echo", untyped).route("/typed/json", json).route("/typed/bincode", bincode).route("/tree/*rest", untyped);
    let mut c = Config::default();
    c.connect_timeout_ms = Some(3000);
    let server = anemo::Network::bind("127.0.0.1:0").server_name("verif").private_key([61; 32]).config(c).start(router).expect("server");
    let honest = net(62, 10);
    let hostile = net(63, 10);
    let sid = honest.connect(server.local_addr()).await.expect("connect");
    hostile.connect(server.local_addr()).await.expect("connect");
    let ok_call = |n: &anemo::Network| { let n = n.clone(); async move {
        let r = tokio::time::timeout(Duration::from_secs(3), n.rpc(sid, Request::new(Bytes::from_static(b"41")).with_route("/typed/json"))).await;
        matches!(r, Ok(Ok(ref resp)) if resp.status().to_u16() == 200 && resp.body().as_ref() == b"42")
    } };
    let mut unanswered: Vec<String> = Vec::new();
    let mut wrongly_ok: Vec<String> = Vec::new();
    let mut sent = 0u64;
    let mut cases: Vec<(String, String, Vec<u8>, bool)> = Vec::new();     // (label, route, body, a success status is acceptable)
    // odd routes: must be NotFound (or served), never a crash
    for route in ["", "/", "//", "/echo/", "/ECHO", "/typed", "/typed/", "/tree", "/tree/", "/tree/a/b/c", "/*rest", "/:x", "/{x}", "/{*rest}", "/echo?x=1", "/\u{e9}cho", "/echo\u{0}", "echo"] {
        cases.push((format!("route {route:?}"), route.to_owned(), b"41".to_vec(), true));
    }
    cases.push(("route of 10000 x 'a'".to_owned(), format!("/{}", "a".repeat(10000)), b"41".to_vec(), true));
    // undecodable bodies for the json method: a json string (wrong type) of 0..=420 two-byte characters, other wrong shapes, invalid UTF-8
    for n in 0..=420usize { cases.push((format!("json string of {n} x 'é'"), "/typed/json".to_owned(), format!("\"{}\"", "é".repeat(n)).into_bytes(), false)); }
    for n in [0usize, 1, 170, 171, 255, 256, 300] { cases.push((format!("json string of {n} x '漢'"), "/typed/json".to_owned(), format!("\"{}\"", "漢".repeat(n)).into_bytes(), false)); }
    for b in [&b""[..], b"-1", b"1e999", b"[1,2", b"{\"a\":", b"\xff\xfe\xfd", b"18446744073709551616", b"null", b"   "] { cases.push((format!("json body {:?}", String::from_utf8_lossy(b)), "/typed/json".to_owned(), b.to_vec(), false)); }
    // undecodable bodies for the bincode method (expects a String): truncated length, huge length, invalid UTF-8
    for b in [&b""[..], b"\x05", b"\xff\xff\xff\xff\xff\xff\xff\xff", b"\xff\xff\xff\xff\xff\xff\xff\x7fabc", b"\x02\x00\x00\x00\x00\x00\x00\x00\xff\xfe", b"\x0a\x00\x00\x00\x00\x00\x00\x00ab"] {
        cases.push((format!("bincode body {}", hex::encode(b)), "/typed/bincode".to_owned(), b.to_vec(), false));
    }
    for (i, (label, route, body, success_ok)) in cases.iter().enumerate() {
        sent += 1;
        let r = tokio::time::timeout(Duration::from_secs(3), hostile.rpc(sid, Request::new(Bytes::from(body.clone())).with_route(route.clone()))).await;
        match r {
            Ok(Ok(resp)) => { if resp.status().to_u16() == 200 && !success_ok && wrongly_ok.len() < 5 { wrongly_ok.push(label.clone()); } }
            _ => { if unanswered.len() < 5 { unanswered.push(label.clone()); } }
        }
        if (i % 40 == 39 || !unanswered.is_empty()) && !(ok_call(&honest).await && ok_call(&hostile).await) {
            return json!({"sent": sent, "unanswered": unanswered, "wrongly_accepted": wrongly_ok, "serving_stopped_after": label, "server_closed": server.is_closed()});
        }
    }
    let still = ok_call(&honest).await && ok_call(&hostile).await;
    json!({"sent": sent, "unanswered": unanswered, "wrongly_accepted": wrongly_ok, "serving_stopped_after": if still { Value::Null } else { json!("the end") }, "server_closed": server.is_closed()})
}

/// C01: nothing carried IN a message can supply or influence the PeerId attributed to it.  `names` are header names (every `&str` constant the
/// library declares -- read from its source on every run -- plus a few an implementer might reach for); each is filled with ANOTHER peer's identity in
/// several spellings.  (a) a lying (anemo) replier puts them on error and success replies: the typed client (rpc::client::Rpc::unary ->
/// Status::peer_id / Response::peer_id) and the untyped one (Network::rpc) must still name the replier's authenticated key.  (b) a raw dialer
/// puts them on a request: the handler must still see the dialer's authenticated key.
pub async fn identity_claims_in_headers(a: &Value) -> Value {
    use anemo::rpc::codec::BincodeCodec;
    let names: Vec<String> = a.get("names").and_then(|x| x.as_array()).map(|v| v.iter().filter_map(|s| s.as_str().map(|s| s.to_owned())).collect()).unwrap_or_default();
    let names = std::sync::Arc::new(names);
    // the replier: status and the claimed identity come from the request ("x-status", "x-claim"); every name carries the claim; the body is echoed;
    // and it reports whom IT saw as the sender (the first 32 bytes of an untyped reply to route /whoami)
    let n2 = names.clone();
    let liar_service = tower::ServiceExt::boxed_clone(tower::service_fn(move |r: Request<Bytes>| { let names = n2.clone(); async move {
        if r.route() == "/whoami" {
            let seen = r.peer_id().map(|p| p.0.to_vec()).unwrap_or_default();
            return Ok::<_, std::convert::Infallible>(Response::new(Bytes::from(seen)));
        }
        let status: u16 = r.headers().get("x-status").and_then(|s| s.parse().ok()).unwrap_or(200);
        let claim = r.headers().get("x-claim").cloned().unwrap_or_default();
        let mut resp = Response::new(r.into_body()).with_status(anemo::types::response::StatusCode::new(status).unwrap());
        for n in names.iter() { resp = resp.with_header(n.clone(), claim.clone()); }
        Ok(resp)
    } }));
    let mut c = Config::default();
    c.connect_timeout_ms = Some(3000);
    let liar = anemo::Network::bind("127.0.0.1:0").server_name("verif").private_key([71; 32]).config(c).start(liar_service).expect("liar");
    let victim = net(72, 10);
    let caller = net(73, 10);
    let liar_id = caller.connect(liar.local_addr()).await.expect("connect liar");
    let victim_id = caller.connect(victim.local_addr()).await.expect("connect victim");   // the victim is a peer the caller knows and is connected to
    let spellings: Vec<String> = vec![hex::encode(victim_id.0), hex::encode_upper(victim_id.0), format!("0x{}", hex::encode(victim_id.0)), format!("{}", victim_id), format!("{:?}", victim_id),
                                      String::from_utf8_lossy(&victim_id.0).into_owned(), serde_json::to_string(&victim_id.0.to_vec()).unwrap()];
    let mut replies = Vec::new();
    for claim in spellings.iter() {
        for status in [200u16, 400, 404, 500, 520] {
            let peer = caller.peer(liar_id).expect("peer");
            let mut rpc = anemo::rpc::client::Rpc::new(peer);
            let req = Request::new(7u64).with_route("/x").with_header("x-status", status.to_string()).with_header("x-claim", claim.clone());
            let typed = tokio::time::timeout(Duration::from_secs(3), rpc.unary(req, BincodeCodec::<u64, u64>::default())).await;
            let typed_named = match typed { Ok(Ok(resp)) => resp.peer_id().map(|p| p.0.to_vec()), Ok(Err(st)) => st.peer_id().map(|p| p.0.to_vec()), Err(_) => None };
            let req = Request::new(Bytes::from_static(&[7, 0, 0, 0, 0, 0, 0, 0])).with_route("/x").with_header("x-status", status.to_string()).with_header("x-claim", claim.clone());
            let untyped = tokio::time::timeout(Duration::from_secs(3), caller.rpc(liar_id, req)).await;
            let untyped_named = match untyped { Ok(Ok(resp)) => resp.peer_id().map(|p| p.0.to_vec()), _ => None };
            replies.push(json!({"claim": claim, "status": status, "typed_names_replier": typed_named.as_deref() == Some(&liar_id.0[..]), "typed_names_victim": typed_named.as_deref() == Some(&victim_id.0[..]),
                                "untyped_names_replier": untyped_named.as_deref() == Some(&liar_id.0[..])}));
        }
    }
    // (b) a raw dialer claims the victim's identity in request headers
    let (ep, raw_pub) = raw_client(74, "verif");
    let mut requests = Vec::new();
    if let Ok(Ok(conn)) = tokio::time::timeout(Duration::from_secs(3), ep.connect(liar.local_addr(), "verif").unwrap()).await {
        if let Ok(Ok(mut rx)) = tokio::time::timeout(Duration::from_secs(2), conn.accept_uni()).await { let mut b = [0u8; 8]; let _ = rx.read_exact(&mut b).await; }
        for claim in spellings.iter() {
            let hs: Vec<(&str, &str)> = names.iter().map(|n| (n.as_str(), claim.as_str())).filter(|(n, _)| *n != "timeout").collect();
            let fut = async {
                let (mut tx, mut rx) = conn.open_bi().await.ok()?;
                tx.write_all(&encode_request_with("/whoami", &hs, b"")).await.ok()?;
                tx.finish().ok()?;
                decode_response(&rx.read_to_end(1 << 20).await.ok()?)
            };
            let r = tokio::time::timeout(Duration::from_secs(3), fut).await;
            let seen = match r { Ok(Some((200, b))) => Some(b), _ => None };
            requests.push(json!({"claim": claim, "handler_saw_the_dialer": seen.as_deref() == Some(&raw_pub[..]), "handler_saw_the_victim": seen.as_deref() == Some(&victim_id.0[..]), "answered": seen.is_some()}));
        }
    }
    json!({"names": names.len(), "replies": replies, "requests": requests})
}

/// C17, the hand-written half on real networks: a typed handler behind rpc::server::Rpc (bincode: String -> u64) and a typed caller through
/// rpc::client::Rpc.  The handler answers a message, or an error status with a code, a message and headers of its own; callers also send payloads the
/// server cannot decode and expect payloads the server does not send.
pub async fn typed_rpc_roundtrip(_a: &Value) -> Value {
    use anemo::rpc::codec::BincodeCodec;
    use anemo::rpc::Status;
    use anemo::types::response::StatusCode;
    let svc = tower::ServiceExt::boxed_clone(tower::service_fn(|request: Request<Bytes>| async move {
        let method = tower::service_fn(|request: Request<String>| async move {
            let s = request.into_body();
            match s.as_str() {
                "fail-400" => Err(Status::new_with_message(StatusCode::BadRequest, "bad input: é").with_header("x-detail", "d1").with_header("retry-after", "7")),
                "fail-500" => Err(Status::internal("boom")),
                "fail-429" => Err(Status::new(StatusCode::TooManyRequests).with_header("wait-nanos", "12345")),
                // a relay: its own code and message, the headers of the upstream status it got copied across (a status-message header among them)
                "fail-relay" => Err(Status::new_with_message(StatusCode::NotFound, "user lookup failed upstream").with_header("status-message", "no such user").with_header("x-upstream", "u1")),
                _ => Ok::<_, Status>(Response::new(s.len() as u64).with_header("x-len", s.len().to_string())),
            }
        });
        let mut rpc = anemo::rpc::server::Rpc::new(BincodeCodec::<u64, String>::default(), BincodeCodec::<u64, String>::default());
        Ok::<_, std::convert::Infallible>(rpc.unary(method, request).await)
    }));
    let mut c = Config::default();
    c.connect_timeout_ms = Some(3000);
    let server = anemo::Network::bind("127.0.0.1:0").server_name("verif").private_key([111; 32]).config(c).start(svc).expect("server");
    let caller = net(112, 10);
    let sid = caller.connect(server.local_addr()).await.expect("connect");
    let mut out = Vec::new();
    for (input, want_status, want_msg, want_headers) in [("hello", 200u16, None, vec![("x-len", "5")]), ("", 200, None, vec![("x-len", "0")]),
            ("fail-400", 400, Some("bad input: é"), vec![("x-detail", "d1"), ("retry-after", "7")]), ("fail-500", 500, Some("boom"), vec![]), ("fail-429", 429, None, vec![("wait-nanos", "12345")]),
            ("fail-relay", 404, Some("user lookup failed upstream"), vec![("x-upstream", "u1")])] {
        let mut rpc = anemo::rpc::client::Rpc::new(caller.peer(sid).expect("peer"));
        let r = tokio::time::timeout(Duration::from_secs(3), rpc.unary(Request::new(input.to_owned()).with_route("/m"), BincodeCodec::<String, u64>::default())).await;
        let got = match r {
            Err(_) => json!({"outcome": "no answer"}),
            Ok(Ok(resp)) => json!({"outcome": "message", "status": resp.status().to_u16(), "value": resp.body(), "headers_ok": want_headers.iter().all(|(k, v)| resp.headers().get(*k).map(|s| s.as_str()) == Some(*v)), "from_server": resp.peer_id() == Some(&sid)}),
            Ok(Err(st)) => json!({"outcome": "status", "status": st.status().to_u16(), "message": st.headers().get("status-message"), "headers_ok": want_headers.iter().all(|(k, v)| st.headers().get(*k).map(|s| s.as_str()) == Some(*v)), "from_server": st.peer_id() == Some(&sid)}),
        };
        let ok = if want_status == 200 { got["outcome"] == "message" && got["status"] == 200 && got["value"] == json!(input.len() as u64) && got["headers_ok"] == true && got["from_server"] == true }
                 else { got["outcome"] == "status" && got["status"] == want_status && got["headers_ok"] == true && got["from_server"] == true && (want_msg.is_none() || got["message"] == json!(want_msg)) };
        out.push(json!({"case": format!("handler input {input:?}"), "ok": ok, "observed": got}));
    }
    // the caller sends a payload the server cannot decode (a u64 where a String is expected: 8 bytes that are a huge length prefix)
    let mut rpc = anemo::rpc::client::Rpc::new(caller.peer(sid).expect("peer"));
    let r = tokio::time::timeout(Duration::from_secs(3), rpc.unary(Request::new(u64::MAX).with_route("/m"), BincodeCodec::<u64, u64>::default())).await;
    let got = match r { Err(_) => json!({"outcome": "no answer"}), Ok(Ok(resp)) => json!({"outcome": "message", "value": resp.body()}), Ok(Err(st)) => json!({"outcome": "status", "status": st.status().to_u16()}) };
    out.push(json!({"case": "request payload the server cannot decode", "ok": got["outcome"] == "status" && got["status"] != 200, "observed": got}));
    // the caller expects a payload type the server does not send (a String where a u64 comes back)
    let mut rpc = anemo::rpc::client::Rpc::new(caller.peer(sid).expect("peer"));
    let r = tokio::time::timeout(Duration::from_secs(3), rpc.unary(Request::new("hello".to_owned()).with_route("/m"), BincodeCodec::<String, String>::default())).await;
    let got = match r { Err(_) => json!({"outcome": "no answer"}), Ok(Ok(resp)) => json!({"outcome": "message", "value": resp.body()}), Ok(Err(st)) => json!({"outcome": "status", "status": st.status().to_u16()}) };
    out.push(json!({"case": "reply payload the caller cannot decode", "ok": got["outcome"] == "status", "observed": got}));
    let still = tokio::time::timeout(Duration::from_secs(3), caller.rpc(sid, Request::new(Bytes::from(vec![5u8, 0, 0, 0, 0, 0, 0, 0, b'h', b'e', b'l', b'l', b'o'])).with_route("/m"))).await;
    out.push(json!({"case": "the server still serves afterwards", "ok": matches!(still, Ok(Ok(ref r)) if r.status().to_u16() == 200), "observed": Value::Null}));
    json!({"cases": out})
}

/// C06: a connected peer has a request in flight on a slow handler (and a second one half sent) and then goes away abruptly -- by `disconnect()` if it is an
/// anemo node, by closing the QUIC connection if it is a raw client.  Run on a current-thread runtime AND on a multi-thread one (which task notices the
/// end of the connection first differs between the two).  Afterwards the node is up, an honest peer is served and a newcomer can connect.
pub async fn abrupt_close(_a: &Value) -> Value {
    let s = net(26, 4000);
    let honest = net(27, 10);
    let sid = honest.connect(s.local_addr()).await.expect("connect");
    let mut rounds = Vec::new();
    for kind in ["anemo_peer_disconnects", "raw_client_closes"] {
        if kind == "anemo_peer_disconnects" {
            let hostile = net(28, 10);
            let _ = hostile.connect(s.local_addr()).await.expect("connect");
            let h2 = hostile.clone();
            let t = tokio::spawn(async move { let _ = h2.rpc(sid, Request::new(Bytes::from_static(b"slow-three"))).await; });
            tokio::time::sleep(Duration::from_millis(150)).await;
            let _ = hostile.disconnect(sid);
            tokio::time::sleep(Duration::from_millis(50)).await;
            t.abort();
            drop(hostile);
        } else {
            let (ep2, _p2) = raw_client(29, "verif");
            if let Ok(Ok(c2)) = tokio::time::timeout(Duration::from_secs(3), ep2.connect(s.local_addr(), "verif").expect("connect")).await {
                if let Ok(Ok(mut rx)) = tokio::time::timeout(Duration::from_secs(2), c2.accept_uni()).await { let mut b = [0u8; 8]; let _ = rx.read_exact(&mut b).await; }
                let mut held = Vec::new();
                if let Ok((mut tx, rx)) = c2.open_bi().await { let _ = tx.write_all(&encode_request("/slow", b"slow-four")).await; let _ = tx.finish(); held.push((tx, rx)); }
                let valid = encode_request("/x", b"hello");
                if let Ok((mut tx, rx)) = c2.open_bi().await { let _ = tx.write_all(&valid[..valid.len() / 2]).await; held.push((tx, rx)); }
                tokio::time::sleep(Duration::from_millis(150)).await;
                c2.close(3u32.into(), b"gone");
                ep2.close(3u32.into(), b"gone");
                drop(held);
            }
        }
        tokio::time::sleep(Duration::from_millis(400)).await;
        let (honest_ok, _) = probe(&honest, s.peer_id(), kind, 1500).await;
        let newcomer = net(30, 10);
        let can_connect = matches!(tokio::time::timeout(Duration::from_secs(3), newcomer.connect(s.local_addr())).await, Ok(Ok(_)));
        let _ = newcomer.disconnect(s.peer_id());
        rounds.push(json!({"how": kind, "server_closed": s.is_closed(), "honest_rpc_ok": honest_ok, "new_peer_can_connect": can_connect}));
    }
    json!({"rounds": rounds})
}
