//! C06 on real networks: a connected peer misbehaves on the raw QUIC connection underneath its anemo connection (hook
//! `quinn_connection`); after every misbehaviour a well-formed RPC on the SAME connection and one from another peer must succeed.
use anemo::verif_hooks as h;
use anemo::{Config, Request, Response};
use bytes::Bytes;
use serde_json::{json, Value};
use std::time::{Duration, Instant};

fn service(slow_ms: u64) -> tower::util::BoxCloneService<Request<Bytes>, Response<Bytes>, std::convert::Infallible> {
    tower::ServiceExt::boxed_clone(tower::service_fn(move |r: Request<Bytes>| async move {
        if r.body().starts_with(b"slow") {
            tokio::time::sleep(Duration::from_millis(slow_ms)).await;
        }
        Ok::<_, std::convert::Infallible>(Response::new(r.into_body()))
    }))
}
fn net(key: u8, slow_ms: u64) -> anemo::Network {
    let mut c = Config::default();
    c.connect_timeout_ms = Some(3000);
    anemo::Network::bind("127.0.0.1:0").server_name("verif").private_key([key; 32]).config(c).start(service(slow_ms)).expect("network")
}
async fn probe(from: &anemo::Network, to: anemo::PeerId, tag: &str, limit_ms: u64) -> (bool, u64) {
    let t0 = Instant::now();
    let body = Bytes::from(format!("probe-{tag}").into_bytes());
    let r = tokio::time::timeout(Duration::from_millis(limit_ms), from.rpc(to, Request::new(body.clone()))).await;
    (matches!(r, Ok(Ok(ref resp)) if resp.body() == &body), t0.elapsed().as_millis() as u64)
}

pub async fn hostile_streams(a: &Value) -> Value {
    let slow_ms = a.get("slow_ms").and_then(|x| x.as_u64()).unwrap_or(2000);
    let limit_ms = a.get("limit_ms").and_then(|x| x.as_u64()).unwrap_or(1000);
    let s = net(21, slow_ms);
    let honest = net(22, slow_ms);
    let hostile = net(23, slow_ms);
    let sid = hostile.connect(s.local_addr()).await.expect("connect");
    honest.connect(s.local_addr()).await.expect("connect");
    let conn = h::quinn_connection(&hostile.peer(sid).expect("peer"));
    let cfg = Config::default();
    let valid = h::write_request_bytes(&cfg, Request::new(Bytes::from_static(b"hello")).with_route("/x")).await.unwrap();
    let mut keep_send = Vec::new();
    let mut keep_recv = Vec::new();
    let mut steps = Vec::new();
    let names = ["one_byte_then_silence", "partial_version_frame", "garbage_then_finish", "huge_length_prefix", "valid_request_then_reset",
                 "valid_request_then_stop", "uni_stream_garbage", "datagram", "thirty_silent_streams", "slow_handler_in_flight"];
    let only: Option<Vec<String>> = a.get("only").and_then(|x| x.as_array()).map(|v| v.iter().filter_map(|s| s.as_str().map(|s| s.to_owned())).collect());
    let mut slow_task = None;
    for name in names {
        if let Some(o) = &only { if !o.iter().any(|n| n == name) { continue; } }
        let mut note = String::new();
        match name {
            "one_byte_then_silence" | "partial_version_frame" | "garbage_then_finish" | "huge_length_prefix" | "valid_request_then_reset" | "valid_request_then_stop" => {
                match conn.open_bi().await {
                    Ok((mut tx, mut rx)) => {
                        let payload: Vec<u8> = match name {
                            "one_byte_then_silence" => vec![b'a'],
                            "partial_version_frame" => b"ane".to_vec(),
                            "garbage_then_finish" => vec![0xff; 64],
                            "huge_length_prefix" => { let mut v = b"anemo\x00\x01\x00".to_vec(); v.extend_from_slice(&[0xff, 0xff, 0xff, 0xff, 1, 2, 3]); v }
                            _ => valid.clone(),
                        };
                        if let Err(e) = tx.write_all(&payload).await { note = format!("write: {e}"); }
                        match name {
                            "garbage_then_finish" => { let _ = tx.finish(); }
                            "valid_request_then_reset" => { let _ = tx.reset(7u32.into()); }
                            "valid_request_then_stop" => { let _ = tx.finish(); let _ = rx.stop(9u32.into()); }
                            _ => {}
                        }
                        keep_send.push(tx);
                        keep_recv.push(rx);
                    }
                    Err(e) => note = format!("open_bi: {e}"),
                }
            }
            "uni_stream_garbage" => {
                if let Ok(mut tx) = conn.open_uni().await { let _ = tx.write_all(&[0x42; 100]).await; let _ = tx.finish(); keep_send.push(tx); }
            }
            "datagram" => { if let Err(e) = conn.send_datagram(Bytes::from_static(b"datagram")) { note = format!("send_datagram: {e}"); } }
            "thirty_silent_streams" => {
                for _ in 0..30 {
                    if let Ok((mut tx, rx)) = conn.open_bi().await { let _ = tx.write_all(b"a").await; keep_send.push(tx); keep_recv.push(rx); }
                }
            }
            "slow_handler_in_flight" => {
                let hn = hostile.clone();
                slow_task = Some(tokio::spawn(async move { hn.rpc(sid, Request::new(Bytes::from_static(b"slow-one"))).await.map(|r| r.body().to_vec()) }));
                tokio::time::sleep(Duration::from_millis(100)).await;
                // a first quick request completes while the slow one is still being handled ...
                let _ = probe(&hostile, sid, "warmup", limit_ms).await;
            }
            _ => {}
        }
        tokio::time::sleep(Duration::from_millis(50)).await;
        // ... and the next well-formed request on the same connection must still be served promptly
        let (same_ok, same_ms) = probe(&hostile, sid, name, limit_ms).await;
        let (other_ok, other_ms) = probe(&honest, s.peer_id(), name, limit_ms).await;
        steps.push(json!({"misbehaviour": name, "same_connection_rpc_ok": same_ok, "same_connection_ms": same_ms, "other_peer_rpc_ok": other_ok, "other_peer_ms": other_ms, "note": note}));
    }
    let slow_ok = match slow_task { Some(t) => matches!(tokio::time::timeout(Duration::from_millis(slow_ms + 3000), t).await, Ok(Ok(Ok(ref b))) if b == b"slow-one"), None => true };
    let still = s.peers().contains(&hostile.peer_id()) && s.peers().contains(&honest.peer_id());
    let (final_ok, _) = probe(&honest, s.peer_id(), "final", limit_ms).await;
    drop(keep_send); drop(keep_recv);
    json!({"steps": steps, "slow_rpc_ok": slow_ok, "both_still_connected": still, "final_rpc_ok": final_ok, "limit_ms": limit_ms, "slow_ms": slow_ms})
}
