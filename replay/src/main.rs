//! verif-replay <scenario> '<json args>'  -> prints one JSON object with what the REAL code did.
use anemo::types::response::StatusCode;
use anemo::types::Version;
#[cfg(any(feature = "hooks-wire", feature = "hooks-cm", feature = "hooks-crypto", feature = "hooks-conn", feature = "hooks-timeout"))]
use anemo::verif_hooks as h;
use anemo::{Config, ConnectionOrigin, PeerId, Request, Response};
use bytes::Bytes;
use serde_json::{json, Value};
use std::collections::HashMap;
use std::time::Duration;
use tower::{Service, ServiceExt};

#[cfg(feature = "hooks-crypto")]
mod certs;
mod hostile;
mod routing;
mod codegen;
mod rawdial;

fn peer(v: &Value) -> PeerId {
    let mut b = [0u8; 32];
    for (i, x) in v.as_array().expect("32 bytes").iter().enumerate() {
        b[i] = x.as_u64().unwrap() as u8;
    }
    PeerId(b)
}
fn origin(v: &Value) -> ConnectionOrigin {
    match v.as_str().unwrap() {
        "inbound" => ConnectionOrigin::Inbound,
        "outbound" => ConnectionOrigin::Outbound,
        o => panic!("bad origin {o}"),
    }
}
fn config(v: &Value) -> Config {
    let mut c = Config::default();
    c.max_frame_size = v.get("max_frame_size").and_then(|x| x.as_u64()).map(|x| x as usize);
    c
}
fn bytes_of(v: &Value) -> Vec<u8> {
    if let Some(s) = v.as_str() {
        return hex::decode(s).expect("hex");
    }
    v.as_array().map(|a| a.iter().map(|x| x.as_u64().unwrap() as u8).collect()).unwrap_or_default()
}
fn headers(v: Option<&Value>) -> HashMap<String, String> {
    let mut m = HashMap::new();
    if let Some(Value::Object(o)) = v {
        for (k, x) in o {
            m.insert(k.clone(), x.as_str().unwrap().to_owned());
        }
    }
    m
}
fn body_of(a: &Value) -> Bytes {
    if let Some(n) = a.get("body_len").and_then(|x| x.as_u64()) {
        return Bytes::from(vec![0x5au8; n as usize]);
    }
    Bytes::from(a.get("body").map(bytes_of).unwrap_or_default())
}
fn request_of(a: &Value) -> Request<Bytes> {
    let mut r = Request::new(body_of(a));
    if let Some(route) = a.get("route").and_then(|x| x.as_str()) {
        *r.route_mut() = route.to_owned();
    }
    *r.headers_mut() = headers(a.get("headers"));
    if a.get("with_extension").and_then(|x| x.as_bool()).unwrap_or(false) {
        r.extensions_mut().insert(PeerId([7; 32]));
    }
    r
}
fn response_of(a: &Value) -> Response<Bytes> {
    let code = a.get("status").and_then(|x| x.as_u64()).unwrap_or(200) as u16;
    let mut r = Response::new(body_of(a)).with_status(StatusCode::new(code).expect("valid status"));
    *r.headers_mut() = headers(a.get("headers"));
    if a.get("with_extension").and_then(|x| x.as_bool()).unwrap_or(false) {
        r.extensions_mut().insert(PeerId([7; 32]));
    }
    r
}
fn hm(m: &HashMap<String, String>) -> Value {
    let mut o = serde_json::Map::new();
    let mut keys: Vec<_> = m.keys().cloned().collect();
    keys.sort();
    for k in keys {
        o.insert(k.clone(), Value::String(m[&k].clone()));
    }
    Value::Object(o)
}

#[cfg(feature = "hooks-timeout")]
async fn timeout_select(a: &Value) -> Value {
    // observe the deadline the real middleware selects: inner service never completes, virtual clock
    tokio::time::pause();
    let default = a.get("default_ns").and_then(|x| x.as_u64()).map(Duration::from_nanos);
    let mut req = Request::new(Bytes::new());
    if let Some(hv) = a.get("header").and_then(|x| x.as_str()) {
        req.headers_mut().insert("timeout".to_owned(), hv.to_owned());
    }
    let calls = std::sync::Arc::new(std::sync::atomic::AtomicUsize::new(0));
    let c2 = calls.clone();
    let inner = tower::service_fn(move |_r: Request<Bytes>| {
        c2.fetch_add(1, std::sync::atomic::Ordering::SeqCst);
        async move {
            futures::future::pending::<()>().await;
            Ok::<Response<Bytes>, anemo::Error>(Response::new(Bytes::new()))
        }
    });
    let guard = Duration::from_secs(3600 * 24 * 365 * 50);
    let start = tokio::time::Instant::now();
    let outcome = if a["direction"] == "inbound" {
        let mut svc = h::inbound_timeout(inner, default);
        match tokio::time::timeout(guard, svc.ready().await.unwrap().call(req)).await {
            Err(_) => json!("none"),
            Ok(Ok(resp)) => json!({"status": resp.status().to_u16()}),
            Ok(Err(e)) => json!({"error": e.to_string()}),
        }
    } else {
        let mut svc = h::outbound_timeout(inner, default);
        match tokio::time::timeout(guard, svc.ready().await.unwrap().call(req)).await {
            Err(_) => json!("none"),
            Ok(Ok(resp)) => json!({"status": resp.status().to_u16()}),
            Ok(Err(e)) => json!({"error": e.to_string()}),
        }
    };
    let elapsed = start.elapsed();
    json!({"outcome": outcome, "deadline_ns": if outcome == json!("none") { Value::Null } else { json!(elapsed.as_nanos() as u64) },
           "inner_calls": calls.load(std::sync::atomic::Ordering::SeqCst)})
}

async fn auth(a: &Value) -> Value {
    use anemo_tower::auth::{AllowedPeers, RequireAuthorizationLayer};
    let allowed: Vec<PeerId> = a["allowed"].as_array().unwrap().iter().map(peer).collect();
    let calls = std::sync::Arc::new(std::sync::atomic::AtomicUsize::new(0));
    let c2 = calls.clone();
    let inner = tower::service_fn(move |r: Request<Bytes>| {
        c2.fetch_add(1, std::sync::atomic::Ordering::SeqCst);
        async move { Ok::<Response<Bytes>, std::convert::Infallible>(Response::new(r.into_body())) }
    });
    let mut req = Request::new(Bytes::from_static(b"payload"));
    if let Some(s) = a.get("sender") {
        if !s.is_null() {
            req.extensions_mut().insert(peer(s));
        }
    }
    match a.get("direction").and_then(|x| x.as_str()) {
        Some("inbound") => { req.extensions_mut().insert(anemo::Direction::Inbound); }
        Some("outbound") => { req.extensions_mut().insert(anemo::Direction::Outbound); }
        _ => {}
    }
    // `custom`: an authorizer of the application's own whose verdict depends on the request body and whose refusal is a full response
    let resp = if a.get("custom").and_then(|x| x.as_bool()).unwrap_or(false) {
        let authorizer = |r: &mut Request<Bytes>| -> Result<(), Response<Bytes>> {
            if r.body().as_ref() == b"payload-ok" { Ok(()) } else {
                Err(Response::new(Bytes::from_static(b"refused because ...")).with_status(StatusCode::TooManyRequests).with_header("retry-after", "30").with_header("x-refused-by", "custom"))
            }
        };
        if a.get("accept").and_then(|x| x.as_bool()).unwrap_or(false) { *req.body_mut() = Bytes::from_static(b"payload-ok"); }
        let mut svc = tower::ServiceBuilder::new().layer(RequireAuthorizationLayer::new(authorizer)).service(inner);
        svc.ready().await.unwrap().call(req).await.unwrap()
    } else {
        let mut svc = tower::ServiceBuilder::new().layer(RequireAuthorizationLayer::new(AllowedPeers::new(allowed))).service(inner);
        svc.ready().await.unwrap().call(req).await.unwrap()
    };
    json!({"status": resp.status().to_u16(), "inner_calls": calls.load(std::sync::atomic::Ordering::SeqCst), "body": resp.body().to_vec(), "headers": hm(resp.headers())})
}

/// C20 on the real layer, more of the space: (a) allow-lists of 0..=24 peers given in ascending, descending and shuffled order (and with a
/// duplicate), every listed peer, two unlisted ones and a request without identity; (b) a wrapped service that is BUSY (capacity 1, first request
/// held): three requests through three clones of the layered service -- every accepted one must reach the wrapped service exactly once and get its
/// answer, every refused one the authorizer's answer.
async fn auth_sweep(_a: &Value) -> Value {
    use anemo_tower::auth::{AllowedPeers, RequireAuthorizationLayer};
    use std::sync::atomic::{AtomicUsize, Ordering};
    let id = |k: usize| { let mut b = [0u8; 32]; b[0] = (k * 37 % 251) as u8; b[1] = k as u8; b[31] = (255 - k) as u8; PeerId(b) };
    let mut bad = Vec::new();
    let mut cases = 0u32;
    for n in 0..=24usize {
        for order in 0..4 {
            let mut list: Vec<PeerId> = (0..n).map(id).collect();
            match order { 0 => list.sort(), 1 => { list.sort(); list.reverse(); } 2 => { let mut x = 12345u64 + n as u64; for i in (1..list.len()).rev() { x = x.wrapping_mul(6364136223846793005).wrapping_add(1442695040888963407); list.swap(i, (x >> 33) as usize % (i + 1)); } } _ => { if let Some(f) = list.first().copied() { list.push(f); } } }
            let calls = std::sync::Arc::new(AtomicUsize::new(0));
            let c2 = calls.clone();
            let inner = tower::service_fn(move |r: Request<Bytes>| { c2.fetch_add(1, Ordering::SeqCst); async move { Ok::<Response<Bytes>, std::convert::Infallible>(Response::new(r.into_body())) } });
            let svc = tower::ServiceBuilder::new().layer(RequireAuthorizationLayer::new(AllowedPeers::new(list.clone()))).service(inner);
            let mut senders: Vec<Option<PeerId>> = (0..n).map(|k| Some(id(k))).collect();
            senders.push(Some(id(100))); senders.push(Some(PeerId([0; 32]))); senders.push(None);
            for s in senders {
                let mut req = Request::new(Bytes::from_static(b"p"));
                if let Some(p) = s { req.extensions_mut().insert(p); }
                let before = calls.load(Ordering::SeqCst);
                let resp = svc.clone().oneshot(req).await.unwrap();
                let invoked = calls.load(Ordering::SeqCst) - before;
                let want = match s { None => (500u16, 0usize), Some(p) if list.contains(&p) => (200, 1), Some(_) => (404, 0) };
                cases += 1;
                if (resp.status().to_u16(), invoked) != want && bad.len() < 4 {
                    let order_name = ["ascending", "descending", "shuffled", "with a duplicate"][order];
                    bad.push(json!({"allow_list_size": list.len(), "order": order_name, "sender_listed": s.map(|p| list.contains(&p)), "sender_position": s.and_then(|p| list.iter().position(|x| *x == p)),
                                    "expected": {"status": want.0, "inner_calls": want.1}, "observed": {"status": resp.status().to_u16(), "inner_calls": invoked}}));
                }
            }
        }
    }
    // (b) busy wrapped service
    let (p, q) = (id(1), id(2));
    let calls = std::sync::Arc::new(AtomicUsize::new(0));
    let gate = std::sync::Arc::new(tokio::sync::Notify::new());
    let (c2, g2) = (calls.clone(), gate.clone());
    let handler = tower::service_fn(move |r: Request<Bytes>| { let (c, g) = (c2.clone(), g2.clone()); async move {
        let k = c.fetch_add(1, Ordering::SeqCst);
        if k == 0 { g.notified().await; }
        Ok::<Response<Bytes>, std::convert::Infallible>(Response::new(r.into_body()))
    } });
    let svc = tower::ServiceBuilder::new().layer(RequireAuthorizationLayer::new(AllowedPeers::new(vec![p]))).layer(tower::limit::ConcurrencyLimitLayer::new(1)).service(handler);
    let mk = |s: Option<PeerId>| { let mut r = Request::new(Bytes::from_static(b"p")); if let Some(x) = s { r.extensions_mut().insert(x); } r };
    let h1 = tokio::spawn(svc.clone().oneshot(mk(Some(p))));
    tokio::time::sleep(Duration::from_millis(50)).await;
    let h2 = tokio::spawn(svc.clone().oneshot(mk(Some(p))));
    let h3 = tokio::spawn(svc.clone().oneshot(mk(Some(q))));
    tokio::time::sleep(Duration::from_millis(100)).await;
    gate.notify_one();
    let mut statuses = Vec::new();
    for h in [h1, h2, h3] { statuses.push(match tokio::time::timeout(Duration::from_secs(3), h).await { Ok(Ok(Ok(r))) => Some(r.status().to_u16()), _ => None }); }
    let busy = json!({"statuses": statuses, "wrapped_service_invocations": calls.load(Ordering::SeqCst)});
    json!({"cases": cases, "bad": bad, "busy_wrapped_service": busy})
}

fn echo() -> tower::util::BoxCloneService<Request<Bytes>, Response<Bytes>, std::convert::Infallible> {
    tower::ServiceExt::boxed_clone(tower::service_fn(|r: Request<Bytes>| async move {
        Ok::<_, std::convert::Infallible>(Response::new(r.into_body()))
    }))
}
fn network(key: u8, limit: Option<usize>) -> anemo::Network {
    network_with(key, limit, 3000, false)
}
/// `stalling`: the node grants its peers no unidirectional stream, so a listener can never deliver its acknowledgement to it
fn network_with(key: u8, limit: Option<usize>, connect_timeout_ms: u64, stalling: bool) -> anemo::Network {
    let mut c = Config::default();
    c.max_concurrent_connections = limit;
    c.connect_timeout_ms = Some(connect_timeout_ms);
    if stalling {
        let mut quic = anemo::QuicConfig::default();
        quic.max_concurrent_uni_streams = Some(0);
        c.quic = Some(quic);
    }
    anemo::Network::bind("127.0.0.1:0").server_name("verif").private_key([key; 32]).config(c).start(echo()).expect("network")
}
/// C10 on real networks: node 0 has the limit; each step either lets a fresh peer dial node 0 ("in", optionally after giving it
/// an affinity in node 0's known-peer table) or lets node 0 dial a fresh peer explicitly ("out").
async fn admission(a: &Value) -> Value {
    use anemo::types::{PeerAffinity, PeerInfo};
    let limit = a.get("limit").and_then(|x| x.as_u64()).map(|x| x as usize);
    let cto = a.get("connect_timeout_ms").and_then(|x| x.as_u64()).unwrap_or(3000);
    let subject = match a.get("outstanding_cap").and_then(|x| x.as_u64()) {
        None => network_with(1, limit, cto, false),
        Some(cap) => {
            // a small cap on connections being established, and dials that hang (silent UDP sockets) until the connect timeout
            let mut c = Config::default();
            c.max_concurrent_connections = limit;
            c.connect_timeout_ms = Some(cto);
            c.max_concurrent_outstanding_connecting_connections = Some(cap as usize);
            c.connectivity_check_interval_ms = Some(200);
            anemo::Network::bind("127.0.0.1:0").server_name("verif").private_key([1; 32]).config(c).start(echo()).expect("network")
        }
    };
    let mut silent = Vec::new();
    for k in 0..a.get("hanging_explicit_dials").and_then(|x| x.as_u64()).unwrap_or(0) {
        let sock = std::net::UdpSocket::bind("127.0.0.1:0").expect("udp");
        let (addr, s2) = (sock.local_addr().unwrap(), subject.clone());
        silent.push(sock);
        tokio::spawn(async move { let _ = s2.connect(addr).await; let _ = k; });
    }
    if a.get("hanging_background_dial").and_then(|x| x.as_bool()).unwrap_or(false) {
        let sock = std::net::UdpSocket::bind("127.0.0.1:0").expect("udp");
        subject.known_peers().insert(PeerInfo { peer_id: PeerId([77; 32]), affinity: PeerAffinity::High, address: vec![sock.local_addr().unwrap().into()] });
        silent.push(sock);
    }
    if !silent.is_empty() { tokio::time::sleep(Duration::from_millis(500)).await; }
    let mut peers = Vec::new();
    let mut out = Vec::new();
    for (i, step) in a["steps"].as_array().unwrap().iter().enumerate() {
        let stalled = step["dir"] == "in_stalled";
        let peer = network_with(10 + i as u8, None, 3000, stalled);
        if let Some(aff) = step.get("affinity").and_then(|x| x.as_str()) {
            let affinity = match aff { "high" => PeerAffinity::High, "allowed" => PeerAffinity::Allowed, _ => PeerAffinity::Never };
            subject.known_peers().insert(PeerInfo { peer_id: peer.peer_id(), affinity, address: vec![] });
        }
        let before = subject.peers().len();
        let res = if step["dir"] == "in" || stalled {
            peer.connect_with_peer_id(subject.local_addr(), subject.peer_id()).await.map(|_| ())
        } else {
            subject.connect_with_peer_id(peer.local_addr(), peer.peer_id()).await.map(|_| ())
        };
        // let the listener side settle (registration happens right after the acknowledgement is delivered)
        let mut listed = false;
        for _ in 0..40 {
            listed = subject.peers().contains(&peer.peer_id());
            if listed == res.is_ok() { break; }
            tokio::time::sleep(Duration::from_millis(10)).await;
        }
        let rpc_ok = if listed { subject.rpc(peer.peer_id(), Request::new(Bytes::from_static(b"x"))).await.is_ok() } else { false };
        if stalled { tokio::time::sleep(Duration::from_millis(cto + 200)).await; }   // let the listener's own timeout expire too
        out.push(json!({"established_before": before, "connect_ok": res.is_ok(), "listed": listed, "rpc_ok": rpc_ok}));
        peers.push(peer);
    }
    json!({"steps": out})
}

/// C14 on real networks: which pairs of networks can connect, by network name (primary / alternate).
async fn network_names(_a: &Value) -> Value {
    fn net(key: u8, name: &str, alt: Option<&str>) -> anemo::Network {
        let mut c = Config::default();
        c.connect_timeout_ms = Some(1500);
        let b = anemo::Network::bind("127.0.0.1:0").server_name(name).private_key([key; 32]).config(c);
        let b = match alt { Some(a) => b.alternate_server_name(a), None => b };
        b.start(echo()).expect("network")
    }
    // (u1, u2: a name that differs from net-a in one punctuation character only -- another network)
    let nets = [("a1", net(31, "net-a", None)), ("a2", net(32, "net-a", None)), ("b1", net(33, "net-b", None)), ("ab", net(34, "net-a", Some("net-b"))), ("ba", net(35, "net-b", Some("net-a"))),
                ("u1", net(36, "net_a", None)), ("u2", net(37, "net_a", None))];
    let mut out = Vec::new();
    for (i, (ni, x)) in nets.iter().enumerate() {
        for (j, (nj, y)) in nets.iter().enumerate() {
            if i == j { continue; }
            // make sure the two are not connected from an earlier round
            let _ = x.disconnect(y.peer_id()); let _ = y.disconnect(x.peer_id());
            tokio::time::sleep(Duration::from_millis(30)).await;
            let r = x.connect_with_peer_id(y.local_addr(), y.peer_id()).await;
            tokio::time::sleep(Duration::from_millis(30)).await;
            let listed = x.peers().contains(&y.peer_id()) || y.peers().contains(&x.peer_id());
            let rpc = if r.is_ok() { x.rpc(y.peer_id(), Request::new(Bytes::from_static(b"n"))).await.is_ok() } else { false };
            out.push(json!({"dialer": ni, "listener": nj, "connect_ok": r.is_ok(), "either_lists_the_other": listed, "rpc_ok": rpc}));
            let _ = x.disconnect(y.peer_id()); let _ = y.disconnect(x.peer_id());
        }
    }
    json!({"pairs": out})
}

/// C11 wiring on real networks: are the configured inbound / outbound defaults in force for an RPC made through a network built in
/// the given builder-call order?  The handler sleeps `handler_ms`; returns how the RPC ended and after how long.
async fn default_timeouts(a: &Value) -> Value {
    let handler_ms = a["handler_ms"].as_u64().unwrap();
    let slow = tower::ServiceExt::boxed_clone(tower::service_fn(move |r: Request<Bytes>| async move {
        tokio::time::sleep(Duration::from_millis(handler_ms)).await;
        Ok::<_, std::convert::Infallible>(Response::new(r.into_body()))
    }));
    let mut server_cfg = Config::default();
    server_cfg.inbound_request_timeout_ms = a.get("server_inbound_ms").and_then(|x| x.as_u64());
    if let Some(n) = a.get("server_bidi_streams").and_then(|x| x.as_u64()) {
        let mut quic = anemo::QuicConfig::default();
        quic.max_concurrent_bidi_streams = Some(n);
        server_cfg.quic = Some(quic);
    }
    let server = anemo::Network::bind("127.0.0.1:0").server_name("verif").private_key([3; 32]).config(server_cfg).start(slow).expect("server");
    let mut client_cfg = Config::default();
    client_cfg.outbound_request_timeout_ms = a.get("client_outbound_ms").and_then(|x| x.as_u64());
    let b = anemo::Network::bind("127.0.0.1:0").server_name("verif").private_key([4; 32]);
    let id = tower::layer::util::Identity::new();
    let b = match a["order"].as_str().unwrap() {
        "layer_then_config" => b.outbound_request_layer(id).config(client_cfg),
        "config_then_layer" => b.config(client_cfg).outbound_request_layer(id),
        _ => b.config(client_cfg),
    };
    let client = b.start(echo()).expect("client");
    let peer = client.connect(server.local_addr()).await.expect("connect");
    let mut req = Request::new(Bytes::from_static(b"x"));
    if let Some(ms) = a.get("header_ms").and_then(|x| x.as_u64()) { req.set_timeout(Duration::from_millis(ms)); }
    // optionally keep the connection's stream credit busy with earlier calls to the same slow handler
    let mut earlier = Vec::new();
    for _ in 0..a.get("earlier_calls").and_then(|x| x.as_u64()).unwrap_or(0) {
        let c = client.clone();
        earlier.push(tokio::spawn(async move { let _ = c.rpc(peer, Request::new(Bytes::from_static(b"e"))).await; }));
    }
    if !earlier.is_empty() { tokio::time::sleep(Duration::from_millis(50)).await; }
    let t0 = std::time::Instant::now();
    let res = client.rpc(peer, req).await;
    let ms = t0.elapsed().as_millis() as u64;
    match res {
        Ok(r) => json!({"outcome": "response", "status": r.status().to_u16(), "elapsed_ms": ms}),
        Err(e) => json!({"outcome": "error", "error": e.to_string(), "elapsed_ms": ms}),
    }
}

/// C02 on real networks: `n` concurrent RPCs in both directions over ONE connection, each with its own body and its own handler delay;
/// optionally a response larger than the server's frame limit (a fault after the handler ran).  Reports per-call pairing and how many
/// times the handler ran for each request.
async fn rpc_pairing(a: &Value) -> Value {
    use std::sync::{Arc, Mutex};
    let n = a["n"].as_u64().unwrap_or(8) as usize;
    let big = a.get("oversized_response").and_then(|x| x.as_bool()).unwrap_or(false);
    let calls: Arc<Mutex<HashMap<Vec<u8>, u32>>> = Arc::new(Mutex::new(HashMap::new()));
    let mk = |calls: Arc<Mutex<HashMap<Vec<u8>, u32>>>, big: bool| tower::ServiceExt::boxed_clone(tower::service_fn(move |r: Request<Bytes>| {
        let calls = calls.clone();
        async move {
            let body = r.body().to_vec();
            *calls.lock().unwrap().entry(body.clone()).or_insert(0) += 1;
            let d = (body.get(1).copied().unwrap_or(0) as u64 * 7) % 40;      // handlers complete out of order
            tokio::time::sleep(Duration::from_millis(d)).await;
            let mut out = b"re:".to_vec(); out.extend_from_slice(&body);
            if big { out.resize(5000, 0x42); }
            Ok::<_, std::convert::Infallible>(Response::new(Bytes::from(out)).with_header("echo-route", r.route()))
        }
    }));
    let mut scfg = Config::default();
    if big { scfg.max_frame_size = Some(2000); }
    let server = anemo::Network::bind("127.0.0.1:0").server_name("verif").private_key([5; 32]).config(scfg).start(mk(calls.clone(), big)).expect("server");
    let client = anemo::Network::bind("127.0.0.1:0").server_name("verif").private_key([6; 32]).start(mk(calls.clone(), false)).expect("client");
    let sid = client.connect(server.local_addr()).await.expect("connect");
    let cid = client.peer_id();
    for _ in 0..200 { if server.peers().contains(&cid) { break; } tokio::time::sleep(Duration::from_millis(5)).await; }
    let mut hs = Vec::new();
    for i in 0..n {
        let (from, to, tag) = if i % 2 == 0 { (client.clone(), sid, b'c') } else { (server.clone(), cid, b's') };
        hs.push(tokio::spawn(async move {
            let body = vec![tag, i as u8, (i * 31) as u8];
            let req = Request::new(Bytes::from(body.clone())).with_route(format!("/r{i}"));
            let r = from.rpc(to, req).await;
            (body, i, r.map(|resp| (resp.status().to_u16(), resp.headers().get("echo-route").cloned(), resp.body().to_vec())).map_err(|e| e.to_string()))
        }));
    }
    let mut mismatched = Vec::new();
    let mut errors = 0;
    for h in hs {
        let (body, i, r) = h.await.unwrap();
        match r {
            Ok((status, route, rb)) => {
                let mut want = b"re:".to_vec(); want.extend_from_slice(&body);
                let ok = status == 200 && route.as_deref() == Some(format!("/r{i}").as_str()) && (rb == want || (big && rb.len() == 5000 && rb[..want.len()] == want[..]));
                if !ok { mismatched.push(i); }
            }
            Err(_) => errors += 1,
        }
    }
    tokio::time::sleep(Duration::from_millis(60)).await;
    let max_calls = calls.lock().unwrap().values().copied().max().unwrap_or(0);
    let handled = calls.lock().unwrap().len();
    json!({"n": n, "mismatched": mismatched, "errors": errors, "max_handler_invocations_per_request": max_calls, "requests_handled": handled})
}

/// C09 on real networks: the application code serving one request of one peer panics.  Whatever the library does about it (drop that connection,
/// shut the node down, carry on), afterwards the views must be mutual and every listed peer must be reachable by RPC, for every pair of nodes.
async fn panicking_handler(_a: &Value) -> Value {
    let svc = || tower::ServiceExt::boxed_clone(tower::service_fn(|r: Request<Bytes>| async move {
        if r.body().starts_with(b"boom") { panic!("application bug while serving a request"); }
        Ok::<_, std::convert::Infallible>(Response::new(r.into_body()))
    }));
    let node = |key: u8| {
        let mut c = Config::default();
        c.connect_timeout_ms = Some(3000);
        let mut quic = anemo::QuicConfig::default();
        quic.max_idle_timeout_ms = Some(1500);
        quic.keep_alive_interval_ms = Some(300);
        c.quic = Some(quic);
        anemo::Network::bind("127.0.0.1:0").server_name("verif").private_key([key; 32]).config(c).start(svc()).expect("network")
    };
    std::panic::set_hook(Box::new(|_| {}));
    let (a, b, c) = (node(91), node(92), node(93));
    let bid = a.connect(b.local_addr()).await.expect("a->b");
    let _ = c.connect(b.local_addr()).await.expect("c->b");
    let _ = a.connect(c.local_addr()).await.expect("a->c");
    tokio::time::sleep(Duration::from_millis(200)).await;
    let boom = tokio::time::timeout(Duration::from_secs(3), a.rpc(bid, Request::new(Bytes::from_static(b"boom")))).await;
    let boom_outcome = match boom { Err(_) => "no answer", Ok(Err(_)) => "error", Ok(Ok(_)) => "answered" };
    // longer than the idle timeout
    tokio::time::sleep(Duration::from_millis(2500)).await;
    let nodes = [("a", &a), ("b", &b), ("c", &c)];
    let mut views = Vec::new();
    for (xn, x) in nodes.iter() {
        for (yn, y) in nodes.iter() {
            if xn == yn { continue; }
            let x_lists_y = x.peers().contains(&y.peer_id());
            let y_lists_x = y.peers().contains(&x.peer_id());
            let reach = if x_lists_y { Some(matches!(tokio::time::timeout(Duration::from_secs(2), x.rpc(y.peer_id(), Request::new(Bytes::from_static(b"ping")))).await, Ok(Ok(_)))) } else { None };
            views.push(json!({"x": xn, "y": yn, "x_lists_y": x_lists_y, "y_lists_x": y_lists_x, "x_reaches_y_by_rpc": reach, "x_closed": x.is_closed(), "y_closed": y.is_closed()}));
        }
    }
    json!({"the_panicking_request": boom_outcome, "views": views})
}

/// C13 on real networks (timing, generous margins): a node whose connection manager is kept BUSY (another peer connects and disconnects about 20
/// times a second, so its event loop never sits idle for a whole check interval of 300 ms) learns a reachable High-affinity peer: it must dial it
/// within a few intervals; when that peer then drops the connection it must be redialed, still under the same traffic.  A quiet node is measured too.
async fn busy_node_still_dials(_a: &Value) -> Value {
    use anemo::types::{PeerAffinity, PeerInfo};
    let node = |key: u8| {
        let mut c = Config::default();
        c.connect_timeout_ms = Some(2000);
        c.connectivity_check_interval_ms = Some(300);
        anemo::Network::bind("127.0.0.1:0").server_name("verif").private_key([key; 32]).config(c).start(echo()).expect("network")
    };
    let mut out = Vec::new();
    for busy in [false, true] {
        let (n, h, t) = (node(101), node(102), node(103));
        let stop = std::sync::Arc::new(std::sync::atomic::AtomicBool::new(false));
        let traffic = if busy {
            let (t2, addr, nid, stop2) = (t.clone(), n.local_addr(), n.peer_id(), stop.clone());
            Some(tokio::spawn(async move {
                let mut k = 0u32;
                while !stop2.load(std::sync::atomic::Ordering::Relaxed) {
                    if tokio::time::timeout(Duration::from_millis(500), t2.connect(addr)).await.map(|r| r.is_ok()).unwrap_or(false) { k += 1; }
                    let _ = t2.disconnect(nid);
                    tokio::time::sleep(Duration::from_millis(40)).await;
                }
                k
            }))
        } else { None };
        tokio::time::sleep(Duration::from_millis(400)).await;
        let t0 = std::time::Instant::now();
        n.known_peers().insert(PeerInfo { peer_id: h.peer_id(), affinity: PeerAffinity::High, address: vec![h.local_addr().into()] });
        let mut first_ms = None;
        for _ in 0..400 { if n.peers().contains(&h.peer_id()) { first_ms = Some(t0.elapsed().as_millis() as u64); break; } tokio::time::sleep(Duration::from_millis(10)).await; }
        // the High peer drops the connection: it must be redialed
        let mut redial_ms = None;
        if first_ms.is_some() {
            for _ in 0..100 { if h.peers().contains(&n.peer_id()) { break; } tokio::time::sleep(Duration::from_millis(10)).await; }
            let _ = h.disconnect(n.peer_id());
            for _ in 0..200 { if !n.peers().contains(&h.peer_id()) { break; } tokio::time::sleep(Duration::from_millis(10)).await; }
            let t1 = std::time::Instant::now();
            for _ in 0..400 { if n.peers().contains(&h.peer_id()) { redial_ms = Some(t1.elapsed().as_millis() as u64); break; } tokio::time::sleep(Duration::from_millis(10)).await; }
        }
        stop.store(true, std::sync::atomic::Ordering::Relaxed);
        let connects = match traffic { Some(j) => tokio::time::timeout(Duration::from_secs(3), j).await.ok().and_then(|r| r.ok()), None => None };
        out.push(json!({"busy": busy, "interval_ms": 300, "dialed_after_ms": first_ms, "redialed_after_ms": redial_ms, "unrelated_connects_meanwhile": connects}));
    }
    json!({"runs": out})
}

/// C12 on real networks: RPCs abandoned by the caller at every point (future dropped before it is polled, while a 4 MB request is being sent, after
/// the remote handler started; by a timeout).  The remote handler -- a future holding a guard whose Drop is observed -- must be dropped promptly instead of
/// running to completion; 40 abandoned RPCs must not use up the listener's 4 concurrent streams; an RPC in flight meanwhile is not disturbed.
async fn abandoned_rpcs(_a: &Value) -> Value {
    use std::sync::{Arc, Mutex};
    #[derive(Default, Clone, Debug)] struct Rec { started: bool, dropped_unfinished_after_ms: Option<u64>, completed: bool }
    struct Guard { id: String, t0: std::time::Instant, recs: Arc<Mutex<HashMap<String, Rec>>>, done: bool }
    impl Drop for Guard { fn drop(&mut self) { let mut g = self.recs.lock().unwrap(); let r = g.entry(self.id.clone()).or_default(); if self.done { r.completed = true; } else { r.dropped_unfinished_after_ms = Some(self.t0.elapsed().as_millis() as u64); } } }
    let recs: Arc<Mutex<HashMap<String, Rec>>> = Arc::new(Mutex::new(HashMap::new()));
    let r2 = recs.clone();
    let svc = tower::ServiceExt::boxed_clone(tower::service_fn(move |r: Request<Bytes>| { let recs = r2.clone(); async move {
        let body = r.into_body();
        let text = String::from_utf8_lossy(&body[..body.len().min(40)]).into_owned();
        if let Some(rest) = text.strip_prefix("slow:") {
            let (id, ms) = { let mut it = rest.split(':'); (it.next().unwrap_or("").to_owned(), it.next().and_then(|x| x.trim_end_matches(char::from(0)).parse::<u64>().ok()).unwrap_or(5000)) };
            recs.lock().unwrap().entry(id.clone()).or_default().started = true;
            let mut g = Guard { id, t0: std::time::Instant::now(), recs: recs.clone(), done: false };
            tokio::time::sleep(Duration::from_millis(ms)).await;
            g.done = true;
        }
        Ok::<_, std::convert::Infallible>(Response::new(Bytes::from(text.into_bytes())))
    } }));
    let mut sc = Config::default();
    sc.connect_timeout_ms = Some(3000);
    let mut quic = anemo::QuicConfig::default();
    quic.max_concurrent_bidi_streams = Some(4);
    sc.quic = Some(quic);
    let server = anemo::Network::bind("127.0.0.1:0").server_name("verif").private_key([121; 32]).config(sc).start(svc).expect("server");
    let client = network(122, None);
    let sid = client.connect(server.local_addr()).await.expect("connect");
    let started = |id: &str| recs.lock().unwrap().get(id).map(|r| r.started).unwrap_or(false);
    let rec = |id: &str| recs.lock().unwrap().get(id).cloned().unwrap_or_default();
    let wait_started = |id: &'static str| { let recs = recs.clone(); async move { for _ in 0..200 { if recs.lock().unwrap().get(id).map(|r| r.started).unwrap_or(false) { return true; } tokio::time::sleep(Duration::from_millis(5)).await; } false } };
    let mut out = serde_json::Map::new();
    // (a) dropped after the remote handler started
    let (c2, h) = (client.clone(), ());
    let t = tokio::spawn(async move { let _ = h; c2.rpc(sid, Request::new(Bytes::from_static(b"slow:a:5000"))).await.is_ok() });
    let a_started = wait_started("a").await;
    t.abort();
    tokio::time::sleep(Duration::from_millis(1000)).await;
    out.insert("dropped_after_handler_started".into(), json!({"handler_started": a_started, "handler_dropped_unfinished_after_ms": rec("a").dropped_unfinished_after_ms, "handler_ran_to_completion": rec("a").completed}));
    // (b) abandoned by a timeout
    let r = tokio::time::timeout(Duration::from_millis(150), client.rpc(sid, Request::new(Bytes::from_static(b"slow:b:5000")))).await;
    tokio::time::sleep(Duration::from_millis(1000)).await;
    out.insert("timed_out".into(), json!({"caller_timed_out": r.is_err(), "handler_started": started("b"), "handler_dropped_unfinished_after_ms": rec("b").dropped_unfinished_after_ms, "handler_ran_to_completion": rec("b").completed}));
    // (c) dropped before it was ever polled
    { let f = client.rpc(sid, Request::new(Bytes::from_static(b"slow:c:5000"))); drop(f); }
    tokio::time::sleep(Duration::from_millis(200)).await;
    out.insert("dropped_before_polled".into(), json!({"handler_started": started("c")}));
    // (d) dropped while a 4 MB request is being transmitted
    let mut big = b"slow:d:5000".to_vec(); big.resize(4 << 20, 0);
    let c3 = client.clone();
    let t = tokio::spawn(async move { c3.rpc(sid, Request::new(Bytes::from(big))).await.is_ok() });
    tokio::time::sleep(Duration::from_millis(2)).await;
    t.abort();
    tokio::time::sleep(Duration::from_millis(1200)).await;
    out.insert("dropped_while_sending".into(), json!({"handler_started": started("d"), "handler_dropped_unfinished_after_ms": rec("d").dropped_unfinished_after_ms, "handler_ran_to_completion": rec("d").completed}));
    // (e) + (f): 40 abandoned RPCs against 4 concurrent streams, with one long RPC in flight the whole time
    let c4 = client.clone();
    let long = tokio::spawn(async move { let r = c4.rpc(sid, Request::new(Bytes::from_static(b"slow:long:1500"))).await; matches!(r, Ok(ref resp) if resp.body().starts_with(b"slow:long")) });
    tokio::time::sleep(Duration::from_millis(50)).await;
    let mut abandoned = 0u32;
    for k in 0..40u32 {
        let c5 = client.clone();
        let body = Bytes::from(format!("slow:e{k}:5000").into_bytes());
        let t = tokio::spawn(async move { c5.rpc(sid, Request::new(body)).await.is_ok() });
        tokio::time::sleep(Duration::from_millis(15)).await;
        t.abort(); abandoned += 1;
    }
    let t0 = std::time::Instant::now();
    let after = tokio::time::timeout(Duration::from_secs(3), client.rpc(sid, Request::new(Bytes::from_static(b"after")))).await;
    let after_ok = matches!(after, Ok(Ok(ref r)) if r.body().as_ref() == b"after");
    let after_ms = t0.elapsed().as_millis() as u64;
    let long_ok = tokio::time::timeout(Duration::from_secs(4), long).await.map(|r| r.unwrap_or(false)).unwrap_or(false);
    tokio::time::sleep(Duration::from_millis(300)).await;
    let (mut ran, mut still) = (0u32, 0u32);
    for k in 0..40u32 { let r = rec(&format!("e{k}")); if r.completed { ran += 1; } if r.started && r.dropped_unfinished_after_ms.is_none() && !r.completed { still += 1; } }
    // (g) abandoned while QUEUED: the listener's 4 streams are all held by parked RPCs, 1000 further RPCs are dropped after one poll (every 10th by a 1 ms
    // timeout) while they wait for a stream; then the parked ones finish and later RPCs must go through
    let mut parked = Vec::new();
    for k in 0..4u32 {
        let c6 = client.clone();
        let body = Bytes::from(format!("slow:park{k}:1200").into_bytes());
        parked.push(tokio::spawn(async move { let r = c6.rpc(sid, Request::new(body)).await; matches!(r, Ok(ref resp) if resp.body().starts_with(b"slow:park")) }));
    }
    for _ in 0..200 { if (0..4).all(|k| started(&format!("park{k}"))) { break; } tokio::time::sleep(Duration::from_millis(5)).await; }
    let all_parked = (0..4).all(|k| started(&format!("park{k}")));
    let mut queued_then_dropped = 0u32;
    for k in 0..1000u32 {
        let mut f = Box::pin(client.rpc(sid, Request::new(Bytes::from_static(b"queued"))));
        if k % 10 == 9 { let _ = tokio::time::timeout(Duration::from_millis(1), &mut f).await; }
        else { let _ = futures::poll!(&mut f); }
        drop(f); queued_then_dropped += 1;
    }
    let mut parked_ok = 0u32;
    for p in parked { if tokio::time::timeout(Duration::from_secs(4), p).await.map(|r| r.unwrap_or(false)).unwrap_or(false) { parked_ok += 1; } }
    let mut later_ok = 0u32;
    for _ in 0..4 { if matches!(tokio::time::timeout(Duration::from_secs(2), client.rpc(sid, Request::new(Bytes::from_static(b"later")))).await, Ok(Ok(ref r)) if r.body().as_ref() == b"later") { later_ok += 1; } }
    out.insert("abandoned_while_queued".into(), json!({"listener_streams_all_held": all_parked, "abandoned_while_waiting_for_a_stream": queued_then_dropped, "parked_rpcs_completed": parked_ok, "later_rpcs_ok_of_4": later_ok, "still_connected": client.peers().contains(&sid)}));
    out.insert("many_abandoned".into(), json!({"abandoned": abandoned, "listener_concurrent_streams": 4, "later_rpc_ok": after_ok, "later_rpc_ms": after_ms, "handlers_that_ran_to_completion": ran, "handlers_still_running_300ms_later": still, "rpc_in_flight_meanwhile_ok": long_ok}));
    Value::Object(out)
}

/// C08 on real networks: a node with work in flight of every kind (a slow inbound request being served, a slow outbound RPC waiting, a dial hanging on a
/// silent socket, a background dial to a dead High-affinity peer, a subscriber, a weak reference, two connected peers) is shut down -- explicitly, or by
/// dropping its last handle.  `variant`: "explicit" | "drop".
async fn shutdown_scenario(a: &Value) -> Value {
    use anemo::types::{PeerAffinity, PeerEvent, PeerInfo};
    use std::sync::Arc;
    let explicit = a.get("variant").and_then(|x| x.as_str()) != Some("drop");
    struct Token;                                   // one clone of the user's service = one clone of this Arc
    let token = Arc::new(Token);
    let t2 = token.clone();
    let svc = tower::ServiceExt::boxed_clone(tower::service_fn(move |r: Request<Bytes>| { let _held = t2.clone(); async move {
        if r.body().starts_with(b"slow") { tokio::time::sleep(Duration::from_millis(8000)).await; }
        if r.body().starts_with(b"busy") { std::thread::sleep(Duration::from_millis(1200)); }      // a stretch of work that does not yield
        let _ = &_held;
        Ok::<_, std::convert::Infallible>(Response::new(r.into_body()))
    } }));
    let mut c = Config::default();
    c.connect_timeout_ms = Some(6000);
    c.shutdown_idle_timeout_ms = Some(1000);
    c.connectivity_check_interval_ms = Some(200);
    let subject = anemo::Network::bind("127.0.0.1:0").server_name("verif").private_key([131; 32]).config(c).start(svc).expect("subject");
    let address = subject.local_addr();
    let slow_echo = tower::ServiceExt::boxed_clone(tower::service_fn(|r: Request<Bytes>| async move { if r.body().starts_with(b"slow") { tokio::time::sleep(Duration::from_millis(8000)).await; } Ok::<_, std::convert::Infallible>(Response::new(r.into_body())) }));
    let peer = |key: u8, s: tower::util::BoxCloneService<Request<Bytes>, Response<Bytes>, std::convert::Infallible>| { let mut c = Config::default(); c.connect_timeout_ms = Some(3000); let mut q = anemo::QuicConfig::default(); q.max_idle_timeout_ms = Some(3000); c.quic = Some(q);
        anemo::Network::bind("127.0.0.1:0").server_name("verif").private_key([key; 32]).config(c).start(s).expect("peer") };
    let (p1, p2) = (peer(132, slow_echo.clone()), peer(133, slow_echo));
    let id1 = subject.connect(p1.local_addr()).await.expect("connect p1");
    let _ = p2.connect(subject.local_addr()).await.expect("p2 connects");
    for _ in 0..100 { if subject.peers().len() == 2 { break; } tokio::time::sleep(Duration::from_millis(10)).await; }
    let (mut rx, snapshot) = subject.subscribe().expect("subscribe");
    let weak = subject.downgrade();
    // work in flight
    let silent = std::net::UdpSocket::bind("127.0.0.1:0").expect("udp");
    let dead = std::net::UdpSocket::bind("127.0.0.1:0").expect("udp");
    subject.known_peers().insert(PeerInfo { peer_id: PeerId([99; 32]), affinity: PeerAffinity::High, address: vec![dead.local_addr().unwrap().into()] });
    let (s1, s2, s3) = (subject.clone(), subject.clone(), p2.clone());
    let sid = subject.peer_id();
    let (silent_addr, p1id) = (silent.local_addr().unwrap(), id1);
    // (calls pending ON the node hold a handle of it: only in the explicit variant, where the handle outlives the shutdown anyway)
    let pending_dial = tokio::spawn(async move { if !explicit { drop(s1); return "not made"; } let r = tokio::time::timeout(Duration::from_secs(7), s1.connect(silent_addr)).await; drop(s1); match r { Err(_) => "hung", Ok(Err(_)) => "error", Ok(Ok(_)) => "ok" } });
    let pending_out = tokio::spawn(async move { if !explicit { drop(s2); return "not made"; } let r = tokio::time::timeout(Duration::from_secs(7), s2.rpc(p1id, Request::new(Bytes::from_static(b"slow-out")))).await; drop(s2); match r { Err(_) => "hung", Ok(Err(_)) => "error", Ok(Ok(_)) => "ok" } });
    let (s4, sid2) = (p1.clone(), subject.peer_id());
    let busy_in = tokio::spawn(async move { tokio::time::sleep(Duration::from_millis(330)).await; let r = tokio::time::timeout(Duration::from_secs(7), s4.rpc(sid2, Request::new(Bytes::from_static(b"busy-in")))).await; match r { Err(_) => "hung", Ok(Err(_)) => "error", Ok(Ok(_)) => "ok" } });
    let pending_in = tokio::spawn(async move { let r = tokio::time::timeout(Duration::from_secs(7), s3.rpc(sid, Request::new(Bytes::from_static(b"slow-in")))).await; match r { Err(_) => "hung", Ok(Err(_)) => "error", Ok(Ok(_)) => "ok" } });
    tokio::time::sleep(Duration::from_millis(400)).await;
    let clones_before = Arc::strong_count(&token);
    let mut clones_at_return: Option<usize> = None;
    let t0 = std::time::Instant::now();
    let (shutdown_result, after_network): (Option<bool>, Option<anemo::Network>) = if explicit {
        let r = tokio::time::timeout(Duration::from_secs(6), subject.shutdown()).await;
        clones_at_return = Some(Arc::strong_count(&token));
        (Some(matches!(r, Ok(Ok(())))), Some(subject))
    } else { drop(subject); (None, None) };
    // the three pending calls hold clones of the handle: in the "drop" variant the network goes away when they are done with it
    let pend = (tokio::time::timeout(Duration::from_secs(8), pending_dial).await.ok().and_then(|r| r.ok()), tokio::time::timeout(Duration::from_secs(8), pending_out).await.ok().and_then(|r| r.ok()), tokio::time::timeout(Duration::from_secs(8), pending_in).await.ok().and_then(|r| r.ok()));
    let down_ms = t0.elapsed().as_millis() as u64;
    // what the subscriber sees: the pending LostPeer events, then end of stream
    let mut events = Vec::new();
    let mut stream_ended = false;
    for _ in 0..8 {
        match tokio::time::timeout(Duration::from_millis(3000), rx.recv()).await {
            Ok(Ok(e)) => events.push(ev(&e)),
            Ok(Err(tokio::sync::broadcast::error::RecvError::Closed)) => { stream_ended = true; break; }
            Ok(Err(_)) => {}
            Err(_) => break,
        }
    }
    let mut rebind_ms = None;
    for k in 0..300 { if std::net::UdpSocket::bind(address).is_ok() { rebind_ms = Some(k * 10); break; } tokio::time::sleep(Duration::from_millis(10)).await; }
    let mut clones_after = Arc::strong_count(&token);
    for _ in 0..300 { clones_after = Arc::strong_count(&token); if clones_after == 1 { break; } tokio::time::sleep(Duration::from_millis(10)).await; }
    let mut remote_saw = [false, false];
    for _ in 0..400 { remote_saw = [!p1.peers().contains(&sid), !p2.peers().contains(&sid)]; if remote_saw[0] && remote_saw[1] { break; } tokio::time::sleep(Duration::from_millis(10)).await; }
    let mut after = serde_json::Map::new();
    if let Some(n) = after_network.as_ref() {
        let t = |d: u64| Duration::from_millis(d);
        after.insert("is_closed".into(), json!(n.is_closed()));
        after.insert("peers".into(), json!(n.peers().len()));
        after.insert("connect".into(), json!(match tokio::time::timeout(t(2000), n.connect(p1.local_addr())).await { Err(_) => "hung", Ok(Err(_)) => "error", Ok(Ok(_)) => "ok" }));
        after.insert("rpc".into(), json!(match tokio::time::timeout(t(2000), n.rpc(id1, Request::new(Bytes::from_static(b"x")))).await { Err(_) => "hung", Ok(Err(_)) => "error", Ok(Ok(_)) => "ok" }));
        after.insert("shutdown_again".into(), json!(match tokio::time::timeout(t(2000), n.shutdown()).await { Err(_) => "hung", Ok(Err(_)) => "error", Ok(Ok(_)) => "ok" }));
        after.insert("disconnect".into(), json!(if n.disconnect(id1).is_err() { "error" } else { "ok" }));
    }
    let weak_upgrades = weak.upgrade().is_some();
    json!({"variant": if explicit { "explicit" } else { "drop" }, "shutdown_ok": shutdown_result, "down_after_ms": down_ms, "pending_dial": pend.0, "pending_outbound_rpc": pend.1, "pending_inbound_rpc_seen_by_remote": pend.2,
           "subscriber": {"snapshot": snapshot.len(), "events": events, "stream_ended": stream_ended}, "rebind_after_ms": rebind_ms, "service_clones_before": clones_before, "service_clones_when_shutdown_returned": clones_at_return, "service_clones_after": clones_after, "busy_inbound_rpc_seen_by_remote": tokio::time::timeout(Duration::from_secs(8), busy_in).await.ok().and_then(|r| r.ok()),
           "remote_peers_saw_disconnect": remote_saw, "weak_reference_upgrades": weak_upgrades, "calls_after_shutdown": after})
}

/// C04 / C06: the user's service exerts back-pressure (capacity 1, tower::limit::ConcurrencyLimit) and is saturated by one peer's slow request; another
/// peer sends a request and then disconnects.  Its connection's end must be noticed all the same: delisted and LostPeer within 2 s (the slow request
/// takes 4 s); a third peer can connect meanwhile.
async fn backpressure_service(_a: &Value) -> Value {
    use anemo::types::PeerEvent;
    let slow = tower::service_fn(|r: Request<Bytes>| async move { if r.body().starts_with(b"slow") { tokio::time::sleep(Duration::from_millis(4000)).await; } Ok::<_, std::convert::Infallible>(Response::new(r.into_body())) });
    let limited = tower::ServiceExt::boxed_clone(tower::limit::ConcurrencyLimit::new(slow, 1));
    let mut c = Config::default();
    c.connect_timeout_ms = Some(3000);
    let a = anemo::Network::bind("127.0.0.1:0").server_name("verif").private_key([151; 32]).config(c).start(limited).expect("a");
    let (b, cpeer, d) = (network(152, None), network(153, None), network(154, None));
    let aid = b.connect(a.local_addr()).await.expect("b connects");
    let _ = cpeer.connect(a.local_addr()).await.expect("c connects");
    for _ in 0..100 { if a.peers().len() == 2 { break; } tokio::time::sleep(Duration::from_millis(10)).await; }
    let (mut rx, _snap) = a.subscribe().expect("subscribe");
    let b2 = b.clone();
    let holder = tokio::spawn(async move { b2.rpc(aid, Request::new(Bytes::from_static(b"slow-holder"))).await.is_ok() });
    tokio::time::sleep(Duration::from_millis(200)).await;
    let c2 = cpeer.clone();
    let queued = tokio::spawn(async move { let _ = c2.rpc(aid, Request::new(Bytes::from_static(b"queued"))).await; });
    tokio::time::sleep(Duration::from_millis(200)).await;
    let cid = cpeer.peer_id();
    let t0 = std::time::Instant::now();
    let _ = cpeer.disconnect(aid);
    queued.abort();
    let (mut delisted_ms, mut lost_event_ms) = (None, None);
    for _ in 0..300 {
        if delisted_ms.is_none() && !a.peers().contains(&cid) { delisted_ms = Some(t0.elapsed().as_millis() as u64); }
        while let Ok(e) = rx.try_recv() { if matches!(e, PeerEvent::LostPeer(p, _) if p == cid) && lost_event_ms.is_none() { lost_event_ms = Some(t0.elapsed().as_millis() as u64); } }
        if delisted_ms.is_some() && lost_event_ms.is_some() { break; }
        tokio::time::sleep(Duration::from_millis(10)).await;
    }
    let t1 = std::time::Instant::now();
    let newcomer = matches!(tokio::time::timeout(Duration::from_millis(2000), d.connect(a.local_addr())).await, Ok(Ok(_)));
    let newcomer_ms = t1.elapsed().as_millis() as u64;
    let holder_ok = tokio::time::timeout(Duration::from_secs(6), holder).await.map(|r| r.unwrap_or(false)).unwrap_or(false);
    json!({"slow_request_ms": 4000, "disconnected_peer_delisted_after_ms": delisted_ms, "lost_peer_event_after_ms": lost_event_ms, "newcomer_connected": newcomer, "newcomer_ms": newcomer_ms, "slow_request_answered": holder_ok})
}

/// C09: a connected peer goes SILENT (its whole runtime stops being polled: no close frame, no acknowledgement -- what a partition looks like).  The node has
/// an idle timeout of 1.5 s (keep-alive 0.5 s): whatever way the connection was made (dial by address, dial naming the identity, background dial of a
/// High-affinity known peer, dialed by the peer), the peer must be delisted and a LostPeer event delivered within 4 s.
fn silent_peer_loss() -> Value {
    use anemo::types::{PeerAffinity, PeerEvent, PeerInfo};
    let mut out = Vec::new();
    for how in ["dial_by_address", "dial_naming_the_identity", "background_dial", "dialed_by_the_peer"] {
        let (info_tx, info_rx) = std::sync::mpsc::channel::<(std::net::SocketAddr, PeerId)>();
        let (dial_tx, dial_rx) = std::sync::mpsc::channel::<std::net::SocketAddr>();
        let freeze = std::sync::Arc::new(std::sync::atomic::AtomicBool::new(false));
        let done = std::sync::Arc::new(std::sync::atomic::AtomicBool::new(false));
        let (f2, d2) = (freeze.clone(), done.clone());
        let remote = std::thread::spawn(move || {
            let rt = tokio::runtime::Builder::new_current_thread().enable_all().build().unwrap();
            let net = rt.block_on(async {
                let n = network(161, None);
                let _ = info_tx.send((n.local_addr(), n.peer_id()));
                loop {
                    if let Ok(addr) = dial_rx.try_recv() { let _ = n.connect(addr).await; }
                    if f2.load(std::sync::atomic::Ordering::SeqCst) { break; }
                    tokio::time::sleep(Duration::from_millis(10)).await;
                }
                n
            });
            // nothing polls this runtime any more: the peer is silent, its sockets stay open
            for _ in 0..140 { if d2.load(std::sync::atomic::Ordering::SeqCst) { break; } std::thread::sleep(Duration::from_millis(50)); }
            drop(net); drop(rt);
        });
        let rt = tokio::runtime::Builder::new_multi_thread().worker_threads(2).enable_all().build().unwrap();
        let r = rt.block_on(async {
            let (raddr, rid) = match info_rx.recv_timeout(Duration::from_secs(5)) { Ok(x) => x, Err(_) => return json!({"how": how, "setup_failed": true}) };
            let mut c = Config::default();
            c.connect_timeout_ms = Some(3000);
            c.connectivity_check_interval_ms = Some(200);
            let mut q = anemo::QuicConfig::default();
            q.max_idle_timeout_ms = Some(1500);
            q.keep_alive_interval_ms = Some(500);
            c.quic = Some(q);
            let subject = anemo::Network::bind("127.0.0.1:0").server_name("verif").private_key([162; 32]).config(c).start(echo()).expect("subject");
            let (mut rx, _s) = subject.subscribe().expect("subscribe");
            match how {
                "dial_by_address" => { let _ = subject.connect(raddr).await; }
                "dial_naming_the_identity" => { let _ = subject.connect_with_peer_id(raddr, rid).await; }
                "background_dial" => { subject.known_peers().insert(PeerInfo { peer_id: rid, affinity: PeerAffinity::High, address: vec![raddr.into()] }); }
                _ => { let _ = dial_tx.send(subject.local_addr()); }
            }
            let mut connected = false;
            for _ in 0..300 { if subject.peers().contains(&rid) { connected = true; break; } tokio::time::sleep(Duration::from_millis(10)).await; }
            tokio::time::sleep(Duration::from_millis(300)).await;
            freeze.store(true, std::sync::atomic::Ordering::SeqCst);
            tokio::time::sleep(Duration::from_millis(50)).await;
            let t0 = std::time::Instant::now();
            let (mut delisted_ms, mut lost_ms) = (None, None);
            for _ in 0..550 {
                if delisted_ms.is_none() && !subject.peers().contains(&rid) { delisted_ms = Some(t0.elapsed().as_millis() as u64); }
                while let Ok(e) = rx.try_recv() { if matches!(e, PeerEvent::LostPeer(p, _) if p == rid) && lost_ms.is_none() { lost_ms = Some(t0.elapsed().as_millis() as u64); } }
                if delisted_ms.is_some() && lost_ms.is_some() { break; }
                tokio::time::sleep(Duration::from_millis(10)).await;
            }
            // (a High-affinity peer is redialed at once: the listing may show it again; what counts is the report of the loss)
            json!({"how": how, "connected_first": connected, "idle_timeout_ms": 1500, "delisted_after_ms": delisted_ms, "lost_peer_event_after_ms": lost_ms})
        });
        done.store(true, std::sync::atomic::Ordering::SeqCst);
        rt.shutdown_timeout(Duration::from_millis(500));
        let _ = remote.join();
        out.push(r);
    }
    json!({"cases": out})
}

fn fnv(b: &[u8]) -> u64 { let mut h: u64 = 0xcbf29ce484222325; for x in b { h ^= *x as u64; h = h.wrapping_mul(0x100000001b3); } h }
/// C02 end to end on real networks that have BOTH default timeouts configured (so both timeout middlewares are in the path): requests with
/// header maps of 0..300 entries (a `timeout` header longer and shorter than the defaults, mixed-case names, empty and long values) and bodies of
/// 0..300000 bytes; the handler reports exactly what it received and answers with a status and a header map of the requested size.  The caller
/// compares what the handler saw with what it sent, and what it got back with what the handler produced.
async fn end_to_end_fidelity(_a: &Value) -> Value {
    let svc = || tower::ServiceExt::boxed_clone(tower::service_fn(|r: Request<Bytes>| async move {
        let mut seen: Vec<(String, String)> = r.headers().iter().map(|(k, v)| (k.clone(), v.clone())).collect();
        seen.sort();
        let report = json!({"route": r.route(), "headers": seen, "body_len": r.body().len(), "body_fnv": fnv(r.body())});
        let status: u16 = r.headers().get("x-status").and_then(|s| s.parse().ok()).unwrap_or(200);
        let n: usize = r.headers().get("x-resp-headers").and_then(|s| s.parse().ok()).unwrap_or(0);
        // the answer: the report, a newline, and as many pattern bytes as the caller asked for
        let pad: usize = r.headers().get("x-resp-pad").and_then(|s| s.parse().ok()).unwrap_or(0);
        let mut out = serde_json::to_vec(&report).unwrap();
        out.push(b'\n');
        out.extend((0..pad).map(|k| (k * 7 + 3) as u8));
        let mut resp = Response::new(Bytes::from(out)).with_status(anemo::types::response::StatusCode::new(status).unwrap());
        for i in 0..n { resp = resp.with_header(format!("H-{i}"), format!("v{i}")); }
        Ok::<_, std::convert::Infallible>(resp)
    }));
    let node = |key: u8| {
        let mut c = Config::default();
        c.connect_timeout_ms = Some(3000);
        c.outbound_request_timeout_ms = Some(10_000);
        c.inbound_request_timeout_ms = Some(20_000);
        anemo::Network::bind("127.0.0.1:0").server_name("verif").private_key([key; 32]).config(c).start(svc()).expect("network")
    };
    let (x, y) = (node(81), node(82));
    let yid = x.connect(y.local_addr()).await.expect("connect");
    let xid = x.peer_id();
    for _ in 0..200 { if y.peers().contains(&xid) { break; } tokio::time::sleep(Duration::from_millis(5)).await; }
    let mut cases: Vec<(usize, usize, Option<&str>, u16, usize)> = Vec::new();      // (request headers, body bytes, timeout header, status, response headers); a body of 2 MB or more also asks for a 3 MB answer
    for nh in [0usize, 1, 8, 64, 65, 100, 300] { cases.push((nh, 10, None, 200, 0)); cases.push((3, 10, None, 200, nh)); }
    for bl in [0usize, 1, 65_535, 65_536, 65_537, 300_000, 1_048_576, 1_048_577, 2_000_000] { cases.push((2, bl, None, 200, 2)); }
    for t in ["60000000000", "1000000000", "10000000000", "0", "soon", "18446744073709551615"] { cases.push((2, 10, Some(t), 200, 1)); }
    for st in [400u16, 404, 408, 429, 500, 505, 520] { cases.push((2, 10, None, st, 70)); }
    let mut bad = Vec::new();
    let mut done = 0u32;
    for (i, (nh, bl, timeout, status, rh)) in cases.iter().enumerate() {
        for dir in 0..2 {
            let (from, to) = if dir == 0 { (&x, yid) } else { (&y, xid) };
            let body: Vec<u8> = (0..*bl).map(|k| (k * 31 + i) as u8).collect();
            let pad: usize = if *bl >= 1_048_576 { 3_000_000 } else if *bl == 300_000 { 1_048_577 } else { 0 };
            let mut req = Request::new(Bytes::from(body.clone())).with_route(format!("/case/{i}")).with_header("x-status", status.to_string()).with_header("x-resp-headers", rh.to_string()).with_header("x-resp-pad", pad.to_string());
            for k in 0..*nh { req = req.with_header(match k % 4 { 0 => format!("Key-{k}"), 1 => format!("key-{k}"), 2 => format!("KEY_{k}"), _ => format!("k.{k}") }, if k % 5 == 0 { String::new() } else if k == 7 { "x".repeat(5000) } else { format!("value {k}") }); }
            if let Some(t) = timeout { req = req.with_header("timeout", t.to_string()); }
            if *timeout == Some("0") || *timeout == Some("soon") { continue; }    // (an immediate or unparsable deadline is C11's business: the call may legitimately fail)
            let mut sent: Vec<(String, String)> = req.headers().iter().map(|(k, v)| (k.clone(), v.clone())).collect();
            sent.sort();
            let r = tokio::time::timeout(Duration::from_secs(8), from.rpc(to, req)).await;
            done += 1;
            let why = match r {
                Err(_) => Some("no answer within 8 s".to_owned()),
                Ok(Err(e)) => Some(format!("error: {e}")),
                Ok(Ok(resp)) => {
                    let split = resp.body().iter().position(|b| *b == b'\n').unwrap_or(resp.body().len());
                    let rep: Value = serde_json::from_slice(&resp.body()[..split]).unwrap_or(Value::Null);
                    let tail = &resp.body()[(split + 1).min(resp.body().len())..];
                    let tail_ok = tail.len() == pad && tail.iter().enumerate().all(|(k, b)| *b == (k * 7 + 3) as u8);
                    let seen: Vec<(String, String)> = rep["headers"].as_array().map(|v| v.iter().map(|p| (p[0].as_str().unwrap_or("").to_owned(), p[1].as_str().unwrap_or("").to_owned())).collect()).unwrap_or_default();
                    let mut got_h: Vec<(String, String)> = resp.headers().iter().map(|(k, v)| (k.clone(), v.clone())).collect();
                    got_h.sort();
                    let mut want_h: Vec<(String, String)> = (0..*rh).map(|k| (format!("H-{k}"), format!("v{k}"))).collect();
                    want_h.sort();
                    if resp.status().to_u16() != *status { Some(format!("status {} instead of {}", resp.status().to_u16(), status)) }
                    else if rep["route"].as_str() != Some(format!("/case/{i}").as_str()) { Some("the handler saw another route".to_owned()) }
                    else if seen != sent { Some(format!("the handler saw {} request headers, {} were sent; first difference: {:?}", seen.len(), sent.len(), seen.iter().zip(sent.iter()).find(|(a, b)| a != b).map(|(a, b)| (a.0.clone(), a.1.chars().take(40).collect::<String>(), b.0.clone(), b.1.chars().take(40).collect::<String>())))) }
                    else if rep["body_len"].as_u64() != Some(*bl as u64) || rep["body_fnv"].as_u64() != Some(fnv(&body)) { Some("the handler saw another body".to_owned()) }
                    else if !tail_ok { Some(format!("the caller received {} bytes of response body after the report, the handler produced {}", tail.len(), pad)) }
                    else if got_h != want_h { Some(format!("the caller received {} response headers, the handler produced {}", got_h.len(), want_h.len())) }
                    else { None }
                }
            };
            if let Some(w) = why { if bad.len() < 4 { bad.push(json!({"case": {"request_headers": nh, "body_bytes": bl, "response_body_bytes_after_report": pad, "timeout_header": timeout, "status": status, "response_headers": rh, "direction": if dir == 0 { "dialer to listener" } else { "listener to dialer" }}, "why": w})); } }
        }
    }
    json!({"calls": done, "bad": bad})
}

/// C06 / C07 on the real decoders: a bounded exhaustive sweep of byte strings offered to read_request / read_response
/// (every header frame of length 0..=5 over a 4-letter alphabet, with and without a body frame; every truncation and every
/// single-byte corruption of two valid messages; huge length prefixes).  No input may panic; Ok only where the layout allows it.
#[cfg(feature = "hooks-wire")]
async fn decode_sweep(_a: &Value) -> Value {
    use futures::FutureExt;
    let cfg = Config::default();
    let pre: Vec<u8> = b"anemo\x00\x01\x00".to_vec();
    let mut inputs: Vec<Vec<u8>> = Vec::new();
    let alpha = [0u8, 1, 0x7f, 0xff];
    for n in 0..=5usize {
        let total = 4usize.pow(n as u32);
        for code in 0..total {
            let mut payload = Vec::new();
            let mut c = code;
            for _ in 0..n { payload.push(alpha[c % 4]); c /= 4; }
            let mut m = pre.clone();
            m.extend_from_slice(&(n as u32).to_be_bytes());
            m.extend_from_slice(&payload);
            inputs.push(m.clone());                                  // header frame only
            m.extend_from_slice(&0u32.to_be_bytes());
            inputs.push(m);                                          // + empty body frame
        }
    }
    // two valid messages: every truncation, every byte replaced by 0x00 / 0xff
    let req = h::write_request_bytes(&cfg, Request::new(Bytes::from_static(b"body")).with_route("/svc/m").with_header("k", "v")).await.unwrap();
    let resp = h::write_response_bytes(&cfg, Response::new(Bytes::from_static(b"body")).with_header("k", "v")).await.unwrap();
    for m in [&req, &resp] {
        for k in 0..m.len() { inputs.push(m[..k].to_vec()); }
        for k in 0..m.len() { for b in [0u8, 0xff] { let mut x = m.clone(); x[k] = b; inputs.push(x); } }
    }
    for len in [0x7fff_ffffu32, 0xffff_ffff, 0x0080_0001] {
        let mut m = pre.clone(); m.extend_from_slice(&len.to_be_bytes()); m.extend_from_slice(&[0; 16]); inputs.push(m);
    }
    let (mut panics, mut first_panic, mut accepted_req, mut accepted_resp): (u64, Option<Vec<u8>>, u64, u64) = (0, None, 0, 0);
    let hook = std::panic::take_hook();
    std::panic::set_hook(Box::new(|_| {}));
    for inp in &inputs {
        let r = std::panic::AssertUnwindSafe(h::read_request_bytes(&cfg, inp)).catch_unwind().await;
        match r { Ok(Ok(_)) => accepted_req += 1, Ok(Err(_)) => {}, Err(_) => { panics += 1; if first_panic.is_none() { first_panic = Some(inp.clone()); } } }
        let r = std::panic::AssertUnwindSafe(h::read_response_bytes(&cfg, inp)).catch_unwind().await;
        match r { Ok(Ok(_)) => accepted_resp += 1, Ok(Err(_)) => {}, Err(_) => { panics += 1; if first_panic.is_none() { first_panic = Some(inp.clone()); } } }
    }
    std::panic::set_hook(hook);
    json!({"inputs": inputs.len(), "panics": panics, "first_panicking_input": first_panic.map(hex::encode), "accepted_as_request": accepted_req, "accepted_as_response": accepted_resp})
}

/// C15 confinement on real networks: one oversized RPC, then a small one on the same connection.
async fn oversize_confined(a: &Value) -> Value {
    let resp_len = a.get("response_body").and_then(|x| x.as_u64());
    let svc = tower::ServiceExt::boxed_clone(tower::service_fn(move |r: Request<Bytes>| async move {
        let body = match resp_len { Some(n) if r.body().len() != 7 => Bytes::from(vec![7u8; n as usize]), _ => r.into_body() };
        Ok::<_, std::convert::Infallible>(Response::new(body))
    }));
    let mut sc = Config::default(); sc.max_frame_size = a.get("callee_limit").and_then(|x| x.as_u64()).map(|x| x as usize);
    let mut cc = Config::default(); cc.max_frame_size = a.get("caller_limit").and_then(|x| x.as_u64()).map(|x| x as usize);
    let callee = anemo::Network::bind("127.0.0.1:0").server_name("verif").private_key([7; 32]).config(sc).start(svc).expect("callee");
    let caller = anemo::Network::bind("127.0.0.1:0").server_name("verif").private_key([8; 32]).config(cc).start(echo()).expect("caller");
    let id = caller.connect(callee.local_addr()).await.expect("connect");
    let t0 = std::time::Instant::now();
    let big = tokio::time::timeout(Duration::from_secs(5), caller.rpc(id, Request::new(Bytes::from(vec![1u8; a["body"].as_u64().unwrap() as usize])))).await;
    let failed = matches!(big, Ok(Err(_)));
    let hung = big.is_err();
    tokio::time::sleep(Duration::from_millis(100)).await;
    let still = caller.peers().contains(&id) && callee.peers().contains(&caller.peer_id());
    let follow = tokio::time::timeout(Duration::from_secs(5), caller.rpc(id, Request::new(Bytes::from_static(b"follow7")))).await;
    let follow_ok = matches!(follow, Ok(Ok(ref r)) if r.body().as_ref() == b"follow7");
    json!({"oversized_rpc_failed": failed, "hung": hung, "still_connected": still, "followup_ok": follow_ok, "elapsed_ms": t0.elapsed().as_millis() as u64})
}

/// C05 / C04 on real networks: a mutual dial while requests are still in flight on the connection that may be replaced (sent through
/// Network::rpc, in either or both directions).  Whatever happens to those requests, afterwards both sides list each other exactly once,
/// RPCs work both ways, and each side's event stream replays to its listing.
async fn mutual_dial_inflight(_args: &Value) -> Value {
    let slow_echo = || tower::ServiceExt::boxed_clone(tower::service_fn(|r: Request<Bytes>| async move {
        if r.body().starts_with(b"slow") { tokio::time::sleep(Duration::from_millis(700)).await; }
        Ok::<_, std::convert::Infallible>(Response::new(r.into_body()))
    }));
    let node = |key: u8| {
        let mut c = Config::default();
        c.connect_timeout_ms = Some(3000);
        anemo::Network::bind("127.0.0.1:0").server_name("verif").private_key([key; 32]).config(c).start(slow_echo()).expect("network")
    };
    let mut runs = Vec::new();
    for (kf, ks) in [(1u8, 2u8), (2, 1)] {
        for inflight in 0..4u8 {
            let first = node(kf); let second = node(ks);
            let (mut rx_f, snap_f) = first.subscribe().expect("subscribe");
            let (mut rx_s, snap_s) = second.subscribe().expect("subscribe");
            let r1 = first.connect(second.local_addr()).await;
            for _ in 0..100 { if second.peers().contains(&first.peer_id()) { break; } tokio::time::sleep(Duration::from_millis(10)).await; }
            let mut pending = Vec::new();
            if inflight & 1 != 0 { let (n, to) = (second.clone(), first.peer_id()); pending.push(tokio::spawn(async move { n.rpc(to, Request::new(Bytes::from_static(b"slow-1"))).await.is_ok() })); }
            if inflight & 2 != 0 { let (n, to) = (first.clone(), second.peer_id()); pending.push(tokio::spawn(async move { n.rpc(to, Request::new(Bytes::from_static(b"slow-2"))).await.is_ok() })); }
            tokio::time::sleep(Duration::from_millis(100)).await;
            let r2 = second.connect(first.local_addr()).await;
            let mut inflight_ok = Vec::new();
            for p in pending { inflight_ok.push(tokio::time::timeout(Duration::from_secs(5), p).await.map(|r| r.unwrap_or(false)).ok()); }
            let (mut fs, mut sf) = (false, false);
            for _ in 0..60 {
                tokio::time::sleep(Duration::from_millis(50)).await;
                fs = first.rpc(second.peer_id(), Request::new(Bytes::from_static(b"x"))).await.is_ok();
                sf = second.rpc(first.peer_id(), Request::new(Bytes::from_static(b"x"))).await.is_ok();
                if fs && sf && first.peers().iter().filter(|p| **p == second.peer_id()).count() == 1 && second.peers().iter().filter(|p| **p == first.peer_id()).count() == 1 { break; }
            }
            tokio::time::sleep(Duration::from_millis(150)).await;
            let (mut ev_f, mut ev_s) = (Vec::new(), Vec::new());
            while let Ok(e) = rx_f.try_recv() { ev_f.push(ev(&e)); }
            while let Ok(e) = rx_s.try_recv() { ev_s.push(ev(&e)); }
            runs.push(json!({"first_key": kf, "second_key": ks, "in_flight_from_second": inflight & 1 != 0, "in_flight_from_first": inflight & 2 != 0,
                "first_dial_ok": r1.is_ok(), "dial_back_ok": r2.is_ok(), "in_flight_results": inflight_ok,
                "first_lists_second": first.peers().iter().filter(|p| **p == second.peer_id()).count(), "second_lists_first": second.peers().iter().filter(|p| **p == first.peer_id()).count(),
                "rpc_first_to_second": fs, "rpc_second_to_first": sf,
                "first": {"snapshot": snap_f.iter().map(|p| p.0[0]).collect::<Vec<u8>>(), "events": ev_f, "listing": first.peers().iter().map(|p| p.0[0]).collect::<Vec<u8>>()},
                "second": {"snapshot": snap_s.iter().map(|p| p.0[0]).collect::<Vec<u8>>(), "events": ev_s, "listing": second.peers().iter().map(|p| p.0[0]).collect::<Vec<u8>>()}}));
        }
    }
    json!({"runs": runs})
}

fn ev(e: &anemo::types::PeerEvent) -> Value {
    match e {
        anemo::types::PeerEvent::NewPeer(p) => json!({"new": p.0[0]}),
        anemo::types::PeerEvent::LostPeer(p, r) => json!({"lost": p.0[0], "reason": format!("{r:?}")}),
    }
}
/// C03 / C04 / C09 on real networks: a scripted history on node A (key 1) with peers B (2), C (3), impostor-free.
/// Reports dial results, the event stream of A from a subscription taken at the start, listings, and RPC reachability.
async fn history(args: &Value) -> Value {
    let swap = args.get("swap").and_then(|x| x.as_bool()).unwrap_or(false);
    let (ka, kb) = if swap { (2, 1) } else { (1, 2) };
    let a = network(ka, None); let b = network(kb, None); let c = network(3, None);
    let (mut rx, snapshot) = a.subscribe().expect("subscribe");
    let mut steps = Vec::new();
    // 1. A dials B naming B
    let r1 = a.connect_with_peer_id(b.local_addr(), b.peer_id()).await;
    steps.push(json!({"step": "A dials B naming B", "ok": r1.is_ok(), "returned_is_b": r1.as_ref().ok() == Some(&b.peer_id()), "a_lists_b_on_return": a.peers().contains(&b.peer_id())}));
    // 2. A dials C's address naming B: must fail, nobody lists anybody because of it
    let r2 = a.connect_with_peer_id(c.local_addr(), b.peer_id()).await;
    tokio::time::sleep(Duration::from_millis(50)).await;
    steps.push(json!({"step": "A dials C's address naming B", "ok": r2.is_ok(), "a_lists_c": a.peers().contains(&c.peer_id()), "c_lists_a": c.peers().contains(&a.peer_id())}));
    // 2b. A dials B's address again, this time naming C: B answers, so it must fail and change nothing
    let r2b = a.connect_with_peer_id(b.local_addr(), c.peer_id()).await;
    tokio::time::sleep(Duration::from_millis(50)).await;
    steps.push(json!({"step": "A dials B's address naming C", "ok": r2b.is_ok(), "a_lists_c": a.peers().contains(&c.peer_id()), "a_still_lists_b": a.peers().contains(&b.peer_id())}));
    // 2c. two dials of B's address AT THE SAME TIME, one without an expected identity and one naming C: the first may succeed, the second must fail
    let (r2c_plain, r2c_pinned) = tokio::join!(a.connect(b.local_addr()), a.connect_with_peer_id(b.local_addr(), c.peer_id()));
    tokio::time::sleep(Duration::from_millis(50)).await;
    steps.push(json!({"step": "A dials B's address twice at once, the second naming C", "plain_ok": r2c_plain.is_ok(), "pinned_ok": r2c_pinned.is_ok(), "a_lists_c": a.peers().contains(&c.peer_id()), "a_still_lists_b": a.peers().contains(&b.peer_id())}));
    // 3. A dials C without naming anyone: returns C's identity
    let r3 = a.connect(c.local_addr()).await;
    steps.push(json!({"step": "A dials C unnamed", "ok": r3.is_ok(), "returned_is_c": r3.as_ref().ok() == Some(&c.peer_id()), "a_lists_c_on_return": a.peers().contains(&c.peer_id())}));
    // 4. B dials A while A->B exists (replacement or rejection by tie-break): both still list each other exactly once, RPC works both ways
    let r4 = b.connect_with_peer_id(a.local_addr(), a.peer_id()).await;
    // let the loser's close propagate, then both directions must work (poll up to 3 s: quiescence, not a fixed delay)
    let (mut ab, mut ba) = (false, false);
    for _ in 0..60 {
        tokio::time::sleep(Duration::from_millis(50)).await;
        ab = a.rpc(b.peer_id(), Request::new(Bytes::from_static(b"x"))).await.is_ok();
        ba = b.rpc(a.peer_id(), Request::new(Bytes::from_static(b"x"))).await.is_ok();
        if ab && ba && a.peers().iter().filter(|p| **p == b.peer_id()).count() == 1 && b.peers().iter().filter(|p| **p == a.peer_id()).count() == 1 { break; }
    }
    steps.push(json!({"step": "B dials A (mutual)", "ok": r4.is_ok(), "a_lists_b": a.peers().iter().filter(|p| **p == b.peer_id()).count(), "b_lists_a": b.peers().iter().filter(|p| **p == a.peer_id()).count(), "rpc_a_to_b": ab, "rpc_b_to_a": ba}));
    // 5. A disconnects C explicitly
    let r5 = a.disconnect(c.peer_id());
    let listed_after = a.peers().contains(&c.peer_id());
    let rpc_after = a.rpc(c.peer_id(), Request::new(Bytes::from_static(b"x"))).await.is_ok();
    let mut c_saw_loss = false;
    for _ in 0..300 { if !c.peers().contains(&a.peer_id()) { c_saw_loss = true; break; } tokio::time::sleep(Duration::from_millis(10)).await; }
    steps.push(json!({"step": "A disconnects C", "ok": r5.is_ok(), "a_lists_c_after": listed_after, "rpc_to_c_after": rpc_after, "c_reports_a_lost": c_saw_loss}));
    tokio::time::sleep(Duration::from_millis(250)).await;
    let mut events = Vec::new();
    while let Ok(e) = rx.try_recv() { events.push(ev(&e)); }
    let mut listing: Vec<u8> = a.peers().iter().map(|p| p.0[0]).collect(); listing.sort();
    let ids = json!({"a": a.peer_id().0[0], "b": b.peer_id().0[0], "c": c.peer_id().0[0]});
    json!({"ids": ids, "snapshot": snapshot.iter().map(|p| p.0[0]).collect::<Vec<u8>>(), "steps": steps, "events_on_a": events, "final_listing_on_a": listing})
}

/// C08, last sentence: the async runtime is torn down (dropped, with a bounded shutdown_timeout) at a chosen moment -- right after the networks started, with
/// RPCs and a dial in flight, while a shutdown is running, after it finished -- with handles to the networks still alive and used afterwards.  Each moment
/// runs on a thread of its own; reported: did it panic, did it come back within 10 s.
/// C08: explicit shutdown issued while `connect` calls saturate the connection manager's mailbox (capacity 2, 8 dials to a silent socket and the shutdown
/// all issued in one poll, current-thread runtime): "completes ... whatever is in flight".
async fn shutdown_full_mailbox(_a: &Value) -> Value {
    let silent = std::net::UdpSocket::bind((std::net::Ipv4Addr::LOCALHOST, 0)).unwrap();
    let silent_addr = silent.local_addr().unwrap();
    let mut c = Config::default();
    c.connection_manager_channel_capacity = Some(2);
    c.connect_timeout_ms = Some(2_000);
    c.shutdown_idle_timeout_ms = Some(3_000);
    let n = anemo::Network::bind("127.0.0.1:0").server_name("verif").private_key([141; 32]).config(c).start(echo()).expect("network");
    let addr = n.local_addr();
    let weak = n.downgrade();
    let connects = futures::future::join_all((0..8).map(|_| n.connect(silent_addr)));
    let shutdown = n.shutdown();
    let t0 = std::time::Instant::now();
    let joined = tokio::time::timeout(Duration::from_secs(15), futures::future::join(connects, shutdown)).await;
    let took = t0.elapsed().as_millis() as u64;
    let (returned, shutdown_ok, pending_connects_failed) = match &joined {
        Ok((cs, s)) => (true, s.is_ok(), cs.iter().filter(|r| r.is_err()).count()),
        Err(_) => (false, false, 0),
    };
    let later_connect = match tokio::time::timeout(Duration::from_secs(5), n.connect(silent_addr)).await { Ok(Ok(_)) => "ok", Ok(Err(_)) => "error", Err(_) => "hangs" };
    let rebind = std::net::UdpSocket::bind(addr).is_ok();
    json!({"returned": returned, "took_ms": took, "shutdown_ok": shutdown_ok, "pending_connects_failed": pending_connects_failed, "is_closed": n.is_closed(), "peers": n.peers().len(),
           "weak_reference_upgrades": weak.upgrade().is_some(), "connect_after_shutdown": later_connect, "rebind_at_once": rebind})
}

/// C12: RPCs abandoned while the serving side's whole service applies back-pressure (a capacity-1 service held by one long request that is NOT abandoned).
/// The listener grants 4 concurrent streams; 12 RPCs are issued at once and all given up after a second.  While the service is held none of them may be handed to it later
/// (an abandoned request must not be served after the fact), and once the holder is released a fresh RPC is served at once.
async fn abandoned_behind_backpressure(_a: &Value) -> Value {
    use std::sync::atomic::{AtomicUsize, Ordering};
    use std::sync::Arc;
    let stale = Arc::new(AtomicUsize::new(0));
    let calls = Arc::new(AtomicUsize::new(0));
    let release = Arc::new(tokio::sync::Notify::new());
    let started = Arc::new(tokio::sync::Notify::new());
    let (s2, c2, r2, st2) = (stale.clone(), calls.clone(), release.clone(), started.clone());
    let inner = tower::service_fn(move |r: Request<Bytes>| { let (stale, calls, release, started) = (s2.clone(), c2.clone(), r2.clone(), st2.clone()); async move {
        calls.fetch_add(1, Ordering::SeqCst);
        if r.body().as_ref() == b"hold" { started.notify_one(); release.notified().await; }
        if r.body().as_ref() == b"abandoned" { stale.fetch_add(1, Ordering::SeqCst); }
        Ok::<_, std::convert::Infallible>(Response::new(r.into_body()))
    } });
    let limited = tower::ServiceExt::boxed_clone(tower::limit::ConcurrencyLimit::new(inner, 1));
    let mut c = Config::default();
    c.connect_timeout_ms = Some(3000);
    let mut quic = anemo::QuicConfig::default();
    quic.max_concurrent_bidi_streams = Some(4);
    c.quic = Some(quic);
    let server = anemo::Network::bind("127.0.0.1:0").server_name("verif").private_key([161; 32]).config(c.clone()).start(limited).expect("server");
    let client = anemo::Network::bind("127.0.0.1:0").server_name("verif").private_key([162; 32]).config(c).start(echo()).expect("client");
    let sid = client.connect(server.local_addr()).await.expect("connect");
    let cl = client.clone();
    let held = tokio::spawn(async move { cl.rpc(sid, Request::new(Bytes::from_static(b"hold"))).await.map(|r| r.into_body().to_vec()) });
    let holder_started = tokio::time::timeout(Duration::from_secs(5), started.notified()).await.is_ok();
    // 12 RPCs issued at once and all given up a second later (long enough for those that got a stream to have reached the serving side even on a loaded machine)
    let tasks: Vec<_> = (0..12).map(|_| { let c = client.clone(); tokio::spawn(async move { c.rpc(sid, Request::new(Bytes::from_static(b"abandoned"))).await.is_ok() }) }).collect();
    tokio::time::sleep(Duration::from_millis(1000)).await;
    let mut gave_up = 0;
    for t in tasks { if !t.is_finished() { gave_up += 1; } t.abort(); }
    tokio::time::sleep(Duration::from_millis(700)).await;
    release.notify_one();
    let held_ok = matches!(tokio::time::timeout(Duration::from_secs(5), held).await, Ok(Ok(Ok(ref b))) if b == b"hold");
    let t0 = std::time::Instant::now();
    let fresh = matches!(tokio::time::timeout(Duration::from_secs(3), client.rpc(sid, Request::new(Bytes::from_static(b"fresh")))).await, Ok(Ok(ref r)) if r.body().as_ref() == b"fresh");
    let fresh_ms = t0.elapsed().as_millis() as u64;
    tokio::time::sleep(Duration::from_millis(300)).await;
    json!({"holder_started": holder_started, "callers_gave_up": gave_up, "held_rpc_answered": held_ok, "fresh_rpc_ok": fresh, "fresh_rpc_ms": fresh_ms,
           "abandoned_requests_served_after_the_fact": stale.load(Ordering::SeqCst), "handler_calls": calls.load(Ordering::SeqCst)})
}

fn runtime_teardown() -> Value {
    let mut out = Vec::new();
    for moment in ["just_started", "traffic_in_flight", "during_shutdown", "after_shutdown"] {
        let (tx, rx) = std::sync::mpsc::channel();
        let m = moment.to_owned();
        std::thread::spawn(move || {
            let r = std::panic::catch_unwind(std::panic::AssertUnwindSafe(|| {
                let rt = tokio::runtime::Builder::new_multi_thread().worker_threads(2).enable_all().build().unwrap();
                let (a, b) = rt.block_on(async {
                    let slow = tower::ServiceExt::boxed_clone(tower::service_fn(|r: Request<Bytes>| async move { tokio::time::sleep(Duration::from_millis(3000)).await; Ok::<_, std::convert::Infallible>(Response::new(r.into_body())) }));
                    let mk = |k: u8, s| { let mut c = Config::default(); c.connect_timeout_ms = Some(3000); c.shutdown_idle_timeout_ms = Some(500); anemo::Network::bind("127.0.0.1:0").server_name("verif").private_key([k; 32]).config(c).start(s).expect("network") };
                    let (a, b) = (mk(141, slow), mk(142, echo()));
                    if m != "just_started" {
                        let bid = a.connect(b.local_addr()).await.expect("connect");
                        let (a2, b2, aid) = (a.clone(), b.clone(), a.peer_id());
                        tokio::spawn(async move { let _ = b2.rpc(aid, Request::new(Bytes::from_static(b"slow"))).await; });
                        tokio::spawn(async move { let _ = a2.rpc(bid, Request::new(Bytes::from_static(b"x"))).await; });
                        let silent = std::net::UdpSocket::bind("127.0.0.1:0").unwrap();
                        let (a3, addr) = (a.clone(), silent.local_addr().unwrap());
                        tokio::spawn(async move { let _keep = silent; let _ = a3.connect(addr).await; });
                        tokio::time::sleep(Duration::from_millis(100)).await;
                    }
                    if m == "during_shutdown" { let a4 = a.clone(); tokio::spawn(async move { let _ = a4.shutdown().await; }); tokio::time::sleep(Duration::from_millis(30)).await; }
                    if m == "after_shutdown" { let _ = a.shutdown().await; }
                    (a, b)
                });
                rt.shutdown_timeout(Duration::from_millis(1500));
                // the handles outlive the runtime: using and dropping them must not panic either
                let (closed_a, peers_b) = (a.is_closed(), b.peers().len());
                let _ = a.disconnect(b.peer_id());
                drop(a); drop(b);
                (closed_a, peers_b)
            }));
            let _ = tx.send(r.is_ok());
        });
        let res = rx.recv_timeout(Duration::from_secs(10));
        out.push(json!({"moment": moment, "came_back_within_10s": res.is_ok(), "panicked": matches!(res, Ok(false))}));
    }
    json!({"moments": out})
}

fn main() {
    let args: Vec<String> = std::env::args().collect();
    if args.get(1).map(|s| s.as_str()) == Some("silent_peer_loss") {
        std::panic::set_hook(Box::new(|_| {}));
        println!("{}", silent_peer_loss());
        std::process::exit(0);
    }
    if args.get(1).map(|s| s.as_str()) == Some("runtime_teardown") {
        std::panic::set_hook(Box::new(|_| {}));
        println!("{}", runtime_teardown());
        std::process::exit(0);
    }
    let multi = matches!(args.get(1).map(|s| s.as_str()), Some("admission") | Some("default_timeouts") | Some("rpc_pairing") | Some("history") | Some("oversize_confined") | Some("hostile_streams") | Some("network_names") | Some("claimed_name_grid") | Some("stolen_certificate") | Some("backpressure_service") | Some("abrupt_close_mt") | Some("shutdown_scenario") | Some("abandoned_rpcs") | Some("abandoned_behind_backpressure") | Some("typed_rpc_roundtrip") | Some("busy_node_still_dials") | Some("panicking_handler") | Some("end_to_end_fidelity") | Some("mutual_dial_inflight") | Some("identity_claims_in_headers") | Some("header_only_deadline") | Some("hostile_requests"));
    let rt = if multi {
        tokio::runtime::Builder::new_multi_thread().worker_threads(2).enable_all().build().unwrap()
    } else {
        tokio::runtime::Builder::new_current_thread().enable_all().build().unwrap()
    };
    rt.block_on(run(args));
}
async fn run(args: Vec<String>) {
    let scenario = args.get(1).expect("scenario").as_str();
    let raw = match args.get(2).map(|s| s.as_str()) {
        Some("-") | None => {
            let mut s = String::new();
            std::io::Read::read_to_string(&mut std::io::stdin(), &mut s).expect("stdin");
            s
        }
        Some(s) => s.to_owned(),
    };
    let a: Value = serde_json::from_str(if raw.trim().is_empty() { "{}" } else { &raw }).expect("json");
    let out = match scenario {
        #[cfg(feature = "hooks-cm")]
        "tie_break" => json!({"result": h::tie_break(&peer(&a["own"]), &peer(&a["remote"]), origin(&a["existing"]), origin(&a["new"]))}),
        "peer_lt" => json!({"result": peer(&a["a"]) < peer(&a["b"])}),
        #[cfg(feature = "hooks-cm")]
        "backoff_update" => {
            let (att, d) = h::dial_backoff_update_from(a["attempts"].as_u64().unwrap() as usize,
                Duration::from_nanos(a["step_ns"].as_u64().unwrap()), Duration::from_nanos(a["max_ns"].as_u64().unwrap()));
            json!({"attempts": att, "backoff_ns": d.as_nanos() as u64})
        }
        #[cfg(feature = "hooks-cm")]
        "backoff_after" => {
            let (att, d) = h::dial_backoff_after(a["failures"].as_u64().unwrap() as usize,
                Duration::from_nanos(a["step_ns"].as_u64().unwrap()), Duration::from_nanos(a["max_ns"].as_u64().unwrap()));
            json!({"attempts": att, "backoff_ns": d.as_nanos() as u64})
        }
        #[cfg(feature = "hooks-wire")]
        "read_version" => match h::read_version_frame_bytes(&bytes_of(&a["bytes"])).await {
            Ok((v, n)) => json!({"ok": true, "version": v, "consumed": n}),
            Err(e) => json!({"ok": false, "error": e.to_string()}),
        },
        #[cfg(feature = "hooks-wire")]
        "write_version" => json!({"bytes": h::write_version_frame_bytes(Version::V1).await.unwrap()}),
        "version_new" => json!({"ok": Version::new(a["version"].as_u64().unwrap() as u16).is_ok()}),
        "status_new" => match StatusCode::new(a["code"].as_u64().unwrap() as u16) {
            Ok(s) => json!({"ok": true, "to_u16": s.to_u16()}),
            Err(_) => json!({"ok": false}),
        },
        #[cfg(feature = "hooks-wire")]
        "max_frame" => json!({"max": h::max_frame_length(&config(&a)) as u64}),
        #[cfg(feature = "hooks-wire")]
        "write_request" => match h::write_request_bytes(&config(&a), request_of(&a)).await {
            Ok(b) => json!({"ok": true, "len": b.len(), "bytes": if b.len() <= 4096 { json!(hex::encode(&b)) } else { Value::Null },
                            "head": hex::encode(&b[..b.len().min(64)])}),
            Err(e) => json!({"ok": false, "error": e.to_string()}),
        },
        #[cfg(feature = "hooks-wire")]
        "write_response" => match h::write_response_bytes(&config(&a), response_of(&a)).await {
            Ok(b) => json!({"ok": true, "len": b.len(), "bytes": if b.len() <= 4096 { json!(hex::encode(&b)) } else { Value::Null },
                            "head": hex::encode(&b[..b.len().min(64)])}),
            Err(e) => json!({"ok": false, "error": e.to_string()}),
        },
        #[cfg(feature = "hooks-wire")]
        "read_request" => match h::read_request_bytes(&config(&a), &bytes_of(&a["bytes"])).await {
            Ok(r) => json!({"ok": true, "route": r.route(), "headers": hm(r.headers()), "body": r.body().to_vec(), "version": r.version().to_u16(),
                            "extensions_empty": r.extensions().is_empty()}),
            Err(e) => json!({"ok": false, "error": e.to_string()}),
        },
        #[cfg(feature = "hooks-wire")]
        "read_response" => match h::read_response_bytes(&config(&a), &bytes_of(&a["bytes"])).await {
            Ok(r) => json!({"ok": true, "status": r.status().to_u16(), "headers": hm(r.headers()), "body": r.body().to_vec(), "version": r.version().to_u16(),
                            "extensions_empty": r.extensions().is_empty()}),
            Err(e) => json!({"ok": false, "error": e.to_string()}),
        },
        // write with the sender's limit, read back with the receiver's limit
        #[cfg(feature = "hooks-wire")]
        "roundtrip_request" => {
            let wc = config(&a["sender"]);
            let rc = config(&a["receiver"]);
            match h::write_request_bytes(&wc, request_of(&a)).await {
                Err(e) => json!({"sent": false, "error": e.to_string()}),
                Ok(b) => match h::read_request_bytes(&rc, &b).await {
                    Ok(r) => json!({"sent": true, "received": true, "route": r.route(), "headers": hm(r.headers()), "body_len": r.body().len(),
                                    "body_intact": r.body()[..] == body_of(&a)[..], "extensions_empty": r.extensions().is_empty()}),
                    Err(e) => json!({"sent": true, "received": false, "error": e.to_string()}),
                },
            }
        }
        #[cfg(feature = "hooks-wire")]
        "roundtrip_response" => {
            let wc = config(&a["sender"]);
            let rc = config(&a["receiver"]);
            match h::write_response_bytes(&wc, response_of(&a)).await {
                Err(e) => json!({"sent": false, "error": e.to_string()}),
                Ok(b) => match h::read_response_bytes(&rc, &b).await {
                    Ok(r) => json!({"sent": true, "received": true, "status": r.status().to_u16(), "headers": hm(r.headers()), "body_len": r.body().len(),
                                    "body_intact": r.body()[..] == body_of(&a)[..], "extensions_empty": r.extensions().is_empty()}),
                    Err(e) => json!({"sent": true, "received": false, "error": e.to_string()}),
                },
            }
        }
        #[cfg(feature = "hooks-timeout")]
        "parse_timeout" => {
            let mut m = HashMap::new();
            if let Some(s) = a.get("header").and_then(|x| x.as_str()) {
                m.insert("timeout".to_owned(), s.to_owned());
            }
            match h::try_parse_timeout(&m) {
                Ok(None) => json!({"ok": true, "value_ns": Value::Null}),
                Ok(Some(d)) => json!({"ok": true, "value_ns": d.as_nanos() as u64}),
                Err(e) => json!({"ok": false, "error": e}),
            }
        }
        #[cfg(feature = "hooks-timeout")]
        "duration_to_timeout" => json!({"header": h::duration_to_timeout(Duration::new(a["secs"].as_u64().unwrap(), a["nanos"].as_u64().unwrap_or(0) as u32))}),
        #[cfg(feature = "hooks-timeout")]
        "timeout_select" => timeout_select(&a).await,
        "auth" => auth(&a).await,
        "admission" => admission(&a).await,
        "oversize_confined" => oversize_confined(&a).await,
        #[cfg(feature = "hooks-wire")]
        "decode_sweep" => decode_sweep(&a).await,
        "history" => history(&a).await,
        "rpc_pairing" => rpc_pairing(&a).await,
        "default_timeouts" => default_timeouts(&a).await,
        #[cfg(feature = "hooks-crypto")]
        "cert_corpus" => certs::cert_corpus(&a),
        "network_names" => network_names(&a).await,
        "claimed_name_grid" => rawdial::claimed_name_grid(&a).await,
        "stolen_certificate" => rawdial::stolen_certificate(&a).await,
        "identity_claims_in_headers" => hostile::identity_claims_in_headers(&a).await,
        "header_only_deadline" => hostile::header_only_deadline(&a).await,
        "hostile_requests" => hostile::hostile_requests(&a).await,
        "routing_table" => routing::routing_table(&a).await,
        "mutual_dial_inflight" => mutual_dial_inflight(&a).await,
        "end_to_end_fidelity" => end_to_end_fidelity(&a).await,
        "panicking_handler" => panicking_handler(&a).await,
        "auth_sweep" => auth_sweep(&a).await,
        "abandoned_rpcs" => abandoned_rpcs(&a).await,
        "abandoned_behind_backpressure" => abandoned_behind_backpressure(&a).await,
        "backpressure_service" => backpressure_service(&a).await,
        "shutdown_scenario" => shutdown_scenario(&a).await,
        "shutdown_full_mailbox" => shutdown_full_mailbox(&a).await,
        "codegen_routes" => codegen::codegen_routes(&a).await,
        "typed_rpc_roundtrip" => hostile::typed_rpc_roundtrip(&a).await,
        "abrupt_close" | "abrupt_close_mt" => hostile::abrupt_close(&a).await,
        "busy_node_still_dials" => busy_node_still_dials(&a).await,
        "hostile_streams" => hostile::hostile_streams(&a).await,
        // several messages written in ONE process, one after the other (state kept between calls would show)
        #[cfg(feature = "hooks-wire")]
        "write_sequence" => {
            let mut out = Vec::new();
            for m in a["messages"].as_array().unwrap() {
                let r = if m["kind"] == "request" { h::write_request_bytes(&config(m), request_of(m)).await } else { h::write_response_bytes(&config(m), response_of(m)).await };
                out.push(match r { Ok(b) => json!({"ok": true, "bytes": hex::encode(&b)}), Err(e) => json!({"ok": false, "error": e.to_string()}) });
            }
            let mut back = Vec::new();
            for m in a["read"].as_array().map(|v| v.as_slice()).unwrap_or(&[]) {
                let bytes = bytes_of(&m["bytes"]);
                back.push(if m["kind"] == "request" {
                    match h::read_request_bytes(&config(m), &bytes).await { Ok(r) => json!({"ok": true, "route": r.route(), "headers": hm(r.headers()), "body": r.body().to_vec()}), Err(e) => json!({"ok": false, "error": e.to_string()}) }
                } else {
                    match h::read_response_bytes(&config(m), &bytes).await { Ok(r) => json!({"ok": true, "status": r.status().to_u16(), "headers": hm(r.headers()), "body": r.body().to_vec()}), Err(e) => json!({"ok": false, "error": e.to_string()}) }
                });
            }
            json!({"written": out, "read": back})
        }
        other => json!({"unavailable": format!("scenario {other} is unknown or its hook group is not compiled in")}),
    };
    println!("{}", out);
}
