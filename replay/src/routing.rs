//! C16 on the real Router (real matchit, real tower): routers are built from operation lists chosen by the caller and asked every route string
//! of a list; each answer says which service produced it and which route-level middleware it passed.  Uses no hook of the library.
use anemo::{Request, Response, Router};
use bytes::Bytes;
use serde_json::{json, Value};
use std::convert::Infallible;
use tower::{Service, ServiceExt};

#[derive(Clone)]
struct Rpc<const N: usize>(u64);
impl anemo::rpc::RpcService for Rpc<0> { const SERVICE_NAME: &'static str = "s"; }
impl anemo::rpc::RpcService for Rpc<1> { const SERVICE_NAME: &'static str = "t"; }
impl<const N: usize> Service<Request<Bytes>> for Rpc<N> {
    type Response = Response<Bytes>; type Error = Infallible; type Future = std::future::Ready<Result<Response<Bytes>, Infallible>>;
    fn poll_ready(&mut self, _: &mut std::task::Context<'_>) -> std::task::Poll<Result<(), Infallible>> { std::task::Poll::Ready(Ok(())) }
    fn call(&mut self, _r: Request<Bytes>) -> Self::Future { std::future::ready(Ok(Response::new(Bytes::new()).with_header("svc", self.0.to_string()))) }
}
fn svc(id: u64) -> impl Service<Request<Bytes>, Response = Response<Bytes>, Error = Infallible, Future = impl Send + 'static> + Clone + Send + 'static {
    tower::service_fn(move |_r: Request<Bytes>| async move { Ok::<_, Infallible>(Response::new(Bytes::new()).with_header("svc", id.to_string())) })
}
fn build(ops: &[Value]) -> Router {
    let mut r = Router::new();
    for op in ops {
        let kind = op[0].as_str().unwrap_or("");
        r = match kind {
            "route" => r.route(op[1].as_str().unwrap(), svc(op[2].as_u64().unwrap())),
            "rpc" => if op[1].as_str() == Some("t") { r.add_rpc_service(Rpc::<1>(op[2].as_u64().unwrap())) } else { r.add_rpc_service(Rpc::<0>(op[2].as_u64().unwrap())) },
            "layer" => {
                let id = op[1].as_u64().unwrap();
                r.route_layer(tower::util::MapResponseLayer::new(move |resp: Response<Bytes>| {
                    let t = resp.headers().get("trace").cloned().unwrap_or_default();
                    resp.with_header("trace", format!("{t}{id},"))
                }))
            }
            "merge" => r.merge(build(op[1].as_array().map(|v| v.as_slice()).unwrap_or(&[]))),
            "nest" => r.route(op[1].as_str().unwrap(), Router::new()),
            _ => r,
        };
    }
    r
}
pub async fn routing_table(a: &Value) -> Value {
    let queries: Vec<String> = a["queries"].as_array().map(|v| v.iter().filter_map(|s| s.as_str().map(|s| s.to_owned())).collect()).unwrap_or_default();
    let mut out = Vec::new();
    std::panic::set_hook(Box::new(|_| {}));
    for ops in a["routers"].as_array().cloned().unwrap_or_default() {
        let ops_v = ops.as_array().cloned().unwrap_or_default();
        let built = std::panic::catch_unwind(std::panic::AssertUnwindSafe(|| build(&ops_v)));
        let router = match built { Ok(r) => r, Err(_) => { out.push(json!({"build_panicked": true})); continue; } };
        let mut answers = Vec::new();
        for q in queries.iter() {
            let req = Request::new(Bytes::new()).with_route(q.clone());
            let fut = std::panic::catch_unwind(std::panic::AssertUnwindSafe(|| router.clone().oneshot(req)));
            let ans = match fut {
                Err(_) => json!({"panicked": true}),
                Ok(f) => match futures::FutureExt::catch_unwind(std::panic::AssertUnwindSafe(f)).await {
                    Ok(Ok(resp)) => json!({"status": resp.status().to_u16(), "svc": resp.headers().get("svc").and_then(|s| s.parse::<u64>().ok()),
                                           "trace": resp.headers().get("trace").map(|t| t.split(',').filter_map(|x| x.parse::<u64>().ok()).collect::<Vec<u64>>()).unwrap_or_default()}),
                    _ => json!({"panicked": true}),
                },
            };
            answers.push(ans);
        }
        out.push(json!({"build_panicked": false, "answers": answers}));
    }
    let _ = std::panic::take_hook();
    json!({"routers": out})
}
