//! C17, the generator half: anemo-build's client and server generators are RUN on a family of service definitions and their output (token streams,
//! as text) is inspected: which route each generated client method sends to, which route each arm of the generated server's dispatch serves and
//! which handler method that arm ends up calling, and the service name the router registers the server under.
use anemo_build::manual::{Method, Service};
use serde_json::{json, Value};

fn after<'a>(s: &'a str, pat: &str) -> Option<&'a str> { s.find(pat).map(|i| &s[i + pat.len()..]) }
fn lit(s: &str) -> Option<(String, &str)> { let s = s.trim_start(); if !s.starts_with('"') { return None; } let e = s[1..].find('"')?; Some((s[1..1 + e].to_owned(), &s[2 + e..])) }
fn ident_before(s: &str) -> String { s.trim_end().rsplit(|c: char| !(c.is_alphanumeric() || c == '_')).next().unwrap_or("").to_owned() }

/// (client method name -> route it sends to)
fn client_routes(text: &str) -> Vec<(String, String)> {
    let mut out = Vec::new();
    let mut rest = text;
    while let Some(r) = after(rest, "pub async fn ") {
        let name: String = r.chars().take_while(|c| c.is_alphanumeric() || *c == '_').collect();
        let end = r.find("pub async fn ").unwrap_or(r.len());
        let body = &r[..end];
        if let Some(a) = after(body, "route_mut () = ") {
            if let Some((p, _)) = lit(a) {
                // the assignment has to be a statement of the method body itself (brace depth 1: not inside an `if`, a `match` arm, a closure or a loop), the
                // only one, and in front of the call that sends the request: whatever route the caller's Request object carried, the call goes out on THIS one
                let at = body.len() - a.len();
                let open = body.find('{').unwrap_or(0);
                let depth = body[open..at].chars().fold(0i32, |d, c| match c { '{' => d + 1, '}' => d - 1, _ => d });
                let once = body.matches("route_mut ()").count() == 1;
                let before_send = body.find(". unary (").map(|u| at < u).unwrap_or(false);
                let p = if depth == 1 && once && before_send { p } else { format!("{p} [assigned conditionally or not exactly once before the request is sent: depth {depth}, once {once}, before_send {before_send}]") };
                out.push((name, p));
            }
        }
        rest = r;
    }
    out
}
/// (route served -> name of the handler method that arm ends up calling), the default arm's text, the registered service name
fn server_routes(text: &str) -> (Vec<(String, String)>, String, Option<String>) {
    // XSvc -> trait method called by its Service impl
    let mut svc_method = std::collections::HashMap::new();
    let mut rest = text;
    while let Some(r) = after(rest, "(* inner) . ") {
        let m: String = r.chars().take_while(|c| c.is_alphanumeric() || *c == '_').collect();
        // the Svc type this impl is for: the last `for XSvc < T >` before this point
        let upto = &text[..text.len() - r.len()];
        if let Some(i) = upto.rfind(" for ") { let ty: String = upto[i + 5..].chars().take_while(|c| c.is_alphanumeric() || *c == '_').collect(); svc_method.insert(ty, m); }
        rest = r;
    }
    let mut arms = Vec::new();
    let mut default_arm = String::new();
    if let Some(m) = after(text, "match req . route () {") {
        let mut rest = m;
        loop {
            let t = rest.trim_start();
            if let Some((p, r2)) = lit(t) {
                // the arm body runs up to the next string-literal arm or the default arm
                let body_end = { let a = r2.find("\" => {").map(|i| r2[..i].rfind('"').unwrap_or(i)); let b = r2.find("_ => "); match (a, b) { (Some(a), Some(b)) => a.min(b), (Some(a), None) => a, (None, Some(b)) => b, _ => r2.len() } };
                let body = &r2[..body_end];
                let svc = body.find("Svc (inner)").map(|i| ident_before(&body[..i + 3])).unwrap_or_default();
                arms.push((p, svc_method.get(&svc).cloned().unwrap_or(format!("?{svc}"))));
                rest = &r2[body_end..];
            } else if t.starts_with("_ => ") { default_arm = t.chars().take(200).collect(); break; } else { break; }
        }
    }
    let name = after(text, "SERVICE_NAME : & 'static str = ").and_then(|a| lit(a).map(|x| x.0));
    (arms, default_arm, name)
}
pub async fn codegen_routes(_a: &Value) -> Value {
    let pool = [("get", "Get"), ("put", "Put"), ("get_all", "GetAll"), ("x", "x")];
    let mut defs: Vec<Vec<usize>> = Vec::new();
    for a in 0..4 { defs.push(vec![a]); for b in 0..4 { if b != a { defs.push(vec![a, b]); for c in 0..4 { if c != a && c != b { defs.push(vec![a, b, c]); } } } } }
    let mut problems = Vec::new();
    let mut checked = 0u32;
    for package in ["", "pkg", "a.b"] {
        for sname in ["Echo", "KvStore"] {
            for d in defs.iter() {
                for raw in [false, true] {
                    let mut b = Service::builder().name(sname).package(package);
                    for (i, k) in d.iter().enumerate() {
                        b = b.method(Method::builder().name(pool[*k].0).route_name(pool[*k].1).request_type("String").response_type("u64").codec_path("anemo::rpc::codec::BincodeCodec")
                            .server_handler_return_raw_bytes(raw && i == 0).build());
                    }
                    let service = b.build();
                    let client = anemo_build::client::generate(&service).to_string();
                    let server = anemo_build::server::generate(&service).to_string();
                    let cr = client_routes(&client);
                    let (sr, default_arm, registered) = server_routes(&server);
                    checked += 1;
                    let mut why: Option<String> = None;
                    let reg = registered.clone().unwrap_or_default();
                    if registered.is_none() { why = Some("the generated server declares no SERVICE_NAME".into()); }
                    if !default_arm.contains("NotFound") { why = Some("the generated server's default arm does not answer NotFound".into()); }
                    for k in d.iter() {
                        let (m, _) = pool[*k];
                        let c: Vec<&(String, String)> = cr.iter().filter(|x| x.0 == m).collect();
                        if c.len() != 1 { why = Some(format!("{} generated client method(s) named {m}", c.len())); continue; }
                        let route = &c[0].1;
                        let serving: Vec<&(String, String)> = sr.iter().filter(|x| &x.0 == route).collect();
                        if serving.len() != 1 || serving[0].1 != m { why = Some(format!("the client's {m} sends to {route:?}; the server serves that route with {:?}", serving.iter().map(|x| x.1.clone()).collect::<Vec<_>>())); }
                        let prefix = format!("/{reg}/");
                        if !route.starts_with(&prefix) || route[prefix.len()..].is_empty() || route[prefix.len()..].contains('/') { why = Some(format!("the route {route:?} of {m} does not lie directly under the prefix {prefix:?} the router registers for the service")); }
                    }
                    if sr.len() != d.len() { why = Some(format!("{} dispatch arms for {} methods", sr.len(), d.len())); }
                    if let Some(w) = why { if problems.len() < 4 { problems.push(json!({"package": package, "service": sname, "methods": d.iter().map(|k| pool[*k].0).collect::<Vec<_>>(), "raw_bytes_first": raw, "why": w, "client_routes": cr, "server_arms": sr, "registered_as": registered})); } }
                }
            }
        }
    }
    json!({"definitions": checked, "problems": problems})
}
