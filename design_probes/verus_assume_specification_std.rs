use vstd::prelude::*;
verus! {
pub assume_specification<T, E, F: FnOnce(E) -> T> [Result::<T, E>::unwrap_or_else] (s: Result<T, E>, f: F) -> (r: T)
    requires s is Err ==> f.requires((s->Err_0,)),
    ensures s is Ok ==> r == s->Ok_0,
            s is Err ==> f.ensures((s->Err_0,), r);

pub assume_specification<T: Ord> [std::cmp::min::<T>] (a: T, b: T) -> (r: T)
    ensures r == a || r == b;

fn f2(a: Option<u64>, b: Option<u64>) -> (r: Option<u64>)
  ensures a is Some && b is Some ==> r is Some,
{
    match (a, b) {
        (None, None) => None,
        (Some(d), None) => Some(d),
        (None, Some(d)) => Some(d),
        (Some(x), Some(y)) => { let s = std::cmp::min(x, y); Some(s) }
    }
}
fn f3(r: Result<Option<u64>, u8>) -> (o: Option<u64>)
  ensures r is Ok ==> o == r.unwrap(), r is Err ==> o is None
{
    r.unwrap_or_else(|e| { None })
}
fn f4(o: Option<u64>) -> (r: Result<u64, u8>)
  ensures o is Some ==> r == Ok::<u64,u8>(o.unwrap()), o is None ==> r is Err
{
    o.ok_or_else(|| 3u8)
}
fn dbl(x: u32) -> (r: u64) ensures r == 2 * x { 2 * (x as u64) }
fn f5(o: Option<u32>) -> (r: Option<u64>)
  ensures o is Some ==> r == Some((2 * o.unwrap()) as u64)
{
    o.map(dbl)
}
fn main() {}
}
