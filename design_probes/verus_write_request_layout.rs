use vstd::prelude::*;
verus! {
#[derive(Debug)]
pub struct Error {}
pub type Result<T> = core::result::Result<T, Error>;
pub struct Bytes { pub v: Vec<u8> }
impl View for Bytes { type V = Seq<u8>; open spec fn view(&self) -> Seq<u8> { self.v@ } }
pub struct BytesMut { pub v: Vec<u8> }
impl View for BytesMut { type V = Seq<u8>; open spec fn view(&self) -> Seq<u8> { self.v@ } }
pub struct Writer<B> { pub b: B }
pub trait BufMut: Sized { fn writer(self) -> (r: Writer<Self>) ensures r.b == self; }
impl<'a> BufMut for &'a mut BytesMut { #[verifier::external_body] fn writer(self) -> (r: Writer<Self>) { Writer { b: self } } }
impl BytesMut {
    #[verifier::external_body] pub fn new() -> (r: Self) ensures r@ == Seq::<u8>::empty() { unimplemented!() }
    #[verifier::external_body] pub fn freeze(self) -> (r: Bytes) ensures r@ == self@ { unimplemented!() }
}
pub trait WireSpec { spec fn wire(&self) -> Seq<u8>; }
pub mod bincode {
    use super::*;
    #[verifier::external_body]
    pub fn serialize_into<'a, T: WireSpec>(w: Writer<&'a mut BytesMut>, value: &T) -> (r: core::result::Result<(), Error>)
        ensures r is Ok, final(w.b)@ == old(w.b)@ + value.wire()
    { unimplemented!() }
}
pub trait AsyncWrite { spec fn out(&self) -> Seq<u8>; }
pub struct Codec { pub max: usize }
pub open spec fn be32(n: nat) -> Seq<u8> { seq![((n / 16777216) % 256) as u8, ((n / 65536) % 256) as u8, ((n / 256) % 256) as u8, (n % 256) as u8] }
pub struct FramedWrite<T, C> { pub inner: T, pub codec: C }
impl<T: AsyncWrite> FramedWrite<T, Codec> {
    #[verifier::external_body]
    pub fn get_mut(&mut self) -> (r: &mut T)
        ensures *r == old(self).inner, final(self).inner == *final(r), final(self).codec == old(self).codec
    { unimplemented!() }
    #[verifier::external_body]
    pub async fn send(&mut self, item: Bytes) -> (r: Result<()>)
        ensures final(self).codec == old(self).codec,
            r is Ok ==> item@.len() <= old(self).codec.max && final(self).inner.out() == old(self).inner.out() + be32(item@.len()) + item@,
            item@.len() > old(self).codec.max ==> r is Err && final(self).inner.out() == old(self).inner.out(),
    { unimplemented!() }
}
pub struct Raw { pub route: u64 }
impl WireSpec for Raw { uninterp spec fn wire(&self) -> Seq<u8>; }
pub open spec fn preamble() -> Seq<u8> { seq![97u8, 110, 101, 109, 111, 0, 1, 0] }
#[verifier::external_body]
async fn write_version_frame<T: AsyncWrite>(s: &mut T) -> (r: Result<()>)
    ensures r is Ok ==> final(s).out() == old(s).out() + preamble()
{ unimplemented!() }

async fn write_request<T: AsyncWrite>(send_stream: &mut FramedWrite<T, Codec>, raw_header: Raw, body: Bytes) -> (r: Result<()>)
    ensures r is Ok ==> final(send_stream).inner.out() == old(send_stream).inner.out() + preamble()
                + be32(raw_header.wire().len()) + raw_header.wire() + be32(body@.len()) + body@,
            r is Ok ==> raw_header.wire().len() <= old(send_stream).codec.max && body@.len() <= old(send_stream).codec.max,
{
    write_version_frame(send_stream.get_mut()).await?;
    let mut buf = BytesMut::new();
    bincode::serialize_into((&mut buf).writer(), &raw_header).expect("serialization should not fail");
    send_stream.send(buf.freeze()).await?;
    // Write Body
    send_stream.send(body).await?;
    Ok(())
}
fn main() {}
}
