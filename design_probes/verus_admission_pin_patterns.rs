use vstd::prelude::*;
use std::sync::Arc;
verus! {
#[derive(Clone, Copy)]
pub enum PeerAffinity { High, Allowed, Never }
pub struct PeerInfo { pub peer_id: u64, pub affinity: PeerAffinity, pub address: Vec<u64> }
pub struct E {}
pub struct Out { pub a: Result<u64, E>, pub b: Option<u64> }

async fn admit(info: Option<PeerInfo>, limit: Option<usize>, len: usize) -> (r: Result<u64, E>)
    ensures
        (info is Some && info->Some_0.affinity is Never) ==> r is Err,
        (info is Some && !(info->Some_0.affinity is Never)) ==> r is Ok,
        info is None ==> (r is Ok <==> (limit is None || len < limit->Some_0)),
{
    match info {
        Some(PeerInfo { affinity: PeerAffinity::High | PeerAffinity::Allowed, .. }) => {
            // Do nothing, let the connection through
        }
        Some(PeerInfo { affinity: PeerAffinity::Never, .. }) => {
            return Err(E {});
        }
        // Check connection Limits
        _ => {
            if let Some(limit) = limit {
                if len >= limit {
                    return Err(E {});
                }
            }
        }
    }
    Ok(1)
}
fn elig(p: &PeerInfo, own: u64) -> (r: bool)
    ensures r == (p.affinity is High && p.peer_id != own && p.address.len() != 0)
{
    matches!(p.affinity, PeerAffinity::High)
        && p.peer_id != own // We don't dial ourself
        && !p.address.is_empty()
}
pub trait Verifier {
    spec fn vspec(&self, cert: u64) -> bool;
    fn verify(&self, cert: u64) -> (r: Result<(), Arc<E>>) ensures r is Ok ==> self.vspec(cert);
}
pub struct Base {}
impl Verifier for Base {
    uninterp spec fn vspec(&self, cert: u64) -> bool;
    #[verifier::external_body]
    fn verify(&self, cert: u64) -> (r: Result<(), Arc<E>>) { unimplemented!() }
}
pub struct Pinned(pub Base, pub u64);
pub uninterp spec fn id_of(cert: u64) -> u64;
#[verifier::external_body]
fn peer_id_from(cert: u64) -> (r: Result<u64, Arc<E>>) ensures r is Ok ==> r->Ok_0 == id_of(cert) { unimplemented!() }
impl Verifier for Pinned {
    open spec fn vspec(&self, cert: u64) -> bool { id_of(cert) == self.1 && self.0.vspec(cert) }
    fn verify(&self, cert: u64) -> (r: Result<(), Arc<E>>)
    {
        let peer_id = peer_id_from(cert)?;
        if peer_id != self.1 {
            return Err(Arc::new(E {}));
        }
        self.0.verify(cert)
    }
}
fn main() {}
}
