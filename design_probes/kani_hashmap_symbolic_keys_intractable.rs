#![allow(dead_code)]
use std::collections::{hash_map::Entry, HashMap};
#[derive(Copy, Clone, Hash, PartialEq, Eq, PartialOrd, Ord, Debug)]
pub struct PeerId(pub [u8; 32]);
#[derive(Clone, Copy, PartialEq, Eq, Debug)]
pub struct Conn { pub sid: usize, pub peer: PeerId }
pub struct Inner { pub connections: HashMap<PeerId, Conn>, pub log: Vec<(PeerId, u8)>, pub closed: Vec<usize> }
impl Inner {
    fn remove_with_stable_id(&mut self, peer_id: PeerId, stable_id: usize, reason: u8) {
        match self.connections.entry(peer_id) {
            Entry::Occupied(entry) => {
                if entry.get().sid == stable_id {
                    let (peer_id, connection) = entry.remove_entry();
                    self.closed.push(connection.sid);
                    self.log.push((peer_id, reason));
                }
            }
            Entry::Vacant(_) => {}
        }
    }
    fn peers(&self) -> Vec<PeerId> { self.connections.keys().copied().collect() }
}
#[cfg(kani)]
mod h {
    use super::*;
    #[kani::proof]
    #[kani::unwind(40)]
    fn rm() {
        let p1 = PeerId(kani::any()); let p2 = PeerId(kani::any());
        kani::assume(p1 != p2);
        let s1: usize = kani::any(); let s2: usize = kani::any();
        let mut m = Inner { connections: HashMap::new(), log: vec![], closed: vec![] };
        if kani::any() { m.connections.insert(p1, Conn { sid: s1, peer: p1 }); }
        if kani::any() { m.connections.insert(p2, Conn { sid: s2, peer: p2 }); }
        let had1 = m.connections.get(&p1).copied();
        let had2 = m.connections.get(&p2).copied();
        let sid: usize = kani::any();
        m.remove_with_stable_id(p1, sid, 3);
        let hit = matches!(had1, Some(c) if c.sid == sid);
        assert!(m.connections.get(&p2).copied() == had2);
        if hit { assert!(m.connections.get(&p1).is_none() && m.log.len() == 1 && m.closed.len() == 1); }
        else { assert!(m.connections.get(&p1).copied() == had1 && m.log.is_empty() && m.closed.is_empty()); }
    }
}
