use vstd::prelude::*;
verus! {
pub struct Request { pub peer: Option<u64>, pub body: u64 }
pub struct Response { pub status: u16 }

pub trait Service {
    type Future;
    spec fn calls(&self) -> Seq<Request>;
    spec fn fut_of(req: Request) -> Self::Future;
    fn call(&mut self, req: Request) -> (r: Self::Future)
        ensures final(self).calls() == old(self).calls().push(req), r == Self::fut_of(req);
}
pub trait AuthorizeRequest {
    spec fn authorize_spec(&self, request: Request) -> Result<(), Response>;
    fn authorize(&self, request: &mut Request) -> (r: Result<(), Response>)
        ensures r == self.authorize_spec(*old(request)), *final(request) == *old(request);
}
pub enum ResponseFuture<F> { Future { future: F }, Error { response: Option<Response> } }
impl<F> ResponseFuture<F> {
    pub fn future(future: F) -> (r: Self) ensures r == (ResponseFuture::Future { future }) { ResponseFuture::Future { future } }
    pub fn invalid_auth(response: Response) -> (r: Self) ensures r == (ResponseFuture::<F>::Error { response: Some(response) }) { ResponseFuture::Error { response: Some(response) } }
}
pub struct RequireAuthorization<S, A> { pub inner: S, pub auth: A }

impl<S: Service, A: AuthorizeRequest> RequireAuthorization<S, A> {
    fn call(&mut self, mut request: Request) -> (r: ResponseFuture<S::Future>)
        ensures
            old(self).auth.authorize_spec(request) is Ok ==> final(self).inner.calls() == old(self).inner.calls().push(request)
                 && r == (ResponseFuture::Future { future: S::fut_of(request) }),
            old(self).auth.authorize_spec(request) is Err ==> final(self).inner.calls() == old(self).inner.calls()
                 && r == (ResponseFuture::<S::Future>::Error { response: Some(old(self).auth.authorize_spec(request)->Err_0) }),
    {
        match self.auth.authorize(&mut request) {
            Ok(()) => ResponseFuture::future(self.inner.call(request)),
            Err(response) => ResponseFuture::invalid_auth(response),
        }
    }
}

// async + ? + &mut
pub struct Stream { pub data: Seq<u8>, pub pos: nat }
pub struct Err0 {}
impl Stream {
    #[verifier::external_body]
    async fn read8(&mut self) -> (r: Result<[u8; 8], Err0>)
        ensures match r { Ok(b) => old(self).pos + 8 <= old(self).data.len() && b@ == old(self).data.subrange(old(self).pos as int, old(self).pos as int + 8) && final(self).pos == old(self).pos + 8 && final(self).data == old(self).data,
                          Err(_) => old(self).pos + 8 > old(self).data.len() }
    { unimplemented!() }
}
async fn rd(s: &mut Stream) -> (r: Result<u8, Err0>)
    ensures r is Ok ==> old(s).pos + 8 <= old(s).data.len() && r->Ok_0 == old(s).data[old(s).pos as int + 7]
{
    let b = s.read8().await?;
    Ok(b[7])
}

// annotated closure
pub assume_specification<T, E, F: FnOnce(E) -> T> [Result::<T, E>::unwrap_or_else] (s: Result<T, E>, f: F) -> (r: T)
    requires s is Err ==> f.requires((s->Err_0,)),
    ensures s is Ok ==> r == s->Ok_0,
            s is Err ==> f.ensures((s->Err_0,), r);
fn f3(r: Result<Option<u64>, u8>) -> (o: Option<u64>)
  ensures r is Ok ==> o == r.unwrap(), r is Err ==> o is None
{
    r.unwrap_or_else(|e| -> (ret: Option<u64>) ensures ret is None { None })
}
fn main() {}
}
