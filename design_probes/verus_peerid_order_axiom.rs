use vstd::prelude::*;
use core::cmp::Ordering;
use vstd::std_specs::cmp::*;
verus! {
#[derive(Copy, Clone, PartialEq, Eq, PartialOrd, Ord, Hash)]
pub struct PeerId(pub [u8; 32]);

pub open spec fn lex_lt(a: Seq<u8>, b: Seq<u8>) -> bool
    decreases a.len()
{
    if a.len() == 0 || b.len() == 0 { false }
    else if a[0] != b[0] { a[0] < b[0] }
    else { lex_lt(a.drop_first(), b.drop_first()) }
}

#[verifier::external_body]
pub broadcast proof fn axiom_peer_id_order(a: PeerId, b: PeerId)
    ensures
        #![trigger a.partial_cmp_spec(&b)]
        <PeerId as PartialOrdSpec>::obeys_partial_cmp_spec(),
        <PeerId as PartialEqSpec>::obeys_eq_spec(),
        (a.partial_cmp_spec(&b) == Some(Ordering::Less)) == lex_lt(a.0@, b.0@),
        (a.eq_spec(&b)) == (a.0@ == b.0@),
{}

fn lt(a: &PeerId, b: &PeerId) -> (r: bool)
  ensures r == lex_lt(a.0@, b.0@)
{
    broadcast use axiom_peer_id_order;
    a < b
}
fn main() {}
}
