// Feasibility probe (not framework code). Standalone crate, `cargo kani`, ~1 s + ~2 s.
// PeerId / ConnectionOrigin / simultaneous_dial_tie_breaking copied verbatim from /repo.
// Full 2x256-bit domain; unwind(34) closes the derived array comparison (32 bytes) with unwinding assertions on.
#[derive(Copy, Clone, Hash, PartialEq, Eq, PartialOrd, Ord)]
pub struct PeerId(pub [u8; 32]);
#[derive(Clone, Copy, Hash, PartialEq, Eq)]
pub enum Direction { Inbound, Outbound }
#[derive(Clone, Copy, Hash, PartialEq, Eq)]
pub struct ConnectionOrigin(Direction);
impl ConnectionOrigin {
    #[allow(non_upper_case_globals)]
    pub const Inbound: ConnectionOrigin = ConnectionOrigin(Direction::Inbound);
    #[allow(non_upper_case_globals)]
    pub const Outbound: ConnectionOrigin = ConnectionOrigin(Direction::Outbound);
}
pub fn simultaneous_dial_tie_breaking(
    own_peer_id: &PeerId,
    remote_peer_id: &PeerId,
    existing_origin: ConnectionOrigin,
    new_origin: ConnectionOrigin,
) -> bool {
    match (existing_origin, new_origin) {
        (ConnectionOrigin::Inbound, ConnectionOrigin::Inbound) => true,
        (ConnectionOrigin::Outbound, ConnectionOrigin::Outbound) => true,
        (ConnectionOrigin::Inbound, ConnectionOrigin::Outbound) => remote_peer_id < own_peer_id,
        (ConnectionOrigin::Outbound, ConnectionOrigin::Inbound) => own_peer_id < remote_peer_id,
    }
}
#[cfg(kani)]
mod h {
    use super::*;
    // c1 is dialed by a, c2 by b. Returns true iff the survivor at node `me` is c1.
    fn survivor_is_c1(me_is_a: bool, a: &PeerId, b: &PeerId, first_is_c1: bool) -> bool {
        let (own, remote) = if me_is_a { (a, b) } else { (b, a) };
        let o1 = if me_is_a { ConnectionOrigin::Outbound } else { ConnectionOrigin::Inbound };
        let o2 = if me_is_a { ConnectionOrigin::Inbound } else { ConnectionOrigin::Outbound };
        let (existing, new, existing_is_c1) = if first_is_c1 { (o1, o2, true) } else { (o2, o1, false) };
        let replace = simultaneous_dial_tie_breaking(own, remote, existing, new);
        if replace { !existing_is_c1 } else { existing_is_c1 }
    }
    #[kani::proof]
    #[kani::unwind(34)]
    fn converge() {
        let a = PeerId(kani::any());
        let b = PeerId(kani::any());
        kani::assume(a != b);
        let s_a_12 = survivor_is_c1(true, &a, &b, true);
        let s_a_21 = survivor_is_c1(true, &a, &b, false);
        let s_b_12 = survivor_is_c1(false, &a, &b, true);
        let s_b_21 = survivor_is_c1(false, &a, &b, false);
        assert!(s_a_12 == s_a_21 && s_a_21 == s_b_12 && s_b_12 == s_b_21);
        assert!(s_a_12 == (a > b)); // survivor is the connection dialed by the greater id
    }
    #[kani::proof]
    #[kani::unwind(34)]
    fn order_total() { // validates the Verus order axiom against the real derive(PartialOrd, Ord)
        let a = PeerId(kani::any());
        let b = PeerId(kani::any());
        let c = PeerId(kani::any());
        let lt = a < b; let gt = b < a; let eq = a == b;
        assert!((lt as u8) + (gt as u8) + (eq as u8) == 1);
        if a < b && b < c { assert!(a < c); }
        assert!(eq == (a.0 == b.0));
    }
}
