// Feasibility probe (not framework code). Standalone crate, `cargo kani`, ~1 s + ~2.5 s.
// Version / read_version_frame / write_version_frame copied verbatim from /repo (still `async`),
// run against an executable in-memory stream stand-in with a one-poll executor.
#![allow(dead_code)]
use std::future::Future;
#[derive(Debug)]
pub struct Error;
pub type Result<T, E = Error> = std::result::Result<T, E>;
macro_rules! bail { ($($t:tt)*) => { return Err(Error) } }
pub mod anyhow { macro_rules! anyhow_ { ($($t:tt)*) => { crate::Error } } pub(crate) use anyhow_ as anyhow; }
pub trait AsyncRead { fn read_exact<'a>(&'a mut self, buf: &'a mut [u8]) -> impl Future<Output = Result<usize>> + 'a; }
pub trait AsyncWrite { fn write_all<'a>(&'a mut self, buf: &'a [u8]) -> impl Future<Output = Result<()>> + 'a; }
pub struct MemStream<const N: usize> { pub data: [u8; N], pub len: usize, pub pos: usize }
impl<const N: usize> AsyncRead for MemStream<N> {
    async fn read_exact(&mut self, buf: &mut [u8]) -> Result<usize> {
        if self.len - self.pos < buf.len() { self.pos = self.len; return Err(Error); }
        buf.copy_from_slice(&self.data[self.pos..self.pos + buf.len()]);
        self.pos += buf.len();
        Ok(buf.len())
    }
}
impl<const N: usize> AsyncWrite for MemStream<N> {
    async fn write_all(&mut self, buf: &[u8]) -> Result<()> {
        if N - self.len < buf.len() { return Err(Error); }
        self.data[self.len..self.len + buf.len()].copy_from_slice(buf);
        self.len += buf.len();
        Ok(())
    }
}
pub fn block_on<F: Future>(f: F) -> F::Output {
    let mut f = std::pin::pin!(f);
    let mut cx = std::task::Context::from_waker(std::task::Waker::noop());
    match f.as_mut().poll(&mut cx) { std::task::Poll::Ready(v) => v, std::task::Poll::Pending => panic!("stand-in futures are always ready") }
}
// ---------- verbatim from /repo ----------
#[derive(Clone, Copy, Debug, PartialEq, Eq, PartialOrd, Ord)]
#[repr(u16)]
pub enum Version {
    V1 = 1,
}
impl Version {
    pub fn new(version: u16) -> crate::Result<Self> {
        match version {
            1 => Ok(Version::V1),
            _ => Err(anyhow::anyhow!("invalid version {}", version)),
        }
    }
    pub fn to_u16(self) -> u16 {
        self as u16
    }
}
const ANEMO: &[u8; 5] = b"anemo";
pub(crate) async fn read_version_frame<T: AsyncRead + Unpin>(
    recv_stream: &mut T,
) -> Result<Version> {
    let mut buf: [u8; 8] = [0; 8];
    recv_stream.read_exact(&mut buf).await?;
    if &buf[0..=4] != ANEMO || buf[7] != 0 {
        bail!("Invalid Protocol Header");
    }
    let version_be_bytes = [buf[5], buf[6]];
    let version = u16::from_be_bytes(version_be_bytes);
    Version::new(version)
}
pub(crate) async fn write_version_frame<T: AsyncWrite + Unpin>(
    send_stream: &mut T,
    version: Version,
) -> Result<()> {
    let mut buf: [u8; 8] = [0; 8];
    buf[0..=4].copy_from_slice(ANEMO);
    buf[5..=6].copy_from_slice(&version.to_u16().to_be_bytes());

    send_stream.write_all(&buf).await?;

    Ok(())
}
#[cfg(kani)]
mod h {
    use super::*;
    #[kani::proof]
    #[kani::unwind(10)]
    fn read_total_and_exact() { // all 2^64 contents x every length 0..=8: total, exact acceptance set
        let data: [u8; 8] = kani::any();
        let len: usize = kani::any(); kani::assume(len <= 8);
        let mut s = MemStream::<8> { data, len, pos: 0 };
        let r = block_on(read_version_frame(&mut s));
        let valid = len == 8 && data == [b'a', b'n', b'e', b'm', b'o', 0, 1, 0];
        assert!(r.is_ok() == valid);
        if let Ok(v) = r { assert!(v == Version::V1 && s.pos == 8); }
    }
    #[kani::proof]
    #[kani::unwind(10)]
    fn write_layout_and_roundtrip() {
        let mut s = MemStream::<8> { data: [0xAA; 8], len: 0, pos: 0 };
        let r = block_on(write_version_frame(&mut s, Version::V1));
        assert!(r.is_ok() && s.len == 8);
        assert!(s.data == [b'a', b'n', b'e', b'm', b'o', 0, 1, 0]);
        let back = block_on(read_version_frame(&mut s));
        assert!(matches!(back, Ok(Version::V1)));
    }
}
