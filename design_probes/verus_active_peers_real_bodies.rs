use vstd::prelude::*;
use core::cmp::Ordering;
use vstd::std_specs::cmp::*;
use std::collections::HashMap;
use std::collections::hash_map::Entry;
verus! {

// ---------- extracted verbatim: types/peer_id.rs ----------
#[derive(Copy, Clone, Hash, PartialEq, Eq, PartialOrd, Ord)]
pub struct PeerId(pub [u8; 32]);

#[derive(Clone, Copy, Hash, PartialEq, Eq)]
pub enum Direction { Inbound, Outbound }

#[derive(Clone, Copy, Hash, PartialEq, Eq)]
pub struct ConnectionOrigin(pub Direction);
impl ConnectionOrigin {
    #[allow(non_upper_case_globals)]
    pub const Inbound: ConnectionOrigin = ConnectionOrigin(Direction::Inbound);
    #[allow(non_upper_case_globals)]
    pub const Outbound: ConnectionOrigin = ConnectionOrigin(Direction::Outbound);
}

#[derive(Clone, PartialEq, Eq)]
pub enum DisconnectReason { Requested, VersionMismatch, TransportError, ConnectionClosed, ApplicationClosed, Reset, TimedOut, LocallyClosed }

#[derive(Clone, PartialEq, Eq)]
pub enum PeerEvent { NewPeer(PeerId), LostPeer(PeerId, DisconnectReason) }

// ---------- trusted stand-ins ----------
pub open spec fn lex_lt(a: Seq<u8>, b: Seq<u8>) -> bool decreases a.len()
{ if a.len() == 0 || b.len() == 0 { false } else if a[0] != b[0] { a[0] < b[0] } else { lex_lt(a.drop_first(), b.drop_first()) } }

#[verifier::external_body]
pub broadcast proof fn axiom_peer_id_order(a: PeerId, b: PeerId)
    ensures #![trigger a.partial_cmp_spec(&b)]
        <PeerId as PartialOrdSpec>::obeys_partial_cmp_spec(),
        (a.partial_cmp_spec(&b) == Some(Ordering::Less)) == lex_lt(a.0@, b.0@),
{}

#[verifier::external_body]
pub broadcast proof fn axiom_peer_id_key() ensures #[trigger] vstd::std_specs::hash::obeys_key_model::<PeerId>() {}

pub struct Connection { pub sid: usize, pub peer: PeerId, pub orig: ConnectionOrigin }
impl Clone for Connection {
    #[verifier::external_body]
    fn clone(&self) -> (r: Self) ensures r == *self { unimplemented!() }
}
impl Connection {
    #[verifier::external_body] pub fn peer_id(&self) -> (r: PeerId) ensures r == self.peer { unimplemented!() }
    #[verifier::external_body] pub fn origin(&self) -> (r: ConnectionOrigin) ensures r == self.orig { unimplemented!() }
    #[verifier::external_body] pub fn stable_id(&self) -> (r: usize) ensures r == self.sid { unimplemented!() }
    #[verifier::external_body] pub fn close(&self) { unimplemented!() }
}
pub struct Sender { pub log: Ghost<Seq<PeerEvent>> }
impl Sender {
    #[verifier::external_body]
    pub fn send(&mut self, e: PeerEvent) -> (r: Result<usize, ()>)
        ensures final(self).log@ == old(self).log@.push(e) { unimplemented!() }
}

// ---------- unit ----------
pub struct ActivePeersInner {
    connections: HashMap<PeerId, Connection>,
    peer_event_sender: Sender,
    closed: Ghost<Seq<usize>>,
}

pub open spec fn spec_replace(own: PeerId, remote: PeerId, existing: ConnectionOrigin, new: ConnectionOrigin) -> bool {
    if existing == new { true }
    else if new == ConnectionOrigin::Outbound { lex_lt(remote.0@, own.0@) }   // new dialed by us: keep new iff we are greater
    else { lex_lt(own.0@, remote.0@) }                                        // new dialed by remote: keep new iff remote greater
}

impl ActivePeersInner {
    fn send_event(&mut self, event: PeerEvent)
        ensures final(self).peer_event_sender.log@ == old(self).peer_event_sender.log@.push(event),
                final(self).connections == old(self).connections,
                final(self).closed == old(self).closed,
    {
        // We don't care if anyone is listening
        let _ = self.peer_event_sender.send(event);
    }

    fn remove_with_stable_id(&mut self, peer_id: PeerId, stable_id: usize, reason: DisconnectReason)
        ensures
            ({
                let hit = old(self).connections@.contains_key(peer_id) && old(self).connections@[peer_id].sid == stable_id;
                &&& hit ==> final(self).connections@ == old(self).connections@.remove(peer_id)
                        && final(self).peer_event_sender.log@ == old(self).peer_event_sender.log@.push(PeerEvent::LostPeer(peer_id, reason))
                        && final(self).closed@ == old(self).closed@.push(stable_id)
                &&& !hit ==> final(self).connections@ == old(self).connections@
                        && final(self).peer_event_sender.log@ == old(self).peer_event_sender.log@
                        && final(self).closed@ == old(self).closed@
            })
    {
        broadcast use axiom_peer_id_key;
        match self.connections.entry(peer_id) {
            Entry::Occupied(entry) => {
                // Only remove the entry if the stable id matches
                if entry.get().stable_id() == stable_id {
                    let (peer_id, connection) = entry.remove_entry();
                    // maybe actually provide reason to other side?
                    connection.close();
                    proof { self.closed@ = self.closed@.push(connection.sid); }

                    self.send_event(PeerEvent::LostPeer(peer_id, reason));
                }
            }
            Entry::Vacant(_) => {}
        }
    }

    fn add(&mut self, own_peer_id: &PeerId, new_connection: Connection) -> (r: Option<Connection>)
        ensures
            ({
                let p = new_connection.peer;
                let o = old(self).connections@;
                let olog = old(self).peer_event_sender.log@;
                &&& !o.contains_key(p) ==> r == Some(new_connection) && final(self).connections@ == o.insert(p, new_connection)
                        && final(self).peer_event_sender.log@ == olog.push(PeerEvent::NewPeer(p))
                        && final(self).closed@ == old(self).closed@
                &&& o.contains_key(p) && spec_replace(*own_peer_id, p, o[p].orig, new_connection.orig) ==>
                        r == Some(new_connection) && final(self).connections@ == o.insert(p, new_connection)
                        && final(self).peer_event_sender.log@ == olog.push(PeerEvent::LostPeer(p, DisconnectReason::Requested)).push(PeerEvent::NewPeer(p))
                        && final(self).closed@ == old(self).closed@.push(o[p].sid)
                &&& o.contains_key(p) && !spec_replace(*own_peer_id, p, o[p].orig, new_connection.orig) ==>
                        r is None && final(self).connections@ == o
                        && final(self).peer_event_sender.log@ == olog
                        && final(self).closed@ == old(self).closed@.push(new_connection.sid)
            })
    {
        broadcast use axiom_peer_id_key;
        // TODO drop Connection if you've somehow connected out ourself

        let peer_id = new_connection.peer_id();
        match self.connections.entry(peer_id) {
            Entry::Occupied(mut entry) => {
                if Self::simultaneous_dial_tie_breaking(
                    own_peer_id,
                    &peer_id,
                    entry.get().origin(),
                    new_connection.origin(),
                ) {
                    let old_connection = entry.insert(new_connection.clone());
                    old_connection.close();
                    proof { self.closed@ = self.closed@.push(old_connection.sid); }
                    self.send_event(PeerEvent::LostPeer(peer_id, DisconnectReason::Requested));
                } else {
                    new_connection.close();
                    proof { self.closed@ = self.closed@.push(new_connection.sid); }
                    // Early return to avoid standing up Incoming Request handlers
                    return None;
                }
            }
            Entry::Vacant(entry) => {
                entry.insert(new_connection.clone());
            }
        }

        self.send_event(PeerEvent::NewPeer(peer_id));

        Some(new_connection)
    }

    fn simultaneous_dial_tie_breaking(
        own_peer_id: &PeerId,
        remote_peer_id: &PeerId,
        existing_origin: ConnectionOrigin,
        new_origin: ConnectionOrigin,
    ) -> (r: bool)
        ensures r == spec_replace(*own_peer_id, *remote_peer_id, existing_origin, new_origin)
    {
        broadcast use axiom_peer_id_order;
        match (existing_origin, new_origin) {
            // If the remote dials while an existing connection is open, the older connection is
            // dropped.
            (ConnectionOrigin::Inbound, ConnectionOrigin::Inbound) => true,
            // We should never dial the same peer twice, but if we do drop the old connection
            (ConnectionOrigin::Outbound, ConnectionOrigin::Outbound) => true,
            (ConnectionOrigin::Inbound, ConnectionOrigin::Outbound) => remote_peer_id < own_peer_id,
            (ConnectionOrigin::Outbound, ConnectionOrigin::Inbound) => own_peer_id < remote_peer_id,
        }
    }
}
fn main() {}
}
