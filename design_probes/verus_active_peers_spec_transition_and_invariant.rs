use vstd::prelude::*;
use core::cmp::Ordering;
use vstd::std_specs::cmp::*;
use std::collections::HashMap;
use std::collections::hash_map::Entry;
verus! {

// ---------- extracted verbatim: types/peer_id.rs ----------
#[derive(Copy, Clone, Hash, PartialEq, Eq, PartialOrd, Ord)]
pub struct PeerId(pub [u8; 32]);

#[derive(Clone, Copy, Hash, PartialEq, Eq)]
pub enum Direction { Inbound, Outbound }

#[derive(Clone, Copy, Hash, PartialEq, Eq)]
pub struct ConnectionOrigin(pub Direction);
impl ConnectionOrigin {
    #[allow(non_upper_case_globals)]
    pub const Inbound: ConnectionOrigin = ConnectionOrigin(Direction::Inbound);
    #[allow(non_upper_case_globals)]
    pub const Outbound: ConnectionOrigin = ConnectionOrigin(Direction::Outbound);
}

#[derive(Clone, PartialEq, Eq)]
pub enum DisconnectReason { Requested, VersionMismatch, TransportError, ConnectionClosed, ApplicationClosed, Reset, TimedOut, LocallyClosed }

#[derive(Clone, PartialEq, Eq)]
pub enum PeerEvent { NewPeer(PeerId), LostPeer(PeerId, DisconnectReason) }

// ---------- trusted stand-ins ----------
pub open spec fn lex_lt(a: Seq<u8>, b: Seq<u8>) -> bool decreases a.len()
{ if a.len() == 0 || b.len() == 0 { false } else if a[0] != b[0] { a[0] < b[0] } else { lex_lt(a.drop_first(), b.drop_first()) } }

#[verifier::external_body]
pub broadcast proof fn axiom_peer_id_order(a: PeerId, b: PeerId)
    ensures #![trigger a.partial_cmp_spec(&b)]
        <PeerId as PartialOrdSpec>::obeys_partial_cmp_spec(),
        (a.partial_cmp_spec(&b) == Some(Ordering::Less)) == lex_lt(a.0@, b.0@),
{}

#[verifier::external_body]
pub broadcast proof fn axiom_peer_id_key() ensures #[trigger] vstd::std_specs::hash::obeys_key_model::<PeerId>() {}

pub struct Connection { pub sid: usize, pub peer: PeerId, pub orig: ConnectionOrigin }
impl Clone for Connection {
    #[verifier::external_body]
    fn clone(&self) -> (r: Self) ensures r == *self { unimplemented!() }
}
impl Connection {
    #[verifier::external_body] pub fn peer_id(&self) -> (r: PeerId) ensures r == self.peer { unimplemented!() }
    #[verifier::external_body] pub fn origin(&self) -> (r: ConnectionOrigin) ensures r == self.orig { unimplemented!() }
    #[verifier::external_body] pub fn stable_id(&self) -> (r: usize) ensures r == self.sid { unimplemented!() }
    #[verifier::external_body] pub fn close(&self) { unimplemented!() }
}
pub struct Sender { pub log: Ghost<Seq<PeerEvent>> }
impl Sender {
    #[verifier::external_body]
    pub fn send(&mut self, e: PeerEvent) -> (r: Result<usize, ()>)
        ensures final(self).log@ == old(self).log@.push(e) { unimplemented!() }
}


pub open spec fn step(s: Option<Set<PeerId>>, e: PeerEvent) -> Option<Set<PeerId>> {
    match s {
        None => None,
        Some(set) => match e {
            PeerEvent::NewPeer(p) => if set.contains(p) { None } else { Some(set.insert(p)) },
            PeerEvent::LostPeer(p, _) => if set.contains(p) { Some(set.remove(p)) } else { None },
        }
    }
}
pub open spec fn replay_from(start: Option<Set<PeerId>>, log: Seq<PeerEvent>) -> Option<Set<PeerId>>
    decreases log.len()
{
    if log.len() == 0 { start } else { step(replay_from(start, log.drop_last()), log.last()) }
}
pub broadcast proof fn lemma_replay_push(start: Option<Set<PeerId>>, log: Seq<PeerEvent>, e: PeerEvent)
    ensures #[trigger] replay_from(start, log.push(e)) == step(replay_from(start, log), e)
{
    assert(log.push(e).drop_last() =~= log);
}
// snapshot lemma: replaying the suffix from the snapshot taken at i reproduces the full replay
pub proof fn lemma_snapshot(log: Seq<PeerEvent>, i: int)
    requires 0 <= i <= log.len()
    ensures replay_from(replay_from(Some(Set::empty()), log.subrange(0, i)), log.subrange(i, log.len() as int))
            == replay_from(Some(Set::empty()), log)
    decreases log.len() - i
{
    let pre = log.subrange(0, i);
    let suf = log.subrange(i, log.len() as int);
    if i == log.len() {
        assert(pre =~= log);
        assert(suf.len() == 0);
    } else {
        // induct on suffix length by peeling the last element
        let log2 = log.drop_last();
        lemma_snapshot_inner(log, i);
    }
}
pub proof fn lemma_snapshot_inner(log: Seq<PeerEvent>, i: int)
    requires 0 <= i <= log.len()
    ensures replay_from(replay_from(Some(Set::empty()), log.subrange(0, i)), log.subrange(i, log.len() as int))
            == replay_from(Some(Set::empty()), log)
    decreases log.len()
{
    if i == log.len() {
        assert(log.subrange(0, i) =~= log);
        assert(log.subrange(i, log.len() as int).len() == 0);
    } else {
        let l2 = log.drop_last();
        lemma_snapshot_inner(l2, i);
        assert(l2.subrange(0, i) =~= log.subrange(0, i));
        assert(log.subrange(i, log.len() as int).drop_last() =~= l2.subrange(i, l2.len() as int));
        assert(log.subrange(i, log.len() as int).last() == log.last());
    }
}

// ---------- unit ----------

#[verifier::ext_equal]
pub struct AState { pub conns: Map<PeerId, Connection>, pub log: Seq<PeerEvent>, pub closed: Seq<usize> }
impl AState {
    pub open spec fn inv(self) -> bool {
        &&& replay_from(Some(Set::empty()), self.log) == Some(self.conns.dom())
        &&& forall|p: PeerId| self.conns.contains_key(p) ==> (#[trigger] self.conns[p]).peer == p
        &&& forall|p: PeerId, i: int| self.conns.contains_key(p) && 0 <= i < self.closed.len() ==> (#[trigger] self.conns[p]).sid != #[trigger] self.closed[i]
        &&& forall|p: PeerId, q: PeerId| self.conns.contains_key(p) && self.conns.contains_key(q) && p != q ==> (#[trigger] self.conns[p]).sid != (#[trigger] self.conns[q]).sid
    }
    pub open spec fn fresh(self, c: Connection) -> bool {
        &&& forall|i: int| 0 <= i < self.closed.len() ==> self.closed[i] != c.sid
        &&& forall|p: PeerId| self.conns.contains_key(p) ==> (#[trigger] self.conns[p]).sid != c.sid
    }
}
pub open spec fn add_spec(pre: AState, own: PeerId, c: Connection) -> (AState, Option<Connection>) {
    let p = c.peer;
    if !pre.conns.contains_key(p) {
        (AState { conns: pre.conns.insert(p, c), log: pre.log.push(PeerEvent::NewPeer(p)), closed: pre.closed }, Some(c))
    } else if spec_replace(own, p, pre.conns[p].orig, c.orig) {
        (AState { conns: pre.conns.insert(p, c),
                  log: pre.log.push(PeerEvent::LostPeer(p, DisconnectReason::Requested)).push(PeerEvent::NewPeer(p)),
                  closed: pre.closed.push(pre.conns[p].sid) }, Some(c))
    } else {
        (AState { conns: pre.conns, log: pre.log, closed: pre.closed.push(c.sid) }, None)
    }
}
pub open spec fn rm_sid_spec(pre: AState, p: PeerId, sid: usize, reason: DisconnectReason) -> AState {
    if pre.conns.contains_key(p) && pre.conns[p].sid == sid {
        AState { conns: pre.conns.remove(p), log: pre.log.push(PeerEvent::LostPeer(p, reason)), closed: pre.closed.push(sid) }
    } else { pre }
}
pub proof fn lemma_add_preserves_inv(pre: AState, own: PeerId, c: Connection)
    requires pre.inv(), pre.fresh(c)
    ensures add_spec(pre, own, c).0.inv(), add_spec(pre, own, c).0.conns.contains_key(c.peer)
{
    broadcast use lemma_replay_push;
    let p = c.peer;
    let post = add_spec(pre, own, c).0;
    if !pre.conns.contains_key(p) {
        assert(post.conns.dom() =~= pre.conns.dom().insert(p));
    } else if spec_replace(own, p, pre.conns[p].orig, c.orig) {
        assert(pre.conns.dom().remove(p).insert(p) =~= pre.conns.dom());
        assert(post.conns.dom() =~= pre.conns.dom());
    } else {
    }
}
pub proof fn lemma_rm_preserves_inv(pre: AState, p: PeerId, sid: usize, reason: DisconnectReason)
    requires pre.inv()
    ensures rm_sid_spec(pre, p, sid, reason).inv()
{
    broadcast use lemma_replay_push;
    let post = rm_sid_spec(pre, p, sid, reason);
    if pre.conns.contains_key(p) && pre.conns[p].sid == sid {
        assert(post.conns.dom() =~= pre.conns.dom().remove(p));
    }
}
// L-stale: after a replacement, the late exit of the replaced connection is the identity
pub proof fn lemma_stale_exit_ignored(pre: AState, own: PeerId, c: Connection, reason: DisconnectReason)
    requires pre.inv(), pre.fresh(c), pre.conns.contains_key(c.peer), spec_replace(own, c.peer, pre.conns[c.peer].orig, c.orig)
    ensures rm_sid_spec(add_spec(pre, own, c).0, c.peer, pre.conns[c.peer].sid, reason) == add_spec(pre, own, c).0
{
}

pub struct ActivePeersInner {
    pub connections: HashMap<PeerId, Connection>,
    pub peer_event_sender: Sender,
    pub closed: Ghost<Seq<usize>>,
}

pub open spec fn spec_replace(own: PeerId, remote: PeerId, existing: ConnectionOrigin, new: ConnectionOrigin) -> bool {
    if existing == new { true }
    else if new == ConnectionOrigin::Outbound { lex_lt(remote.0@, own.0@) }   // new dialed by us: keep new iff we are greater
    else { lex_lt(own.0@, remote.0@) }                                        // new dialed by remote: keep new iff remote greater
}


impl ActivePeersInner {
    pub open spec fn view(&self) -> AState { AState { conns: self.connections@, log: self.peer_event_sender.log@, closed: self.closed@ } }
    pub open spec fn inv(&self) -> bool {
        &&& replay_from(Some(Set::empty()), self.peer_event_sender.log@) == Some(self.connections@.dom())
        &&& forall|p: PeerId| self.connections@.contains_key(p) ==> (#[trigger] self.connections@[p]).peer == p
        &&& forall|p: PeerId, i: int| self.connections@.contains_key(p) && 0 <= i < self.closed@.len() ==> (#[trigger] self.connections@[p]).sid != #[trigger] self.closed@[i]
        &&& forall|p: PeerId, q: PeerId| self.connections@.contains_key(p) && self.connections@.contains_key(q) && p != q ==> (#[trigger] self.connections@[p]).sid != (#[trigger] self.connections@[q]).sid
    }
    pub open spec fn fresh(&self, c: Connection) -> bool {
        &&& forall|i: int| 0 <= i < self.closed@.len() ==> self.closed@[i] != c.sid
        &&& forall|p: PeerId| self.connections@.contains_key(p) ==> (#[trigger] self.connections@[p]).sid != c.sid
    }
}

impl ActivePeersInner {
    fn send_event(&mut self, event: PeerEvent)
        ensures final(self).peer_event_sender.log@ == old(self).peer_event_sender.log@.push(event),
                final(self).connections == old(self).connections,
                final(self).closed == old(self).closed,
    {
        // We don't care if anyone is listening
        let _ = self.peer_event_sender.send(event);
    }

    fn remove_with_stable_id(&mut self, peer_id: PeerId, stable_id: usize, reason: DisconnectReason)
        ensures
            final(self).view() =~~= rm_sid_spec(old(self).view(), peer_id, stable_id, reason),
            ({
                let hit = old(self).connections@.contains_key(peer_id) && old(self).connections@[peer_id].sid == stable_id;
                &&& hit ==> final(self).connections@ == old(self).connections@.remove(peer_id)
                        && final(self).peer_event_sender.log@ == old(self).peer_event_sender.log@.push(PeerEvent::LostPeer(peer_id, reason))
                        && final(self).closed@ == old(self).closed@.push(stable_id)
                &&& !hit ==> final(self).connections@ == old(self).connections@
                        && final(self).peer_event_sender.log@ == old(self).peer_event_sender.log@
                        && final(self).closed@ == old(self).closed@
            })
    {
        broadcast use axiom_peer_id_key, lemma_replay_push;
        match self.connections.entry(peer_id) {
            Entry::Occupied(entry) => {
                // Only remove the entry if the stable id matches
                if entry.get().stable_id() == stable_id {
                    let (peer_id, connection) = entry.remove_entry();
                    // maybe actually provide reason to other side?
                    connection.close();
                    proof { self.closed@ = self.closed@.push(connection.sid); }

                    self.send_event(PeerEvent::LostPeer(peer_id, reason));
                } else { let _unused = entry; }
            }
            Entry::Vacant(_) => {}
        }
    }

    fn add(&mut self, own_peer_id: &PeerId, new_connection: Connection) -> (r: Option<Connection>)
        ensures
            final(self).view() =~~= add_spec(old(self).view(), *own_peer_id, new_connection).0, r == add_spec(old(self).view(), *own_peer_id, new_connection).1,
            ({
                let p = new_connection.peer;
                let o = old(self).connections@;
                let olog = old(self).peer_event_sender.log@;
                &&& !o.contains_key(p) ==> r == Some(new_connection) && final(self).connections@ == o.insert(p, new_connection)
                        && final(self).peer_event_sender.log@ == olog.push(PeerEvent::NewPeer(p))
                        && final(self).closed@ == old(self).closed@
                &&& o.contains_key(p) && spec_replace(*own_peer_id, p, o[p].orig, new_connection.orig) ==>
                        r == Some(new_connection) && final(self).connections@ == o.insert(p, new_connection)
                        && final(self).peer_event_sender.log@ == olog.push(PeerEvent::LostPeer(p, DisconnectReason::Requested)).push(PeerEvent::NewPeer(p))
                        && final(self).closed@ == old(self).closed@.push(o[p].sid)
                &&& o.contains_key(p) && !spec_replace(*own_peer_id, p, o[p].orig, new_connection.orig) ==>
                        r is None && final(self).connections@ == o
                        && final(self).peer_event_sender.log@ == olog
                        && final(self).closed@ == old(self).closed@.push(new_connection.sid)
            })
    {
        broadcast use axiom_peer_id_key, lemma_replay_push;
        // TODO drop Connection if you've somehow connected out ourself

        let peer_id = new_connection.peer_id();
        match self.connections.entry(peer_id) {
            Entry::Occupied(mut entry) => {
                if Self::simultaneous_dial_tie_breaking(
                    own_peer_id,
                    &peer_id,
                    entry.get().origin(),
                    new_connection.origin(),
                ) {
                    let old_connection = entry.insert(new_connection.clone());
                    old_connection.close();
                    proof { self.closed@ = self.closed@.push(old_connection.sid); }
                    self.send_event(PeerEvent::LostPeer(peer_id, DisconnectReason::Requested));
                } else {
                    new_connection.close();
                    proof { self.closed@ = self.closed@.push(new_connection.sid); }
                    // Early return to avoid standing up Incoming Request handlers
                    return None;
                }
            }
            Entry::Vacant(entry) => {
                entry.insert(new_connection.clone());
            }
        }

        self.send_event(PeerEvent::NewPeer(peer_id));

        Some(new_connection)
    }

    fn simultaneous_dial_tie_breaking(
        own_peer_id: &PeerId,
        remote_peer_id: &PeerId,
        existing_origin: ConnectionOrigin,
        new_origin: ConnectionOrigin,
    ) -> (r: bool)
        ensures r == spec_replace(*own_peer_id, *remote_peer_id, existing_origin, new_origin)
    {
        broadcast use axiom_peer_id_order;
        match (existing_origin, new_origin) {
            // If the remote dials while an existing connection is open, the older connection is
            // dropped.
            (ConnectionOrigin::Inbound, ConnectionOrigin::Inbound) => true,
            // We should never dial the same peer twice, but if we do drop the old connection
            (ConnectionOrigin::Outbound, ConnectionOrigin::Outbound) => true,
            (ConnectionOrigin::Inbound, ConnectionOrigin::Outbound) => remote_peer_id < own_peer_id,
            (ConnectionOrigin::Outbound, ConnectionOrigin::Inbound) => own_peer_id < remote_peer_id,
        }
    }
}
fn main() {}
}
