use vstd::prelude::*;
use std::collections::HashMap;
use std::collections::hash_map::Entry;
verus! {
fn a(m: &mut HashMap<u64, u64>, k: u64, sid: u64)
    ensures old(m)@.contains_key(k) && sid == 7 ==> false,
{
    match m.entry(k) {
        Entry::Occupied(entry) => { if sid == 7 { let (_k, _v) = entry.remove_entry(); } }
        Entry::Vacant(_) => {}
    }
}
fn a2(m: &mut HashMap<u64, u64>, k: u64, sid: u64)
    ensures old(m)@.contains_key(k) && sid != 7 ==> false,
{
    match m.entry(k) {
        Entry::Occupied(entry) => { if sid == 7 { let (_k, _v) = entry.remove_entry(); } }
        Entry::Vacant(_) => {}
    }
}
// explicit else that keeps the entry alive to the end
fn e(m: &mut HashMap<u64, u64>, k: u64, sid: u64)
    ensures final(m)@ == old(m)@,
{
    match m.entry(k) {
        Entry::Occupied(entry) => { if sid == 7 { let (_k, _v) = entry.remove_entry(); } else { let _x = entry; } }
        Entry::Vacant(_) => {}
    }
}
fn main() {}
}
