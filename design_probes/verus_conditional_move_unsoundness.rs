use vstd::prelude::*;
use std::collections::HashMap;
use std::collections::hash_map::Entry;
verus! {
// A: conditional remove on a runtime condition; claim "never changes" -- must FAIL
fn a(m: &mut HashMap<u64, u64>, k: u64, sid: u64)
    ensures final(m)@ == old(m)@,
{
    match m.entry(k) {
        Entry::Occupied(entry) => { if sid == 7 { let (_k, _v) = entry.remove_entry(); } }
        Entry::Vacant(_) => {}
    }
}
// B: `if true` ; claim "never changes" -- must FAIL
fn b(m: &mut HashMap<u64, u64>, k: u64, sid: u64)
    ensures final(m)@ == old(m)@,
{
    match m.entry(k) {
        Entry::Occupied(entry) => { if true { let (_k, _v) = entry.remove_entry(); } }
        Entry::Vacant(_) => {}
    }
}
// C: `if true` ; claim removal -- must PASS
fn c(m: &mut HashMap<u64, u64>, k: u64, sid: u64)
    ensures old(m)@.contains_key(k) ==> final(m)@ == old(m)@.remove(k),
{
    match m.entry(k) {
        Entry::Occupied(entry) => { if true { let (_k, _v) = entry.remove_entry(); } }
        Entry::Vacant(_) => {}
    }
}
// D: runtime condition, exact spec -- must PASS
fn d(m: &mut HashMap<u64, u64>, k: u64, sid: u64)
    ensures old(m)@.contains_key(k) && sid == 7 ==> final(m)@ == old(m)@.remove(k),
            !(old(m)@.contains_key(k) && sid == 7) ==> final(m)@ == old(m)@,
{
    match m.entry(k) {
        Entry::Occupied(entry) => { if sid == 7 { let (_k, _v) = entry.remove_entry(); } }
        Entry::Vacant(_) => {}
    }
}
fn main() {}
}
