use vstd::prelude::*;
verus! {
// ---- stand-ins (trusted): nanosecond naturals ----
pub open spec fn dmax() -> nat { (18446744073709551615 * 1000000000 + 999999999) as nat }
#[derive(Clone, Copy)]
pub struct Duration { pub ns: Ghost<nat> }
#[derive(Clone, Copy)]
pub struct Instant { pub t: Ghost<nat> }
pub open spec fn natmin(a: nat, b: nat) -> nat { if a <= b { a } else { b } }
impl Duration {
    #[verifier::external_body]
    pub fn saturating_mul(self, rhs: u32) -> (r: Duration) ensures r.ns@ == natmin(self.ns@ * rhs as nat, dmax()) { unimplemented!() }
}
pub mod cmp {
    use super::*;
    #[verifier::external_body]
    pub fn min(a: Duration, b: Duration) -> (r: Duration) ensures r.ns@ == natmin(a.ns@, b.ns@) { unimplemented!() }
}
impl vstd::std_specs::ops::AddSpecImpl<Duration> for Instant {
    open spec fn obeys_add_spec() -> bool { true }
    open spec fn add_req(self, rhs: Duration) -> bool { true }
    open spec fn add_spec(self, rhs: Duration) -> Instant { Instant { t: Ghost((self.t@ + rhs.ns@) as nat) } }
}
impl core::ops::Add<Duration> for Instant {
    type Output = Instant;
    #[verifier::external_body]
    fn add(self, rhs: Duration) -> (r: Instant) { unimplemented!() }
}
pub assume_specification<T, E> [Result::<T, E>::unwrap_or] (s: Result<T, E>, d: T) -> (r: T)
    ensures s is Ok ==> r == s->Ok_0, s is Err ==> r == d;
// ---- extracted verbatim (paths rewritten by X5: std::time::Instant -> Instant, std::cmp::min -> cmp::min) ----
pub struct DialBackoffState {
    /// The earliest time in which we should attempt to dial this peer again.
    pub backoff: Instant,
    /// The number of attempts made to dial this peer.
    pub attempts: usize,
}
pub open spec fn clamp32(k: nat) -> nat { if k <= u32::MAX { k } else { u32::MAX as nat } }
impl DialBackoffState {
    fn update(
        &mut self,
        now: Instant,
        backoff_step: Duration,
        max_backoff: Duration,
    )
        requires old(self).attempts < usize::MAX, max_backoff.ns@ <= dmax(),
        ensures final(self).attempts == old(self).attempts + 1,
                final(self).backoff.t@ == now.t@ + natmin(max_backoff.ns@, backoff_step.ns@ * clamp32(final(self).attempts as nat)),
    {
        self.attempts += 1;

        let backoff_duration = cmp::min(
            max_backoff,
            backoff_step.saturating_mul(self.attempts.try_into().unwrap_or(u32::MAX)),
        );

        self.backoff = now + backoff_duration;
    }
}
fn main() {}
}
