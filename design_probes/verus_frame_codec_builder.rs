use vstd::prelude::*;
verus! {
pub struct Builder { pub max: usize, pub lfl: usize, pub be: bool }
pub struct Codec { pub max: usize, pub lfl: usize, pub be: bool }
impl Builder {
    #[verifier::external_body]
    pub fn new() -> (r: Builder) ensures r.max == 8388608, r.lfl == 4, r.be == true { unimplemented!() }
    #[verifier::external_body]
    pub fn max_frame_length(&mut self, v: usize) -> (r: &mut Self)
        ensures r.max == v, r.lfl == old(self).lfl, r.be == old(self).be, *final(self) == *final(r)
    { unimplemented!() }
    #[verifier::external_body]
    pub fn length_field_length(&mut self, v: usize) -> (r: &mut Self)
        ensures r.lfl == v, r.max == old(self).max, r.be == old(self).be, *final(self) == *final(r)
    { unimplemented!() }
    #[verifier::external_body]
    pub fn big_endian(&mut self) -> (r: &mut Self)
        ensures r.be == true, r.max == old(self).max, r.lfl == old(self).lfl, *final(self) == *final(r)
    { unimplemented!() }
    #[verifier::external_body]
    pub fn new_codec(&self) -> (r: Codec) ensures r.max == self.max, r.lfl == self.lfl, r.be == self.be { unimplemented!() }
}
fn mk(limit: Option<usize>) -> (r: Codec)
    ensures r.lfl == 4, r.be, r.max == (if limit is Some { limit.unwrap() } else { 8388608 })
{
    let mut builder = Builder::new();
    if let Some(max_frame_size) = limit {
        builder.max_frame_length(max_frame_size);
    }
    builder.length_field_length(4).big_endian().new_codec()
}
fn main() {}
}
