"""property -> units, scope decided, unverified parts, trust notes (DESIGN.md sections 1, 5, 8)"""
import cex
import validate

CONC = 'mutual exclusion of std::sync::RwLock (each ActivePeers method body is one lock acquisition: checked as a borrow, X8)'

PROPERTIES = {
    'C04': dict(
        units=['active_peers', 'enum_cm'],
        extra=[validate.history_c04, validate.mutual_dial_inflight, validate.backpressure_service],
        canaries=['active_peers'],
        scope='every clause of C04 for every SEQUENTIAL history of operations on the active-peer set: each real mutating function is '
              'proved equal to a spec transition from an arbitrary pre-state; lemmas prove that every transition preserves the '
              'representation invariant (event log strictly replays to the listing; one entry per peer; no stored connection closed; '
              'distinct stable ids), that a snapshot at any point plus later events reproduces the listing, and that the exit of a '
              'replaced/closed connection is a no-op. Linearisation of concurrent callers is the RwLock (assumed).',
        unverified=['interleavings of threads (reduced to sequential histories by the lock, assumed)',
                    'broadcast channel lag: a subscriber slower than the channel capacity receives Lagged',
                    'ActivePeersInner::peers: its body is verified with the pipeline keys().copied().collect() rendered as an assumed generic std function (shape rule X13: every key exactly once); the real pipeline is executed by enum_cm',
                    'quinn stable ids are unique per endpoint (assumption A-sid, precondition fresh(c) of the invariant lemma)',
                    'that InboundRequestHandler::start reaches its tail whenever the connection ends (liveness)'],
        assumptions=[CONC, 'tokio broadcast: send appends, a receiver created under the lock sees exactly the later events'],
    ),
    'C05': dict(
        units=['active_peers', 'kani_tiebreak', 'enum_cm', 'tls_config'],
        canaries=['active_peers', 'tls_config'],
        counterexample=cex.cex_c05,
        extra=[validate.history_c04, validate.mutual_dial_inflight],
        scope='the tie-break keeps the connection dialed by the greater PeerId: proved for the real function over all 2^512 id pairs '
              '(Kani, full domain, real derived Ord) and as a Verus contract; convergence lemmas over the contract of add(): both nodes, '
              'both arrival orders -> same surviving dialer, exactly the loser closed, events New or New,Lost(Requested),New, late exit of '
              'the loser ignored (stable id).',
        unverified=['that both handshakes complete and RPCs succeed afterwards (liveness / quinn)',
                    'delivery order of close notifications is covered only through: any later remove_with_stable_id(loser) is a no-op'],
        assumptions=[CONC, 'the order axiom used by Verus (derived PartialOrd on PeerId = lexicographic on bytes) is PROVED by Kani harness derived_order_is_lexicographic on the real type'],
    ),
    'C07': dict(
        units=['wire', 'kani_wire'],
        canaries=['wire'],
        counterexample=cex.cex_c07,
        extra=[validate.bincode_golden, validate.frame_boundary, validate.decode_sweep, validate.write_sequence, validate.end_to_end_fidelity],
        scope='exact byte layout of requests and responses (writer postcondition independent of the reader: preamble(version) ++ '
              'frame(bincode header) ++ frame(body)), lossless round trip and rejection of every strict prefix as lemmas over writer and reader '
              'contracts, readers accept exactly the valid messages and never panic, extensions never travel and decoded messages start with '
              'none; the 8-byte preamble codec and the closed sets of versions / status codes are proved by Kani over their full input domains.',
        unverified=['bincode 1.3 byte layout of the two raw headers and its inverse law (assumed; golden vectors checked by execution in the thorough tier)',
                    'tokio-util LengthDelimitedCodec framing (assumed contract transcribed from tokio-util 0.7.19; boundary behaviour checked by execution in the thorough tier)',
                    'serde field order = declaration order (structural: the struct declarations are extracted verbatim)'],
        assumptions=['contracts of read/write_version_frame, Version, StatusCode used by the Verus unit are proved by Kani on the same extracted text; the transcription between the two statements is trusted'],
    ),
    'C15': dict(
        units=['wire'],
        canaries=['wire', 'streams'],
        counterexample=cex.cex_c15,
        extra=[validate.frame_boundary, validate.oversize_confined],
        scope='the codec is built from the configuration exactly (4-byte big-endian length, configured maximum = codec limit), the same '
              'function with the same configuration builds reader and writer on both ends of every stream (BiStreamRequestHandler::new, do_rpc), '
              'writers refuse and readers reject frames above the local maximum and deliver frames up to and including it (contracts + lemma). '
              'The clause "with no maximum configured, no size limit is imposed" FAILS on the pinned tree and is recorded as a known finding.',
        unverified=['"error for that RPC only, never a torn-down connection": task / stream isolation is quinn + tokio: NOT under contract; exercised on real networks by the execution check oversize_confined',
                    'strict > comparison inside tokio-util (assumed contract, checked by execution at max and max+1)'],
        assumptions=[],
    ),
    'C06': dict(
        units=['wire', 'kani_wire', 'timeout', 'kani_timeout', 'enum_cm', 'active_peers'],
        canaries=['wire', 'streams', 'active_peers'],
        counterexample=cex.cex_c06,
        extra=[validate.decode_sweep, validate.hostile_streams, validate.hostile_requests, validate.backpressure_service],
        scope='NARROW: every function anemo itself runs on attacker-controlled bytes before the user service is called returns an error instead '
              'of panicking, for every byte string: read_version_frame (Kani, all inputs), read_request / read_response, from_raw, Version::new, '
              'StatusCode::new, try_parse_timeout, both Timeout::call, and BiStreamRequestHandler::handle swallows the error so only that stream ends. '
              'Verus proves panic-freedom as a by-product: every unwrap, expect, index and arithmetic operation in a verified body is an obligation. '
              'The per-connection accept loop (lifted, select! as a nondeterministic choice): ends only on a connection-level error, panics only if a handler task panicked, '
              'one handler task per accepted stream, no await inside an arm (sufficient condition, confirmed by execution). BOUNDED (enum_cm): the connection manager never '
              'panics over every run of 3 connectivity checks in which a peer being dialed may itself connect first and the dial then fails, succeeds or stays in flight.',
        unverified=['panics inside tokio-util, bincode, matchit, quinn, rustls', 'the select! loop of InboundRequestHandler::start and task isolation ("other streams and peers keep being served")',
                    'memory exhaustion (bounded only by the frame limit, see C15)', 'stream-level misbehaviour (reset/stop/finish) and datagrams: quinn'],
        assumptions=[],
    ),
    'C11': dict(
        units=['timeout', 'kani_timeout', 'kani_poll', 'active_peers', 'wire'],
        canaries=['timeout', 'poll', 'streams'],
        counterexample=cex.cex_c11,
        extra=[validate.default_timeouts_wiring],
        scope='the deadline armed for a request is exactly min(local default, timeout header) in both directions, either may be absent, an '
              'unparsable header counts as absent (closure contract), so a remote peer can shorten but never extend or disable the local limit (lemma); '
              'the request reaches the wrapped service exactly once; header parsing and printing; the configured defaults are what the accessors and layers hand to the middleware; '
              'WIRING (tower builders as recorders): the two statements of Builder::start that build the layer stacks put the timeout middleware outermost, armed with the configured default '
              '(outbound: followed only by the user\'s layer; inbound: ending at the user\'s service); every peer handle a network hands out carries that outbound stack (NetworkInner::peer) '
              'and every RPC made through a handle passes it and ends at do_rpc on the handle\'s own connection (Peer::call).',
        unverified=['that tokio actually wakes the future when the timer fires, and drops the handler future when the response future completes (runtime)',
                    'what tower does with a layer stack (the builders are recorders); Peer::call\'s innermost service is a closure returning an async block: replaced by a stand-in ONLY when it has literally the shape |request| peer.do_rpc(request) (rule X12, a trusted syntactic check); the whole path is exercised end to end by the execution check default_timeouts_wiring',
                    'ConnectionManager::new receiving the inbound service stack and handing it to every InboundRequestHandler (plumbing of a value through constructors, not under contract)',
                    'meaning of str::parse::<u64> and u64::to_string (std; uninterpreted, assumed inverse)'],
        assumptions=['tokio::time::sleep(d) arms a timer of duration d (millisecond granularity)'],
    ),
    'C20': dict(
        units=['auth', 'kani_poll', 'enum_glue'],
        canaries=['auth', 'poll'],
        counterexample=cex.cex_c20,
        extra=[validate.auth_scenarios],
        scope='the wrapped service is invoked (exactly once, with the unchanged request) iff the authorizer accepted; a refused request gets exactly the '
              'authorizer\'s response and causes no invocation (ghost call log on the generic Service); the allow-list authorizer implements the '
              'decision of the statement verbatim (listed -> accept, unlisted -> NotFound, no sender -> InternalServerError) and leaves the request untouched; '
              'the service holds no shared mutable state (the authorizer is unchanged by call), so concurrent use through clones is a set of independent sequential calls.',
        unverified=[
                    'AllowedPeers::new (into_iter().collect()): the set holds exactly the given peers (std)',
                    'that the network attaches the authenticated PeerId as the request extension read by peer_id() (C01)'],
        assumptions=['derived Hash/Eq of PeerId obey the hash-set key model'],
    ),
    'C10': dict(
        units=['active_peers', 'wire', 'enum_cm'],
        canaries=['dialing', 'streams'],
        counterexample=cex.cex_c10,
        extra=[validate.admission_scenarios],
        scope='the admission block of handle_incoming_task (lifted) decides exactly as the statement says for every affinity table, limit and '
              'count: Never refused, High/Allowed admitted regardless of the limit, others admitted iff no limit or established connections < limit, '
              'where the count is len() of the active-peer set = all established connections, inbound and outbound alike (C04 contracts); refusal happens '
              'before the acknowledgement handshake; the dial block consults neither the limit nor the active-peer set; a failed dial is reported to the caller as a failure.',
        unverified=['truly simultaneous arrivals (excluded by the property: the check and the registration are two critical sections)',
                    'that the remote dialer observes the refusal (the acknowledgement never arrives and the connection is dropped): distributed, quinn; exercised end to end by the execution check admission_scenarios',
                    'KnownPeers::get (RwLock<HashMap> lookup) is a stand-in'],
        assumptions=[CONC],
    ),
    'C13': dict(
        units=['active_peers', 'enum_cm'],
        canaries=['dialing'],
        extra=[validate.busy_node_still_dials],
        scope='SAFETY clauses only. Back-off: every failure adds one to the count and the next attempt is allowed no sooner than min(max-backoff, k x step) '
              'after the failure was noticed (exact formula, strict comparison in the eligibility filter); who is dialed: the lifted filter closure equals the '
              'statement (High affinity, not self, has an address, not connected, not already being dialed, back-off elapsed); rotation: the lifted loop body dials '
              'address number (failures mod addresses) naming the expected identity and marks the peer as being dialed; cap: number of dials started = min(eligible, cap - connections being established).',
        unverified=['every liveness / timing clause ("keeps dialing until connected", "within one interval plus jitter", "within ... of becoming reachable")',
                    'anything handle_connectivity_check does OUTSIDE the four lifted pieces (the body of the retain closure that drains completed dials, the eligibility closure, the cap expression, the per-peer dial body): '
                    'statements added between them are seen only by the enumeration twin (see seeded change C13-backoff-state-gc-resets-attempts)',
                    'the iterator pipeline known_peers.values().filter(..).cloned().collect() and .take(number_to_dial) around the lifted blocks'],
        assumptions=['Instant + Duration does not overflow; fewer than 2^64 consecutive failures'],
    ),
    'C03': dict(
        units=['active_peers', 'crypto', 'tls_config', 'wire', 'enum_glue', 'enum_certs'],
        canaries=['dialing', 'streams', 'crypto', 'tls_config', 'certs'],
        extra=[validate.history_c03, validate.cert_corpus, validate.stolen_certificate, validate.admission_scenarios],
        counterexample=cex.cex_cert,
        scope='glue only: (a) the pinning verifier accepts a server certificate only if its public key is the expected identity AND the base verifier accepts it, '
              'and proof of key possession (handshake signature) is delegated unchanged to rustls restricted to Ed25519; (b) a dial with an expected identity goes through '
              'connect_with_expected_peer_id(addr, id), one without through connect(addr); (c) a successful result registers the connection in the active-peer set and THEN answers '
              'the caller with exactly the authenticated identity of that connection (ghost notification log with the connected set at that instant); a failure registers nothing and is reported as a failure.',
        unverified=['rustls actually calls the verifier / the TLS handshake itself; the X.509 and pkcs8 parsers behind peer_id_from_certificate',
                    'that the listener never registers a dialer that rejected it (cross-node; only the per-function handshake contract)',
                    'datagram loss during the handshake (quinn)'],
        assumptions=[CONC],
    ),
    'C09': dict(
        units=['active_peers', 'tls_config', 'enum_cm'],
        canaries=['active_peers', 'dialing', 'tls_config'],
        extra=[validate.history_c09, validate.panicking_handler, validate.silent_peer_loss],
        scope='ONE sentence of three: an explicit disconnect removes the peer locally at once (one critical section), closes that connection and appends exactly '
              'LostPeer(peer, Requested); afterwards peer(p) is None and rpc(p, _) fails until a new connection is registered; every way a connection can end is mapped '
              'to its documented reason and a handler exit removes exactly its own entry.',
        unverified=['"A lists B iff B lists A" after quiescence, and propagation of a close / loss to the other side within the idle timeout: time, the remote node, quinn keep-alive',
                    'that every listed peer can be reached by RPC (liveness)'],
        assumptions=[CONC],
    ),
    'C01': dict(
        units=['crypto', 'tls_config', 'wire', 'rpc_status', 'enum_glue', 'enum_certs'],
        canaries=['streams', 'crypto', 'tls_config', 'certs', 'rpc_status'],
        extra=[validate.cert_corpus, validate.stolen_certificate, validate.identity_claims_in_headers],
        counterexample=cex.cex_cert,
        scope='GLUE ONLY (cryptography and the X.509 / pkcs8 parsers are uninterpreted): the identity of a certificate is the Ed25519 key decoded from ITS OWN SubjectPublicKeyInfo and every parser failure is an error; '
              'the server / client TLS configurations handed to quinn install exactly anemo\'s verifiers, the node\'s own certificate and key, TLS 1.3; the node\'s own PeerId is its own public key; '
              'the PeerId of a connection is the public key parsed from the FIRST certificate of '
              'the chain authenticated in that connection\'s own handshake; every handshake-signature callback delegates unchanged to rustls restricted to Ed25519 '
              '(never accepts unconditionally, never widens the algorithm list); client authentication is offered and mandatory; the pinning verifier requires key == expected identity; '
              'the PeerId a handler sees on a request and a caller sees on a response is connection.peer_id(), attached AFTER decoding, and decoding yields empty extensions, so nothing '
              'carried in the message can supply or influence it; the wire headers carry no identity field.',
        unverified=['rustls, webpki, ring, x509-parser, pkcs8 (the actual cryptography and certificate parsing): uninterpreted predicates',
                    'CertVerifier::verify_client_cert / verify_server_cert are proved against webpki as four uninterpreted entry points (unit crypto; their three iterator pipelines rendered by the trusted shape rules X13); additionally BOUNDED enumeration on an executable model of webpki (unit enum_certs) and the execution check cert_corpus',
                    'what rustls / quinn do with the configuration they are handed (the builders are recorders: unit tls_config proves which verifier, certificate, key, versions and server name go in)',
                    'the two statics SUPPORTED_SIG_ALGS / SUPPORTED_ALGORITHMS hold &dyn objects: compared textually with the pinned definition (mismatch = undecided)'],
        assumptions=['rustls reports the peer chain end-entity first and non-empty under mandatory client auth'],
    ),
    'C14': dict(
        technique='contract-based deductive verification (Verus): TLS configuration wiring and the two certificate-verifier bodies against webpki as uninterpreted functions; bounded enumeration twin on an executable webpki model; execution on real networks for SNI / webpki',
        units=['tls_config', 'crypto', 'enum_certs'],
        canaries=['tls_config', 'crypto', 'certs'],
        extra=[validate.network_names, validate.claimed_name_grid, validate.cert_corpus],
        counterexample=cex.cex_names,
        scope='GLUE around webpki / rustls. Proved (Verus, unit tls_config): a dial always asks for the node\'s PRIMARY network name; the node presents a certificate self-signed for that name; the dialer\'s '
              'verifier is anemo\'s CertVerifier configured for exactly the primary name, the listener\'s for the primary (and alternate) name and no other; the TLS configurations install exactly '
              'those verifiers. Proved (Verus, unit crypto, webpki as four uninterpreted entry points): CertVerifier::verify_server_cert accepts a listener\'s certificate ONLY IF webpki validates '
              'it against a trust store holding nothing but that very certificate, with Ed25519 as the only algorithm, for server authentication, the requested name is a DNS name the verifier is '
              'configured for AND the certificate is valid for exactly that name - and accepts whenever all of that holds; CertVerifier::verify_client_cert admits a dialer\'s certificate ONLY IF the '
              'same validation succeeds for client authentication and the certificate is valid for at least one name the listener accepts - and admits whenever that holds (names well-formed); '
              'prepare_for_self_signed (the only trust root is the presented certificate itself), pki_error (total). BOUNDED twin (unit enum_certs, the same real text on an executable model of '
              'webpki, every certificate of the model): accepted iff well-formed, currently valid, SELF-signed Ed25519, usage permitted and the name conditions above.',
        unverified=['SNI resolution in rustls (which certificate a listener presents for a requested name, refusal of unknown names) and subject-name matching / path validation inside webpki (four uninterpreted functions in unit crypto): exercised end to end by the execution check network_names (all ordered pairs of seven networks) and cert_corpus, never proved',
                    'the listener\'s certificate resolver is filled in a loop over (name, certificate) pairs: that its names are exactly the configured ones is not proved (only that every entry carries the node\'s key)',
                    'the three iterator pipelines of the two verifier bodies are rendered as assumed generic functions (shape rules X13, unit crypto docstring); the closures inside them are verified against the contract their shape determines',
                    'a peer that claims one name in the TLS hello while presenting a certificate for another: decided inside rustls / webpki; covered only through the verifier contracts, their bounded twins and cert_corpus'],
        assumptions=['the contracts of webpki\'s four entry points in unit crypto (uninterpreted functions of exactly the arguments handed over)', 'the executable webpki model of unit enum_certs (stated in its docstring)'],
    ),
    'C16': dict(
        technique='contract-based deductive verification (Verus) of the dispatch step against an uninterpreted trie; router construction by bounded exhaustive enumeration of histories on a model of matchit (labelled bounded); the real trie by execution',
        units=['routing', 'enum_router'],
        canaries=['routing'],
        extra=[validate.routing_table, validate.hostile_requests],
        scope='GLUE AROUND THE TRIE. Proved (Verus, unit routing): `impl Service for Router`::call sends a request to exactly the service stored for the id of the pattern the trie selects for its route, '
              'and to the NotFound fallback when the trie selects none; the request is handed over unchanged to exactly one service; routing never changes the router and - as long as every id '
              'the matcher holds has a route - never panics on any route string; RouteMatcher::at is the trie\'s answer; a Route calls (a clone of) its own service once; NotFound answers NotFound; '
              'Router::new is empty with the NotFound fallback. BOUNDED (unit enum_router: the real text of Router::{new, route, add_rpc_service, merge, route_layer, call}, RouteMatcher, RouteId::next, '
              'Route, NotFound, try_downcast compiled natively on a model of matchit): every history of 3 (thorough: 4) operations x 16 route strings against an oracle written from the statement.',
        unverified=['which pattern matches which route string: the third-party matchit trie (uninterpreted in Verus, modelled in enum_router; the execution check routing_table runs the real trie on a table of patterns x route strings)',
                    'Router::{route, add_rpc_service, merge, route_layer}, RouteMatcher::insert, RouteId::next, try_downcast (dyn Any downcasts, iterator pipelines, format!, &str inspection): bounded enumeration and execution only; '
                    'the invariant "every id in the matcher has a route" that Router::call relies on is therefore a precondition in the proof, established only by the bounded and executed checks',
                    'patterns with :name parameters, and the exact treatment of an empty wildcard tail (`/s/` for `/s/*rest`): the statement does not say; the oracle accepts either answer for exactly that case',
                    'that a route-level tower::Layer behaves as a wrapper (tower)'],
        assumptions=['the executable matchit model of unit enum_router (stated in its docstring); BTreeMap as a map; BoxCloneService / Oneshot call the service they wrap'],
    ),
    'C17': dict(
        technique='contract-based deductive verification (Verus) of the four hand-written generic RPC functions with codecs as uninterpreted functions; the generators are run on a finite family of definitions and their output inspected (bounded, by execution)',
        units=['typed_rpc'],
        canaries=['typed_rpc'],
        extra=[validate.codegen_routes, validate.typed_rpc_roundtrip, validate.hostile_requests],
        scope='THE HAND-WRITTEN HALF PROVED, THE GENERATOR ONLY RUN. Proved (Verus, unit typed_rpc, codecs as uninterpreted encode / decode functions, the wrapped service as a call log with an '
              'uninterpreted reply): rpc::client::Rpc::unary sends ONE request with the caller\'s route and headers plus the codec\'s content type and the encoded message (nothing if encoding fails); '
              'a non-success reply comes back as an error status with the reply\'s code, status-message, headers and sender; a success reply that does not decode, or a transport error, as an error status; '
              'otherwise the decoded message under the reply\'s header; rpc::server::Rpc::{map_request, map_response, unary} hand the typed handler exactly the request\'s header and decoded message and send back its '
              'message (encoded, with its status and headers) or its error status with code, message (as status-message) and every header intact; an undecodable request is answered with an error status and never '
              'reaches the handler; Status::{from_error, new_with_message, internal, from_response, into_response}. BOUNDED, by execution (codegen_routes): the real generators of anemo-build run on 480 service '
              'definitions; every generated client method sends to the route whose server arm calls the handler method of the same name, directly under the prefix the router registers.',
        unverified=['the generators themselves (quote! / format! token streams): run on a finite family of definitions and inspected as text, never proved; definitions outside that family (other identifier shapes, more than 3 methods)',
                    'that the generated code compiles and wires IntoRequest / ready() / the per-method layers as intended (the repository\'s own example tests do that)',
                    'the codecs (bincode, json): uninterpreted in the proof; exercised by typed_rpc_roundtrip and hostile_requests',
                    'that `.call(req).await` on the wrapped tower service behaves as the assumed call_and_await (one call, its reply)'],
        assumptions=['StatusCode::is_success() is true exactly for Success (kani_wire::status_closed_set: only 200 lies in 200..=299)'],
    ),
    'C18': dict(
        technique="contract-based deductive verification (Verus) of the constructors and of the lifted async block of call (which semaphore, served holding its own peer's permit, refusals); the limit itself by bounded exhaustive enumeration of schedules over the real async block on a model of tokio's Semaphore (labelled bounded; level model_checking)",
        category='model_checking',   # the deciding part is the bounded enumeration of schedules over the real async block
        units=['limits', 'enum_limits'],
        canaries=['limits'],
        scope='THE LIMITER\'S OWN CODE UNDER EVERY SCHEDULE OF A BOUNDED SIZE; tokio\'s semaphore is a model. Proved (Verus, unit limits): every service built by one InflightLimitLayer shares the layer\'s one per-peer table, '
              'with the layer\'s maximum and wait mode, around exactly the given service; the constructors keep maximum and mode; and the async block of `call` (lifted, tokio\'s Semaphore and DashMap as assumed contracts): '
              'no identity -> InternalServerError without touching table or service; only the entry of the request\'s OWN peer is looked up or created, an existing semaphore is never replaced, a new one has the configured limit; at the moment '
              'the wrapped service is called the request holds a permit of its own peer\'s semaphore; in ReturnError mode no permit -> TooManyRequests (semaphore closed -> InternalServerError) outside the service; the request is served once, unchanged. '
              'HOW MANY permits a semaphore hands out and WHEN a slot comes back (drop order) are not in these contracts. BOUNDED (unit enum_limits): the real `call` (its async block, boxed as it is), the real '
              'constructors and `layer`, compiled natively against a model of tokio::sync::Semaphore and DashMap, driven by a hand scheduler: limit 1 or 2, Block or ReturnError, 3 requests from peer 1 / peer 2 / without identity '
              'through a service, its clone or a second service of the same layer, EVERY schedule of 6 (thorough: 7) actions out of {start, poll, let the wrapped service finish a request, drop a request}: never more than `limit` '
              'requests of a peer inside the wrapped service; below the limit a polled request gets in whatever other peers do; at the limit it waits (Block) or is refused with TooManyRequests without reaching the service '
              '(ReturnError); no identity -> InternalServerError; after everything finished, failed or was dropped each peer has exactly `limit` slots again.',
        unverified=['tokio::sync::Semaphore itself under real concurrency (threads, wake-ups, fairness): a sequential model with the same API; the bound under truly parallel polls is tokio\'s guarantee',
                    'DashMap under concurrent access (a mutex around a list in the model)',
                    'more than 3 requests, 2 peers, limits above 2, schedules longer than the bound',
                    'that `call` holds the permit until the wrapped future ends is observed by execution of the real text under every schedule, not proved (Verus cannot observe drop points)'],
        assumptions=['the executable models of tokio::sync::Semaphore and DashMap in unit enum_limits (stated in its docstring)'],
    ),
    'C12': dict(
        technique='contract-based deductive verification (Verus) of two structural obligations (the stop race in do_handle, reset on drop); a bounded enumeration of schedules for the shipped in-flight limiter; the cross-connection behaviour is decided only by scripted execution on real networks (level other)',
        category='other',      # two structural obligations; the behaviour across the connection is only executed
        units=['wire', 'crypto', 'enum_limits'],
        canaries=['streams'],
        extra=[validate.abandoned_rpcs],
        scope='TWO STRUCTURAL FACTS PROVED, THE REST ONLY EXECUTED. Proved (Verus): in BiStreamRequestHandler::do_handle the service\'s answer is raced against the remote stopping the stream, and when the stop '
              'comes first the exchange ends at once with an error, nothing written, the service\'s future dropped with the frame that owns it (obligation placed in that arm of the select, by shape); a send half dropped '
              'before it was finished is RESET (SendStream::drop), which is how the remote learns that a caller went away. Executed on real networks (abandoned_rpcs): a remote handler that started is dropped within '
              'milliseconds when the caller drops the future or times out; a future dropped before it is polled starts nothing; 40 abandoned RPCs against 4 concurrent streams leave later RPCs and an RPC in flight untouched; '
              '12 RPCs abandoned while the whole service applies back-pressure are never served after the fact. BOUNDED (enum_limits::inflight_schedules): with the in-flight limiter installed, a request dropped at any point of '
              'any schedule gives its slot back (per-request resources of a shipped middleware are released on cancellation).',
        unverified=['WHEN the remote notices (STOP_SENDING / RESET_STREAM delivery, quinn\'s flow control and stream-credit return): only executed, with a margin of a second',
                    'that dropping the caller\'s future drops both stream halves (Rust drop order of an async frame: not observable by either verifier)',
                    'abandonment while the response is being written; datagram loss during the reset'],
        assumptions=['quinn: dropping a RecvStream sends STOP_SENDING and the peer\'s SendStream::stopped() then resolves'],
    ),
    'C19': dict(
        technique="contract-based deductive verification (Verus) of the constructors and of the lifted async block of call (charged to its own peer's key before being served, refusal with positive wait hint); the quota itself by bounded exhaustive enumeration of arrival histories on a model of governor over a virtual clock (labelled bounded; level model_checking)",
        category='model_checking',   # the deciding part is the bounded enumeration of histories over the real async block
        units=['limits', 'enum_limits'],
        canaries=['limits'],
        scope='THE GLUE AROUND governor, WHICH IS A MODEL. Proved (Verus, unit limits): every service built by one RateLimitLayer shares the layer\'s one keyed limiter and wait mode; and the async block of `call` (lifted, governor as an assumed contract: a ghost log of the keys it granted a cell to): '
              'no identity -> InternalServerError, neither limiter nor service reached; the wrapped service is reached only by a request for which the limiter granted exactly one cell under the key of the request\'s OWN peer (full PeerId), once, unchanged; '
              'a request the limiter does not admit never reaches the service and gets TooManyRequests with the wait-nanos header = decimal text of a positive number; Block mode never refuses. HOW MANY cells governor grants in a window is not in these contracts. BOUNDED (unit enum_limits): the real '
              '`call` of RateLimit (its async block, boxed) and the real constructors on a model of governor 0.6 (keyed GCRA) over a virtual clock: quota burst 1 or 2 per 10 time units, Block or ReturnError, every history of 4 '
              'requests from peer 1 / peer 2 / without identity arriving 0 / 4 / 10 / 25 units apart through a service, its clone or a sibling: admissions of one peer within any window never exceed burst + window / period '
              '(checked on the admission times); over quota a request gets TooManyRequests with a positive integer wait-nanos header and never reaches the service (ReturnError) or waits outside the service and gets in '
              'once the quota allows (Block); one peer exhausting its quota changes nothing for the other; no identity -> InternalServerError.',
        unverified=['governor itself (GCRA arithmetic, its clock, its concurrent state store): a sequential model with the same API over a virtual clock; the admitted-count bound under real time and parallel calls is governor\'s guarantee',
                    'that the wait-nanos hint is ACCURATE (only: present, an integer, positive)',
                    'more than 4 requests, 2 peers, other quotas'],
        assumptions=['the executable model of governor in unit enum_limits (stated in its docstring)'],
    ),
    'C08': dict(
        technique='contract-based deductive verification (Verus) of the single-call sentences (calls on a closed network fail; the shutdown request always reaches the manager); everything about task ends, channel closure and socket release is decided only by scripted execution on real networks (level other)',
        category='other',      # obligations about single calls (on a network that is gone; the shutdown request reaching the manager); the property as a whole is only executed
        units=['active_peers', 'enum_cm'],
        canaries=['active_peers'],
        extra=[validate.shutdown_scenarios, validate.panicking_handler],
        scope='TWO SENTENCES PROVED, THE REST ONLY EXECUTED. Proved (Verus, unit active_peers): once the network is gone (its active-peer set can no longer be reached) disconnect() fails and changes nothing, peer() '
              'hands out no handle and rpc() fails instead of being sent; connect() and shutdown() fail on a network whose connection manager is gone (nothing queued), is_closed() reports exactly that; and on a LIVE network shutdown() always '
              'delivers its request to the connection manager whatever else is queued in the mailbox (it waits for room; `try_send` fails the obligation), connect() delivers exactly one request with exactly the address and expected identity named. BOUNDED (enum_cm::shutdown_after_history): the real ConnectionManager::shutdown after every history of 3 registrations / disconnects / handler exits: it closes the endpoint before it waits, never waits for a handler nobody will end, its own assertion holds, and it leaves an empty listing, closed connections and a complete event log. Executed on real networks (shutdown_scenarios): a node with a slow inbound request being served, a slow outbound RPC, a dial hanging on a '
              'silent socket, a background dial to a dead High-affinity peer, a subscriber, a weak reference and two connected peers is shut down explicitly and by dropping its last handle; everything the statement '
              'lists is observed (bound 1 s, address re-bound at once, service clones dropped, LostPeer for every peer then end-of-stream, weak reference dead, remotes notice, pending and later calls fail); the runtime is '
              'torn down at 4 moments with handles alive and used afterwards.',
        unverified=['everything about WHEN and IN WHAT ORDER tasks end, channels close and values are dropped (ConnectionManager::start / shutdown, tokio, quinn): only executed, on one scenario per variant',
                    'ConnectionManager::shutdown asserts that no peer is left once every connection handler has ended: that this cannot fail follows from "every listed connection has a handler whose exit removes it" '
                    '(C04 / C09 obligations and enum_cm::closed_connection_bookkeeping), not from a proof of shutdown itself',
                    'runtime teardown at moments other than the four exercised'],
        assumptions=[CONC],
    ),
    'C02': dict(
        units=['wire', 'kani_wire', 'crypto', 'timeout'],
        canaries=['wire', 'streams', 'crypto', 'timeout'],
        extra=[validate.bincode_golden, validate.rpc_pairing, validate.write_sequence, validate.end_to_end_fidelity],
        scope='PER STREAM ONLY: the caller writes exactly the encoding of its request to the send half of ONE freshly opened bidirectional stream, finishes it, and returns exactly '
              '(status, headers, body) decoded from the receive half of that same stream; the serving side decodes one request from its stream, hands exactly that request to the '
              'service AT MOST ONCE (ghost call log), and writes exactly the encoding of the response the handler produced for it to the send half of the same stream; a malformed '
              'request never reaches the service. Encoding / decoding are the C07 contracts.',
        unverified=['concurrency: arbitrary interleavings of RPCs and handler completion order (each stream has its own task and its own pair of halves: isolation between pairs is QUIC / quinn, ASSUMED)',
                    'datagram loss, reordering, duplication (QUIC reliability, ASSUMED)',
                    'retries layered above do_rpc by callers / middleware (see seeded change C02-retry-on-stream-reset: caught only as "do_rpc now calls an uncontracted helper" = undecided)'],
        assumptions=['quinn: a bidirectional stream delivers the bytes written on one half to the other end\'s receive half of the same stream, in order, exactly once'],
    ),
}

HOOK_COMMITS = ['5546537', '2fcdddd', 'db7a873']
NOTES = ('Every check re-extracts the functions it depends on from /repo\'s working tree, renders them with contracts and runs the verifiers; '
         'exit 0 held, exit 1 VIOLATION, exit 2 undecided (lost anchor / construct the verifier rejects / timeout) - never an alarm.')
PENDING = 'within reach of the technique (DESIGN.md section 5) but its unit is not built yet; not claimed until it runs green with guards'
NOT_APPLICABLE = {
}
