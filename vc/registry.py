"""property -> units, scope, unverified parts (DESIGN.md sections 1 and 5)"""
PROPERTIES = {
    'C04': dict(units=['active_peers'], scope='', unverified=[], assumptions=[]),
}
