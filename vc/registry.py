"""property -> units, scope decided, unverified parts, trust notes (DESIGN.md sections 1, 5, 8)"""
import cex

CONC = 'mutual exclusion of std::sync::RwLock (each ActivePeers method body is one lock acquisition: checked as a borrow, X8)'

PROPERTIES = {
    'C04': dict(
        units=['active_peers'],
        thorough_units=['kani_peers_bounded'],
        canaries=['active_peers'],
        scope='every clause of C04 for every SEQUENTIAL history of operations on the active-peer set: each real mutating function is '
              'proved equal to a spec transition from an arbitrary pre-state; lemmas prove that every transition preserves the '
              'representation invariant (event log strictly replays to the listing; one entry per peer; no stored connection closed; '
              'distinct stable ids), that a snapshot at any point plus later events reproduces the listing, and that the exit of a '
              'replaced/closed connection is a no-op. Linearisation of concurrent callers is the RwLock (assumed).',
        unverified=['interleavings of threads (reduced to sequential histories by the lock, assumed)',
                    'broadcast channel lag: a subscriber slower than the channel capacity receives Lagged',
                    'ActivePeersInner::peers (keys().copied().collect()) is an assumed contract in Verus; bounded Kani stand-in in the thorough tier',
                    'quinn stable ids are unique per endpoint (assumption A-sid, precondition fresh(c) of the invariant lemma)',
                    'that InboundRequestHandler::start reaches its tail whenever the connection ends (liveness)'],
        assumptions=[CONC, 'tokio broadcast: send appends, a receiver created under the lock sees exactly the later events'],
    ),
    'C05': dict(
        units=['active_peers', 'kani_tiebreak'],
        canaries=['active_peers'],
        counterexample=cex.cex_c05,
        scope='the tie-break keeps the connection dialed by the greater PeerId: proved for the real function over all 2^512 id pairs '
              '(Kani, full domain, real derived Ord) and as a Verus contract; convergence lemmas over the contract of add(): both nodes, '
              'both arrival orders -> same surviving dialer, exactly the loser closed, events New or New,Lost(Requested),New, late exit of '
              'the loser ignored (stable id).',
        unverified=['that both handshakes complete and RPCs succeed afterwards (liveness / quinn)',
                    'delivery order of close notifications is covered only through: any later remove_with_stable_id(loser) is a no-op'],
        assumptions=[CONC, 'the order axiom used by Verus (derived PartialOrd on PeerId = lexicographic on bytes) is PROVED by Kani harness derived_order_is_lexicographic on the real type'],
    ),
}

HOOK_COMMITS = ['5546537']
NOTES = ('Every check re-extracts the functions it depends on from /repo\'s working tree, renders them with contracts and runs the verifiers; '
         'exit 0 held, exit 1 VIOLATION, exit 2 undecided (lost anchor / construct the verifier rejects / timeout) - never an alarm.')
PENDING = 'within reach of the technique (DESIGN.md section 5) but its unit is not built yet; not claimed until it runs green with guards'
NOT_APPLICABLE = {
    'C01': PENDING, 'C02': PENDING, 'C03': PENDING, 'C06': PENDING, 'C07': PENDING, 'C09': PENDING, 'C10': PENDING, 'C11': PENDING,
    'C13': PENDING, 'C15': PENDING, 'C20': PENDING,
    'C08': 'shutdown: task joins, channel closure, socket release and runtime teardown at every point in time; no function-level contract expresses it and neither verifier models tokio tasks or Drop ordering (DESIGN.md section 6)',
    'C12': 'cancellation: when a remote handler is dropped relative to a caller\'s cancellation and QUIC stream credit return are scheduling + quinn flow control; nothing in reach decides a sentence of it (section 6)',
    'C14': 'network names: decided inside rustls SNI resolver / webpki name matching reached through iterator+closure pipelines Verus rejects and Kani cannot execute (X.509 parsing, anyhow) (section 6)',
    'C16': 'routing: matching is the third-party matchit trie; router construction uses dyn Any downcasts, boxed trait objects, BTreeMap: outside both verifiers (section 6)',
    'C17': 'generated clients: quantifies over programs built with quote!/format! token streams; no verifier here reasons about proc-macro output (section 6)',
    'C18': 'in-flight limit: the bound is the tokio semaphore under concurrency and implicit-Drop timing of permits; Kani has no threads, Verus cannot observe drop points (section 6)',
    'C19': 'rate limit: the admitted-count bound is governor\'s GCRA over real time; only one sequential clause is in reach, which would leave the property undecided (section 6)',
}
