"""Canaries (DESIGN 3.4-4): deliberate property-breaking edits of the SOURCE TEXT, applied to a scratch overlay copy of
the crates' src directories (never to /repo), pushed through the whole pipeline.  Each must turn at least one of the
named obligations red.  A surviving canary means a contract has become too weak to be believed -> undecided."""
import concurrent.futures as cf
import os
import shutil

import driver

SRC_DIRS = ['crates/anemo/src', 'crates/anemo-tower/src']


def make_overlay(repo, dest, edits):
    if os.path.exists(dest):
        shutil.rmtree(dest)
    for d in SRC_DIRS:
        shutil.copytree(os.path.join(repo, d), os.path.join(dest, d))
    for ed in edits:
        (rel, old, new) = ed[:3]
        p = os.path.join(dest, rel)
        s = open(p).read()
        if len(ed) > 3:
            # (rel, old, new, (k, n)): the k-th of exactly n occurrences
            k, n = ed[3]
            if s.count(old) != n:
                raise driver.Undecided('canary anchor found %d times in %s (expected %d): %r' % (s.count(old), rel, n, old[:60]))
            parts = s.split(old)
            open(p, 'w').write(old.join(parts[:k + 1]) + new + old.join(parts[k + 1:]))
            continue
        if s.count(old) != 1:
            raise driver.Undecided('canary anchor found %d times in %s: %r' % (s.count(old), rel, old[:60]))
        open(p, 'w').write(s.replace(old, new))


def run_canary(cn, repo, cache):
    """cn: dict(id, unit, edits=[(rel, old, new)], expect=[obligation ids or prefixes])"""
    root = os.path.join(cache, 'canary', cn['id'])
    try:
        make_overlay(repo, os.path.join(root, 'repo'), cn['edits'])
        r = driver.run_unit(cn['unit'], 'quick', repo=os.path.join(root, 'repo'), cache=os.path.join(root, 'cache'), probes=False)
        failed = [o['id'] for o in r['obligations'] if o['status'] == 'failed']
        killed = any(any(f == e or f.startswith(e) for e in cn['expect']) for f in failed)
        unreached = [o['id'] for o in r['obligations'] if o['status'] == 'unreached' and any(o['id'] == e or o['id'].startswith(e) for e in cn['expect'])]
        status, reason = r['status'], r.get('reason')
        if not killed and unreached and status == 'ok':
            # the edit pushed the target function out of the verifier's reach: says nothing about the contract's strength
            status, reason = 'inconclusive', 'target obligation(s) unreached after the edit: %s' % ', '.join(unreached[:3])
        res = dict(id=cn['id'], unit=cn['unit'], killed=killed, failed=failed, status=status, reason=reason,
                   what=cn.get('what', ''))
    except driver.Undecided as e:
        res = dict(id=cn['id'], unit=cn['unit'], killed=False, failed=[], status='undecided', reason=str(e), what=cn.get('what', ''))
    finally:
        shutil.rmtree(root, ignore_errors=True)
    return res


def run_canaries(canaries, repo=None, cache=None, workers=8):
    repo = repo or driver.REPO
    cache = cache or driver.CACHE
    with cf.ThreadPoolExecutor(max_workers=workers) as ex:
        return list(ex.map(lambda c: run_canary(c, repo, cache), canaries))
