"""Assumption validation by EXECUTION on the real crates (DESIGN 3.4-6).  The proofs assume contracts for bincode and
tokio-util; these checks exercise the real dependencies through the hooks at the points the contracts talk about.
They are reported under coverage.extra_checks, never counted as obligations.  A failure carries a concrete input that was
run on the real code, so it is reported as a violation of the clause it instantiates (with that input as the replay)."""
import os
import re
import struct

import replaylib
from driver import Undecided


def _run(s, a, env, timeout=300):
    try:
        return replaylib.run(s, a, repo=env['repo'], timeout=timeout)
    except replaylib.ReplayUnavailable as e:
        raise Undecided('replay crate unavailable for assumption validation: %s' % e)


def be32(n):
    return struct.pack('>I', n)


def bincode_str(s):
    b = s.encode()
    return struct.pack('<Q', len(b)) + b


def bincode_req_header(route, headers):
    out = bincode_str(route) + struct.pack('<Q', len(headers))
    for k, v in headers.items():
        out += bincode_str(k) + bincode_str(v)
    return out


def bincode_resp_header(status, headers):
    out = struct.pack('<H', status) + struct.pack('<Q', len(headers))
    for k, v in headers.items():
        out += bincode_str(k) + bincode_str(v)
    return out


PREAMBLE = b'anemo\x00\x01\x00'


def bincode_golden(env):
    """layout of whole messages against bytes computed independently from the statement of C07 (+ bincode 1.3 layout)"""
    cases = []
    fails = []
    for (route, headers, body) in [('/', {}, b''), ('/svc/method', {'timeout': '1500'}, b'\x01\x02\x03'), ('', {'k': ''}, bytes(range(200))),
                                   ('/é', {}, b'x' * 70000), ('/Mixed/Case', {'X-Trace-Id': 'A', 'x-trace-id': 'b', 'Accept': 'Yes'}, b'Body')]:
        want = PREAMBLE + be32(len(bincode_req_header(route, headers))) + bincode_req_header(route, headers) + be32(len(body)) + body
        got = _run('write_request', dict(route=route, headers=headers, body=list(body), with_extension=True), env)
        if len(headers) > 1:
            # a header map with several entries is written in the map's iteration order: only the length is comparable; the READ direction below is exact
            ok = got.get('ok') and got.get('len') == len(want)
        else:
            ok = got.get('ok') and got.get('len') == len(want) and (got.get('bytes') is None or got['bytes'] == want.hex()) and want.hex().startswith(got.get('head', 'x'))
        cases.append(dict(kind='request', route=route, headers=headers, body_len=len(body), ok=bool(ok)))
        if not ok:
            fails.append(dict(scenario='write_request', args=dict(route=route, headers=headers, body=list(body[:64])), expected=dict(bytes=want.hex()[:400]), observed=got))
        back = _run('read_request', dict(bytes=want.hex()), env)
        ok2 = back.get('ok') and back.get('route') == route and back.get('headers') == headers and bytes(back.get('body', [])) == body and back.get('extensions_empty') is True and back.get('version') == 1
        cases.append(dict(kind='request-read', route=route, ok=bool(ok2)))
        if not ok2:
            fails.append(dict(scenario='read_request', args=dict(bytes=want.hex()[:400]), expected=dict(route=route, headers=headers, body_len=len(body), extensions_empty=True), observed=back))
    for (status, headers, body) in [(200, {}, b''), (404, {'status-message': 'nope'}, b'\xff'), (520, {}, b'q' * 1000), (429, {'Retry-After': '1', 'retry-after': '2'}, b'Wait')]:
        want = PREAMBLE + be32(len(bincode_resp_header(status, headers))) + bincode_resp_header(status, headers) + be32(len(body)) + body
        got = _run('write_response', dict(status=status, headers=headers, body=list(body), with_extension=True), env)
        ok = got.get('ok') and (got.get('bytes') == want.hex() or (len(headers) > 1 and got.get('len') == len(want)))      # several headers: iteration order of the map
        cases.append(dict(kind='response', status=status, ok=bool(ok)))
        if not ok:
            fails.append(dict(scenario='write_response', args=dict(status=status, headers=headers, body=list(body[:64])), expected=dict(bytes=want.hex()[:400]), observed=got))
        back = _run('read_response', dict(bytes=want.hex()), env)
        ok2 = back.get('ok') and back.get('status') == status and back.get('headers') == headers and bytes(back.get('body', [])) == body and back.get('extensions_empty') is True
        cases.append(dict(kind='response-read', status=status, ok=bool(ok2)))
        if not ok2:
            fails.append(dict(scenario='read_response', args=dict(bytes=want.hex()[:400]), expected=dict(status=status, headers=headers, body_len=len(body)), observed=back))
    # unknown status code / unknown version / strict prefixes on the real decoder
    bad = PREAMBLE + be32(len(bincode_resp_header(299, {}))) + bincode_resp_header(299, {}) + be32(0)
    back = _run('read_response', dict(bytes=bad.hex()), env)
    cases.append(dict(kind='unknown-status-rejected', ok=back.get('ok') is False))
    if back.get('ok') is not False:
        fails.append(dict(scenario='read_response', args=dict(bytes=bad.hex()), expected=dict(ok=False), observed=back))
    good = PREAMBLE + be32(len(bincode_req_header('/a', {}))) + bincode_req_header('/a', {}) + be32(2) + b'hi'
    for k in range(len(good)):
        back = _run('read_request', dict(bytes=good[:k].hex()), env) if k in (0, 1, 7, 8, 9, 11, 12, 13, len(good) - 3, len(good) - 1) else dict(ok=False)
        if back.get('ok') is not False:
            fails.append(dict(scenario='read_request', args=dict(bytes=good[:k].hex()), expected=dict(ok=False), observed=back))
    cases.append(dict(kind='strict-prefixes-rejected', ok=not any(f['scenario'] == 'read_request' and f['expected'] == dict(ok=False) for f in fails)))
    return dict(name='bincode_golden', validates='bincode 1.3 layout of RawRequestHeader / RawResponseHeader, tokio-util length prefix, preamble; on the real code',
                cases=len(cases), failed=fails, ok=not fails, props=['C07', 'C02'],
                clause='bytes produced follow the established layout; decoding reproduces route/status, headers, body; extensions never travel')


def frame_boundary(env):
    """tokio-util compares with strict '>' on encode and decode: max delivered intact, max+1 refused (by sender / by receiver)"""
    fails, cases = [], 0
    for n in (1, 64, 1000, 65536):
        for (sender, receiver, body, want) in [
            (n, n, n, 'delivered'), (n, n, n + 1, 'sender-refuses'), (None, n, n, 'delivered'), (None, n, n + 1, 'receiver-refuses'),
            (n, None, n, 'delivered'), (n, None, n + 1, 'sender-refuses'), (n, n, max(n - 1, 0), 'delivered'),
        ]:
            hdr = len(bincode_req_header('/', {}))
            if n < hdr:
                continue   # the header frame itself would exceed the limit
            a = dict(sender=dict(max_frame_size=sender), receiver=dict(max_frame_size=receiver), body_len=body)
            for scen in ('roundtrip_request', 'roundtrip_response'):
                got = _run(scen, a, env)
                cases += 1
                if want == 'delivered':
                    ok = got.get('sent') and got.get('received') and got.get('body_intact') and got.get('body_len') == body
                elif want == 'sender-refuses':
                    ok = got.get('sent') is False
                else:
                    ok = got.get('sent') is True and got.get('received') is False
                if not ok:
                    fails.append(dict(scenario=scen, args=a, expected=dict(outcome=want), observed=got))
    # the limit applies to the HEADER frame as well: an oversized header is refused by the sender; with the limit on the receiver only, on arrival
    for n in (64, 1000):
        big = 'x' * (n + 10)
        for (sender, receiver, want) in [(n, None, 'sender-refuses'), (n, n, 'sender-refuses'), (None, n, 'receiver-refuses'), (None, None, 'delivered')]:
            for (scen, a) in (('roundtrip_request', dict(route='/' + big, body_len=1)), ('roundtrip_response', dict(status=200, headers={'k': big}, body_len=1))):
                a = dict(a, sender=dict(max_frame_size=sender), receiver=dict(max_frame_size=receiver))
                got = _run(scen, a, env)
                cases += 1
                if want == 'delivered':
                    ok = got.get('sent') and got.get('received') and got.get('body_intact')
                elif want == 'sender-refuses':
                    ok = got.get('sent') is False
                else:
                    ok = got.get('sent') is True and got.get('received') is False
                if not ok:
                    fails.append(dict(scenario=scen, args=dict(a, note='oversized HEADER frame (%d bytes over a limit of %s)' % (n + 10, n)), expected=dict(outcome=want), observed=got))
    return dict(name='frame_boundary', validates='tokio-util LengthDelimitedCodec boundary (strict >) through the real codec built by network_message_frame_codec',
                cases=cases, failed=fails, ok=not fails, props=['C15'],
                clause='anything up to and including the configured maximum is delivered intact; anything above is refused by the sender before transmission and by the receiver on arrival')


ADMISSION_SCENARIOS = [
    dict(limit=1, steps=[dict(dir='out'), dict(dir='in'), dict(dir='in', affinity='allowed'), dict(dir='in', affinity='never'), dict(dir='in', affinity='high'), dict(dir='out')]),
    dict(limit=1, steps=[dict(dir='in'), dict(dir='in'), dict(dir='in', affinity='high'), dict(dir='in', affinity='allowed'), dict(dir='in')]),
    dict(limit=2, steps=[dict(dir='out'), dict(dir='in'), dict(dir='in'), dict(dir='in', affinity='allowed')]),
    dict(limit=0, steps=[dict(dir='in'), dict(dir='in', affinity='allowed'), dict(dir='out'), dict(dir='in', affinity='never')]),
    dict(limit=None, steps=[dict(dir='in'), dict(dir='in'), dict(dir='in', affinity='never'), dict(dir='in')]),
    # arrivals whose acknowledgement handshake stalls until the connect timeout cancels it: they are never established, so they must not count
    dict(limit=1, connect_timeout_ms=400, steps=[dict(dir='in_stalled'), dict(dir='in_stalled'), dict(dir='in'), dict(dir='in')]),
    dict(limit=2, connect_timeout_ms=400, steps=[dict(dir='in'), dict(dir='in_stalled'), dict(dir='in'), dict(dir='in')]),
    # arrivals while the node's own dials hang and fill its cap on connections being established: admission does not depend on them
    dict(limit=None, connect_timeout_ms=6000, outstanding_cap=1, hanging_explicit_dials=1, steps=[dict(dir='in', affinity='allowed'), dict(dir='in'), dict(dir='in', affinity='never'), dict(dir='in', affinity='high')]),
    dict(limit=1, connect_timeout_ms=6000, outstanding_cap=1, hanging_background_dial=True, steps=[dict(dir='in', affinity='high'), dict(dir='in'), dict(dir='in', affinity='allowed')]),
    # every affinity BELOW the limit, then at it
    dict(limit=3, steps=[dict(dir='in', affinity='never'), dict(dir='in'), dict(dir='in', affinity='never'), dict(dir='in', affinity='high'), dict(dir='in'), dict(dir='in'), dict(dir='in', affinity='never'), dict(dir='in', affinity='allowed')]),
]


def admission_expected(limit, steps):
    est, out = 0, []
    for st in steps:
        if st['dir'] == 'out':
            ok = True
        elif st['dir'] == 'in_stalled':
            ok = False      # never completes the handshake: not established, the dialer's connect fails
        else:
            aff = st.get('affinity')
            ok = False if aff == 'never' else True if aff in ('high', 'allowed') else (limit is None or est < limit)
        out.append(ok)
        est += 1 if ok else 0
    return out


def admission_scenarios(env):
    """C10 on real networks over loopback: sequences of non-overlapping arrivals and explicit dials, every limit/affinity combination
    of the table above; an inbound arrival is admitted (dialer's connect succeeds, listed, RPC works) exactly when the statement says so"""
    fails, cases = [], 0
    for sc in ADMISSION_SCENARIOS:
        got = _run('admission', sc, env)
        exp = admission_expected(sc['limit'], sc['steps'])
        cases += len(exp)
        steps = got.get('steps') or []
        bad = [i for i, e in enumerate(exp) if i >= len(steps) or steps[i].get('connect_ok') != e or steps[i].get('listed') != e]
        if bad:
            fails.append(dict(scenario='admission', args=sc, expected=dict(admitted_per_step=exp, first_wrong_step=bad[0]), observed=got))
    return dict(name='admission_scenarios', validates='the admission decision end to end on real networks (TLS + acknowledgement handshake + registration), which the lifted block contract cannot see',
                cases=cases, failed=fails, ok=not fails, props=['C10', 'C03'],
                clause='Never -> never admitted; High/Allowed -> always admitted; others -> admitted iff no limit or established (in and out) < limit; explicit dials are never blocked; a rejected dialer sees its connect fail')


def default_timeouts_wiring(env):
    """C11 wiring on real networks (loopback, real time, wide margins: defaults 150 ms vs a 1500 ms handler, accepted if cut off before 1200 ms)"""
    fails, cases = [], 0
    for order in ('no_layer', 'config_then_layer', 'layer_then_config'):
        for (sc, want) in [
            (dict(order=order, client_outbound_ms=150, handler_ms=1500), 'client-timeout'),
            (dict(order=order, server_inbound_ms=150, handler_ms=1500), 'server-408'),
            (dict(order=order, client_outbound_ms=150, server_inbound_ms=150, handler_ms=10), 'success'),
            (dict(order=order, handler_ms=300), 'success'),
        ] + ([
            # the deadline covers the WHOLE call, including the wait for a stream the remote has no credit left for
            (dict(order=order, client_outbound_ms=600, handler_ms=4000, server_bidi_streams=1, earlier_calls=1, within_ms=1000), 'client-timeout'),
        ] if order == 'no_layer' else []):
            limit = sc.get('within_ms', 1200)
            got = _run('default_timeouts', sc, env)
            cases += 1
            if want == 'client-timeout' and not (got.get('outcome') == 'error' and got.get('elapsed_ms', 10**9) < limit):
                got = _run('default_timeouts', sc, env)       # real time on a shared machine: once more before it is believed
            if want == 'client-timeout':
                ok = got.get('outcome') == 'error' and got.get('elapsed_ms', 10**9) < limit
            elif want == 'server-408':
                ok = got.get('outcome') == 'response' and got.get('status') == 408 and got.get('elapsed_ms', 10**9) < 1200
            else:
                ok = got.get('outcome') == 'response' and got.get('status') == 200
            if not ok:
                fails.append(dict(scenario='default_timeouts', args=sc, expected=dict(outcome=want), observed=got))
    # the serving side alone (the caller is not anemo and enforces nothing): the header counts with and without a configured inbound default
    for (sc, want) in [(dict(handler_ms=2000, header_ms=300), 408), (dict(handler_ms=2000, header_ms=300, server_inbound_ms=5000), 408),
                       (dict(handler_ms=2000, header_ms=5000, server_inbound_ms=300), 408), (dict(handler_ms=100, header_ms=5000), 200), (dict(handler_ms=100), 200)]:
        got = _run('header_only_deadline', sc, env)
        cases += 1
        ok = got.get('outcome') == 'response' and got.get('status') == want and (want == 200 or got.get('elapsed_ms', 10**9) < 1300)
        if not ok:
            fails.append(dict(scenario='header_only_deadline', args=sc, expected=dict(outcome='response', status=want, note='cut off at min(default, header) although the caller enforces nothing' if want == 408 else ''), observed=got))
    return dict(name='default_timeouts_wiring', validates='Builder::start installs the timeout layers with the configured defaults around the user service and around every outbound call, whatever the order of builder calls',
                cases=cases, failed=fails, ok=not fails, props=['C11'],
                clause='the configured defaults take effect on every RPC made through a network: a handler needing more is cut off at that deadline (RequestTimeout on the serving side, a timeout error on the calling side)')


def rpc_pairing(env):
    """C02 on real networks over loopback: concurrent RPCs in both directions with handlers completing out of order; and a fault after
    the handler ran (response larger than the server's frame limit): no request is ever handled more than once"""
    fails, cases = [], 0
    for sc in (dict(n=16), dict(n=40), dict(n=6, oversized_response=True)):
        got = _run('rpc_pairing', sc, env)
        cases += 1
        ok = got.get('mismatched') == [] and got.get('max_handler_invocations_per_request', 99) <= 1
        if sc.get('oversized_response'):
            ok = ok and got.get('errors', 0) >= 1      # the callers whose response could not be sent see an error, not a wrong response
        else:
            ok = ok and got.get('errors') == 0 and got.get('requests_handled') == sc['n']
        if not ok:
            fails.append(dict(scenario='rpc_pairing', args=sc, expected=dict(mismatched=[], max_handler_invocations_per_request=1), observed=got))
    return dict(name='rpc_pairing', validates='stream-per-request isolation of quinn and the pairing of request and response under concurrency (ASSUMED by the contracts); at-most-once handling under a fault after the handler ran',
                cases=cases, failed=fails, ok=not fails, props=['C02'],
                clause='each RPC yields its own response or an error; responses are never swapped; no request is delivered to a handler more than once')


def end_to_end_fidelity(env):
    """C02 / C07 end to end on real networks with both default timeouts configured: 68 calls with header maps of 0..300 entries (incl. a `timeout`
    header longer / shorter than the defaults), request bodies of 0..2 000 000 bytes and response bodies up to 3 MB, every error status, response header maps of 0..300 entries, both directions"""
    got = _run('end_to_end_fidelity', {}, env, timeout=240)
    fails = []
    if got.get('panicked'):
        fails.append(dict(scenario='end_to_end_fidelity', args={}, expected=dict(note='no panic'), observed=got))
    for b in got.get('bad') or []:
        fails.append(dict(scenario='end_to_end_fidelity', args=b['case'], expected=dict(note='the handler receives exactly (route, headers, body) as sent; the caller receives exactly (status, headers, body) as produced'), observed=b))
    if not fails and got.get('calls') != 68:
        raise Undecided('end_to_end_fidelity scenario made %s calls' % got.get('calls'))
    return dict(name='end_to_end_fidelity', validates='the whole path between Network::rpc and the handler on real networks with every built-in middleware active (the contracts cover do_rpc / do_handle and each middleware separately)',
                cases=int(got.get('calls') or 0), failed=fails, ok=not fails, props=['C02', 'C07'],
                clause='every RPC that completes successfully returns exactly the response (status, headers, body) the remote handler produced for exactly the request (route, headers, body) the caller sent')


_HIST = {}


def _history(env, swap):
    key = (env['repo'], swap)
    if key not in _HIST:
        _HIST[key] = _run('history', dict(swap=swap), env)
    return _HIST[key]


def _replay_events(snapshot, events):
    cur = set(snapshot)
    for e in events:
        if 'new' in e:
            if e['new'] in cur:
                return None
            cur.add(e['new'])
        else:
            if e['lost'] not in cur:
                return None
            cur.discard(e['lost'])
    return sorted(cur)


def _history_check(env, name, props, clause, pred):
    fails, cases = [], 0
    for swap in (False, True):
        got = _history(env, swap)
        cases += 1
        why = pred(got) if got.get('steps') else 'scenario did not run: %s' % str(got)[:200]
        if why:
            fails.append(dict(scenario='history', args=dict(swap=swap), expected=dict(violated=why), observed=got))
    return dict(name=name, validates='a scripted history on real networks over loopback (A dials B naming B; A dials C\'s address naming B; A dials C unnamed; B dials A back; A disconnects C), once for each order of the two identities',
                cases=cases, failed=fails, ok=not fails, props=props, clause=clause)


def history_c03(env):
    def pred(g):
        s = g['steps']
        if not (s[0]['ok'] and s[0]['returned_is_b'] and s[0]['a_lists_b_on_return']):
            return 'a dial naming the identity at that address must succeed, return exactly it and have it listed on return'
        if s[1]['ok'] or s[1]['a_lists_c'] or s[1]['c_lists_a']:
            return 'a dial naming B that is answered by C must fail and neither side may list the other because of it'
        s2b = [x for x in s if x['step'] == "A dials B's address naming C"]
        if not s2b or s2b[0]['ok'] or s2b[0]['a_lists_c'] or not s2b[0]['a_still_lists_b']:
            return 'a second dial of the SAME address naming another identity must fail (the party answering there is still B) and change nothing'
        s2c = [x for x in s if x['step'].startswith("A dials B's address twice at once")]
        if not s2c or s2c[0]['pinned_ok'] or s2c[0]['a_lists_c'] or not s2c[0]['a_still_lists_b']:
            return 'of two simultaneous dials of one address, the one naming an identity that is not the party answering there must fail'
        s3 = [x for x in s if x['step'] == 'A dials C unnamed'][0]
        if not (s3['ok'] and s3['returned_is_c'] and s3['a_lists_c_on_return']):
            return 'an unnamed dial returns the identity of the party actually reached, which is listed on return'
        return None
    return _history_check(env, 'history_c03', ['C03'], 'a dial that names an identity reaches only that identity; any successful dial returns the identity reached, already in the connected set', pred)


def history_c04(env):
    def pred(g):
        r = _replay_events(g['snapshot'], g['events_on_a'])
        if r is None:
            return 'events do not strictly alternate NewPeer / LostPeer per peer'
        if r != g['final_listing_on_a']:
            return 'snapshot + events replays to %s but the listing is %s' % (r, g['final_listing_on_a'])
        if len(set(g['final_listing_on_a'])) != len(g['final_listing_on_a']):
            return 'duplicate in the listing'
        s = [x for x in g['steps'] if x['step'] == 'B dials A (mutual)'][0]
        if s['a_lists_b'] != 1 or s['b_lists_a'] != 1 or not s['rpc_a_to_b'] or not s['rpc_b_to_a']:
            return 'after a mutual dial each side must list the other exactly once and RPCs must work both ways'
        return None
    return _history_check(env, 'history_c04_c05', ['C04', 'C05'], 'the event stream is an exact change log of the listing; a mutual dial leaves exactly one shared connection', pred)


def mutual_dial_inflight(env):
    """C05 / C04 on real networks: one side dials, requests are put in flight over that connection through Network::rpc (none / from either side /
    from both), then the other side dials back; both key orders"""
    got = _run('mutual_dial_inflight', {}, env, timeout=240)
    fails = []
    if got.get('panicked'):
        fails.append(dict(scenario='mutual_dial_inflight', args={}, expected=dict(note='no panic'), observed=got))
    runs = got.get('runs') or []
    for r in runs:
        why = None
        if not r['first_dial_ok']:
            why = 'the first dial failed'
        elif r['first_lists_second'] != 1 or r['second_lists_first'] != 1 or not r['rpc_first_to_second'] or not r['rpc_second_to_first']:
            why = 'after a mutual dial each side must list the other exactly once and RPCs must work both ways, whatever was in flight on the connection that lost the tie-break'
        else:
            for side in ('first', 'second'):
                rep = _replay_events(r[side]['snapshot'], r[side]['events'])
                if rep is None or sorted(rep) != sorted(r[side]['listing']):
                    why = 'the event stream of the %s node does not replay to its listing' % side
        if why:
            fails.append(dict(scenario='mutual_dial_inflight', args=dict(first_key=r['first_key'], second_key=r['second_key'], in_flight_from_first=r['in_flight_from_first'], in_flight_from_second=r['in_flight_from_second']),
                              expected=dict(violated=why), observed=r))
    if not fails and len(runs) != 8:
        raise Undecided('mutual_dial_inflight scenario reported %d runs' % len(runs))
    return dict(name='mutual_dial_inflight', validates='real networks over loopback: dial, requests in flight (4 patterns), dial back; both orders of the two identities', cases=len(runs), failed=fails, ok=not fails,
                props=['C05', 'C04'], clause='a mutual dial leaves exactly one shared connection on which RPCs succeed in both directions; the end of the replaced connection (and of requests still in flight on it) never removes or disturbs its replacement')


def history_c09(env):
    def pred(g):
        s = [x for x in g['steps'] if x['step'] == 'A disconnects C'][0]
        if not s['ok'] or s['a_lists_c_after'] or s['rpc_to_c_after']:
            return 'an explicit disconnect removes the peer at once and later RPCs to it fail'
        lost = [e for e in g['events_on_a'] if e.get('lost') == g['ids']['c']]
        if len(lost) != 1 or lost[0]['reason'] != 'Requested':
            return 'an explicit disconnect announces exactly one LostPeer(peer, Requested)'
        if not s['c_reports_a_lost']:
            return 'the other side did not report the connection lost within a second'
        return None
    return _history_check(env, 'history_c09', ['C09'], 'an explicit disconnect removes the peer locally at once with LostPeer(Requested), later RPCs fail, and the other side reports the loss', pred)


def panicking_handler(env):
    """C09 on real networks (idle timeout 1.5 s): the application code serving one request panics on one of three connected nodes; 2.5 s later every
    ordered pair of nodes must have mutual views and every listed peer must answer an RPC"""
    got = _run('panicking_handler', {}, env, timeout=120)
    fails = []
    if got.get('panicked'):
        fails.append(dict(scenario='panicking_handler', args={}, expected=dict(note='the scenario finishes'), observed=got))
    views = got.get('views') or []
    for v in views:
        if v['x_lists_y'] != v['y_lists_x'] or (v['x_lists_y'] and not v['x_reaches_y_by_rpc']):
            fails.append(dict(scenario='panicking_handler', args=dict(pair=[v['x'], v['y']]), expected=dict(note='x lists y iff y lists x, and a listed peer answers an RPC'), observed=v))
            break
    if not fails and len(views) != 6:
        raise Undecided('panicking_handler scenario reported %d views' % len(views))
    return dict(name='panicking_handler', validates='what the connection manager and the per-connection handler do when a request task panics (their select! loops are outside every contract), on three real nodes', cases=len(views), failed=fails, ok=not fails,
                props=['C09', 'C08'], clause='after connectivity has been fault-free for longer than the idle timeout, A lists B iff B lists A, and every listed peer can be reached by RPC')


def busy_node_still_dials(env):
    """C13 timing on real networks, with a wide margin: check interval 300 ms; a quiet node and a node whose connection manager handles an unrelated
    connect / disconnect about 20 times a second; a reachable High-affinity peer must be dialed, and redialed after it drops the connection, within 3 s
    (ten intervals) in both"""
    got = _run('busy_node_still_dials', {}, env, timeout=120)
    fails = []
    if got.get('panicked'):
        fails.append(dict(scenario='busy_node_still_dials', args={}, expected=dict(note='the scenario finishes'), observed=got))
    runs = got.get('runs') or []
    for r in runs:
        slow = [k for k in ('dialed_after_ms', 'redialed_after_ms') if r.get(k) is None or r[k] > 3000]
        if slow:
            fails.append(dict(scenario='busy_node_still_dials', args=dict(busy=r['busy'], interval_ms=300), expected=dict(within_ms=3000, of=slow), observed=r))
    if not fails and len(runs) != 2:
        raise Undecided('busy_node_still_dials scenario reported %d runs' % len(runs))
    return dict(name='busy_node_still_dials', validates='the timer of the connection manager\'s event loop (a select! loop outside every contract) under unrelated traffic, on real nodes; wide margin (10 intervals)', cases=2 * len(runs), failed=fails, ok=not fails,
                props=['C13'], clause='a reachable High-affinity peer is dialed within one check interval plus jitter of becoming known, and redialed after the connection is lost, whatever else the node is doing')


def abandoned_rpcs(env):
    """C12 on real networks: RPCs abandoned before they are polled, while a 4 MB request is being sent, after the remote handler started, and by a
    timeout; 40 abandoned RPCs against a listener granting 4 concurrent streams, with one RPC in flight throughout"""
    got = _run('abandoned_rpcs', {}, env, timeout=120)
    fails = []
    if got.get('panicked'):
        fails.append(dict(scenario='abandoned_rpcs', args={}, expected=dict(note='the scenario finishes'), observed=got))
    else:
        a, b, c, d, m, q = (got.get(k) or {} for k in ('dropped_after_handler_started', 'timed_out', 'dropped_before_polled', 'dropped_while_sending', 'many_abandoned', 'abandoned_while_queued'))

        def prompt(x):
            return x.get('handler_started') and not x.get('handler_ran_to_completion') and x.get('handler_dropped_unfinished_after_ms') is not None
        for (name, x, ok) in [('dropped_after_handler_started', a, prompt(a)), ('timed_out', b, prompt(b) and b.get('caller_timed_out')),
                              ('dropped_before_polled', c, c.get('handler_started') is False),
                              ('dropped_while_sending', d, not d.get('handler_ran_to_completion') and (not d.get('handler_started') or d.get('handler_dropped_unfinished_after_ms') is not None)),
                              ('abandoned_while_queued', q, q.get('listener_streams_all_held') and q.get('parked_rpcs_completed') == 4 and q.get('later_rpcs_ok_of_4') == 4 and q.get('still_connected')),
                              ('many_abandoned', m, m.get('later_rpc_ok') and m.get('handlers_that_ran_to_completion') == 0 and m.get('handlers_still_running_300ms_later') == 0 and m.get('rpc_in_flight_meanwhile_ok'))]:
            if not ok:
                fails.append(dict(scenario='abandoned_rpcs', args=dict(phase=name), expected=dict(note='a started remote handler is dropped promptly (within the second the scenario waits) instead of running its 5 s to completion; abandoned RPCs use up no stream capacity; other RPCs in flight are not disturbed'), observed=x))
    # abandoned while the whole service applies back-pressure
    bp = _run('abandoned_behind_backpressure', {}, env, timeout=60)
    exp = dict(holder_started=True, callers_gave_up=12, held_rpc_answered=True, fresh_rpc_ok=True, abandoned_requests_served_after_the_fact=0, handler_calls=2)
    if bp.get('panicked') or any(bp.get(k) != v for k, v in exp.items()):
        fails.append(dict(scenario='abandoned_behind_backpressure', args={}, expected=dict(exp, note='RPCs abandoned while the service is not ready are dropped like any other: never served after the fact, their streams given back'), observed=bp))
    return dict(name='abandoned_rpcs', validates='cancellation across the connection (stream reset / STOP_SENDING in quinn, the select in the serving task), which no contract covers: 4 ways of abandoning an RPC, 40 in a row against 4 concurrent streams, 1000 abandoned while waiting for a stream', cases=1045, failed=fails, ok=not fails,
                props=['C12'], clause='when a caller abandons an RPC at any point, the remote handler, if it started, is dropped promptly instead of running to completion; any number of abandoned RPCs never exhausts stream capacity or blocks later RPCs; abandoning one RPC never affects others in flight')


def shutdown_scenarios(env):
    """C08 on real networks: a node with a slow inbound request being served, a slow outbound RPC, a dial hanging on a silent socket, a background dial
    to a dead High-affinity peer, a subscriber, a weak reference and two connected peers is shut down explicitly / by dropping its last handle"""
    fails, cases = [], 0
    for variant in ('explicit', 'drop'):
        got = _run('shutdown_scenario', dict(variant=variant), env, timeout=120)
        cases += 1
        why = []
        if got.get('panicked'):
            why.append('the scenario did not finish')
        else:
            sub = got.get('subscriber') or {}
            lost = sorted(e.get('lost') for e in sub.get('events', []) if 'lost' in e)
            if variant == 'explicit' and not got.get('shutdown_ok'):
                why.append('shutdown() did not complete (idle-wait bound 1 s, waited 6 s)')
            if got.get('down_after_ms', 10**9) > 4000:
                why.append('shutting down took longer than the idle-wait bound of 1 s by far')
            if variant == 'explicit' and (got.get('pending_dial') != 'error' or got.get('pending_outbound_rpc') != 'error'):
                why.append('a call pending at shutdown did not return an error')
            if got.get('pending_inbound_rpc_seen_by_remote') != 'error':
                why.append('the remote caller of a request in service at shutdown was left hanging')
            if got.get('rebind_after_ms') is None or got['rebind_after_ms'] > 1500:
                why.append('the socket address cannot be re-bound at once')
            if got.get('service_clones_after') != 1:
                why.append('clones of the user\'s service survive the shutdown')
            if variant == 'explicit' and got.get('service_clones_when_shutdown_returned') != 1:
                why.append('when shutdown() returned, clones of the user\'s service were still alive (a request handler in a stretch of work that does not yield was not waited for)')
            if got.get('busy_inbound_rpc_seen_by_remote') != 'error':
                why.append('the remote caller of a request being served by a busy handler was left hanging or got an answer')
            if len(lost) != sub.get('snapshot') or len(set(lost)) != len(lost) or not sub.get('stream_ended'):
                why.append('a subscriber must receive a LostPeer for every connected peer and then end-of-stream')
            if got.get('weak_reference_upgrades'):
                why.append('a weak reference still upgrades')
            if got.get('remote_peers_saw_disconnect') != [True, True]:
                why.append('a remote peer did not observe the disconnect')
            if variant == 'explicit':
                ca = got.get('calls_after_shutdown') or {}
                if not ca.get('is_closed') or ca.get('peers') != 0 or any(ca.get(k) != 'error' for k in ('connect', 'rpc', 'shutdown_again', 'disconnect')):
                    why.append('after shutdown the network must report closed with no peers and every call must fail (not hang, not succeed)')
        if why:
            fails.append(dict(scenario='shutdown_scenario', args=dict(variant=variant), expected=dict(violated=why), observed=got))
    # explicit shutdown while connect calls saturate the connection manager's mailbox
    got = _run('shutdown_full_mailbox', {}, env, timeout=60)
    cases += 1
    exp = dict(returned=True, shutdown_ok=True, pending_connects_failed=8, is_closed=True, peers=0, weak_reference_upgrades=False, connect_after_shutdown='error', rebind_at_once=True)
    if got.get('panicked') or any(got.get(k) != v for k, v in exp.items()) or got.get('took_ms', 10**9) > 6000:
        fails.append(dict(scenario='shutdown_full_mailbox', args={}, expected=dict(exp, took_ms='<= 6000 (idle-wait bound 3 s)'), observed=got))
    got = _run('runtime_teardown', {}, env, timeout=120)
    for m in got.get('moments') or [dict(moment='?', came_back_within_10s=False, panicked=True)]:
        cases += 1
        if m.get('panicked') or not m.get('came_back_within_10s'):
            fails.append(dict(scenario='runtime_teardown', args=dict(moment=m.get('moment')), expected=dict(panicked=False, came_back_within_10s=True), observed=m))
    return dict(name='shutdown_scenarios', validates='shutdown as a whole (task joins, channel closure, socket release, Drop order, runtime teardown), which no contract expresses: explicit and by dropping the last handle, with work of every kind in flight; the runtime torn down at 4 moments with handles alive',
                cases=cases, failed=fails, ok=not fails, props=['C08'],
                clause='shutting a network down completes within the idle-wait bound whatever is in flight; afterwards it reports closed with no peers, its address can be re-bound at once, every clone of the user\'s service has been dropped, subscribers receive their pending LostPeer events and then end-of-stream, weak references no longer upgrade, remote peers observe the disconnect; every call pending at or issued after shutdown returns an error; tearing down the runtime at any moment neither panics nor hangs')


def backpressure_service(env):
    """C04 / C06 on real networks: the user's service has capacity 1 (tower ConcurrencyLimit) and is held by one peer's 4 s request; another peer sends a
    request and disconnects"""
    got = _run('backpressure_service', {}, env, timeout=120)
    fails = []
    ok = (not got.get('panicked') and (got.get('disconnected_peer_delisted_after_ms') or 10**9) <= 2000 and (got.get('lost_peer_event_after_ms') or 10**9) <= 2000
          and got.get('newcomer_connected') and got.get('slow_request_answered'))
    if not ok:
        fails.append(dict(scenario='backpressure_service', args={}, expected=dict(disconnected_peer_delisted_within_ms=2000, lost_peer_event_within_ms=2000, newcomer_connected=True, slow_request_answered=True,
                          note='a service that is not ready delays requests, never the bookkeeping of connections'), observed=got))
    return dict(name='backpressure_service', validates='the per-connection accept loop against a service whose poll_ready is pending (every other check uses services that are always ready)', cases=1, failed=fails, ok=not fails,
                props=['C04', 'C06'], clause='the listing contains no peer whose connection has been seen closed, and the event stream says so; a slow or saturated service affects requests, not the handling of other streams and of the connection')


def silent_peer_loss(env):
    """C09 on real networks: a connected peer goes silent (its runtime stops being polled); idle timeout 1.5 s; four ways the connection was made"""
    got = _run('silent_peer_loss', {}, env, timeout=180)
    fails = []
    if got.get('panicked'):
        fails.append(dict(scenario='silent_peer_loss', args={}, expected=dict(note='the scenario finishes'), observed=got))
    cases = got.get('cases') or []
    for c in cases:
        if c.get('setup_failed') or not c.get('connected_first'):
            raise Undecided('silent_peer_loss: the connection of case %s was never established' % c.get('how'))
        if (c.get('lost_peer_event_after_ms') or 10**9) > 4000 or (c.get('delisted_after_ms') or 10**9) > 4000:
            fails.append(dict(scenario='silent_peer_loss', args=dict(how=c['how'], idle_timeout_ms=1500), expected=dict(lost_peer_event_within_ms=4000, delisted_within_ms=4000), observed=c))
    if not fails and len(cases) != 4:
        raise Undecided('silent_peer_loss scenario reported %d cases' % len(cases))
    return dict(name='silent_peer_loss', validates='that the configured idle timeout is in force on connections made in each of four ways (quinn transport configuration reaching every client / server configuration the node builds)', cases=len(cases), failed=fails, ok=not fails,
                props=['C09'], clause='any connection that one side closes, rejects or loses is reported lost by the other side no later than the idle timeout')


def decode_sweep(env):
    """C06 / C07 on the real decoders: bounded exhaustive sweep (see the scenario); no offered byte string may panic the decode path"""
    got = _run('decode_sweep', {}, env, timeout=120)      # about 1 s on the pinned tree
    fails = []
    if got.get('panicked') or got.get('panics', 1) != 0:
        fails.append(dict(scenario='read_request' if not got.get('panicked') else 'decode_sweep',
                          args=dict(bytes=got.get('first_panicking_input')) if got.get('first_panicking_input') else {},
                          expected=dict(ok=False, note='an error, never a panic'), observed=got))
    return dict(name='decode_sweep', validates='totality of the real request / response decoders (including bincode and tokio-util) on %s byte strings: every short header frame over a 4-letter alphabet, every truncation and single-byte corruption of two valid messages, huge length prefixes' % got.get('inputs'),
                cases=got.get('inputs', 0) * 2, failed=fails, ok=not fails, props=['C06', 'C07'],
                clause='decoding arbitrary bytes never panics; a malformed, truncated or oversized request is rejected with an error')


def oversize_confined(env):
    """C15 confinement on real networks: an oversized request / response fails that RPC only; the connection stays up and usable"""
    fails, cases = [], 0
    for sc in (dict(callee_limit=1024, caller_limit=None, body=1025), dict(callee_limit=1024, caller_limit=None, body=200000),
               dict(callee_limit=None, caller_limit=1024, body=1025), dict(callee_limit=1024, caller_limit=1024, body=1025),
               dict(callee_limit=1024, caller_limit=None, body=100, response_body=5000)):
        got = _run('oversize_confined', sc, env)
        cases += 1
        ok = got.get('oversized_rpc_failed') is True and got.get('still_connected') is True and got.get('followup_ok') is True and got.get('elapsed_ms', 10**9) < 4000
        if not ok:
            fails.append(dict(scenario='oversize_confined', args=sc, expected=dict(oversized_rpc_failed=True, still_connected=True, followup_ok=True), observed=got))
    return dict(name='oversize_confined', validates='that refusing an oversized frame ends only that RPC (stream), on real networks',
                cases=cases, failed=fails, ok=not fails, props=['C15', 'C06'],
                clause='a request or response exceeding the local maximum is refused with an error for that RPC only (never a hang, a truncation or a torn-down connection)')


CERT_EXPECT = {
    # case: (peer_id is, client_ok, server_ok, pinned_a_ok, pinned_x_ok)      peer_id: 'a' / 'x' / None (error) / '*' (any)
    'honest': ('a', True, True, True, False),
    'decoy_in_name': ('a', True, True, True, False),
    'decoy_in_extension': ('a', True, True, True, False),
    'x_cert_as_intermediate': ('a', True, True, True, False),
    'x_tbs_signed_by_a': ('*', False, False, False, False),
    'ecdsa': (None, False, False, False, False),
    'expired': ('a', False, False, False, False),
    'not_yet_valid': ('a', False, False, False, False),
    'other_network': ('a', False, False, False, False),
    'empty': (None, False, False, False, False),
    'garbage': (None, False, False, False, False),
}


def cert_corpus(env):
    """C01 / C03 on the real certificate verifiers: adversarial certificates (decoy keys in names and extensions, a foreign
    certificate in the chain, a body re-signed with another key, non-Ed25519, expired, other network, every single-byte mutation)"""
    got = _run('cert_corpus', {}, env)
    fails = []
    if got.get('panicked'):
        fails.append(dict(scenario='cert_corpus', args={}, expected=dict(note='no panic'), observed=got))
        cases = []
    else:
        cases = got['cases']
        seen = set()
        for c in cases:
            want = CERT_EXPECT.get(c['case'])
            if not want:
                continue
            seen.add(c['case'])
            wid = dict(a=got['a'], x=got['x']).get(want[0], want[0])
            bad = []
            if want[0] != '*' and c['peer_id'] != wid:
                bad.append('the identity read from the certificate is %s, the key it was issued for and signed with is %s' % (c['peer_id'], wid))
            for (k, w) in zip(('client_ok', 'server_ok', 'pinned_a_ok', 'pinned_x_ok'), want[1:]):
                if c[k] != w:
                    bad.append('%s is %s, expected %s' % (k, c[k], w))
            if bad:
                fails.append(dict(scenario='cert_corpus', args=dict(case=c['case'], certificate=c['what']),
                                  expected=dict(peer_id=wid, client_ok=want[1], server_ok=want[2], pinned_a_ok=want[3], pinned_x_ok=want[4]), observed=dict(c, problems=bad)))
        if seen != set(CERT_EXPECT):
            raise Undecided('cert_corpus scenario did not report cases %s' % sorted(set(CERT_EXPECT) - seen))
        if got.get('wrong_server_name_ok'):
            fails.append(dict(scenario='cert_corpus', args=dict(case='wrong_server_name'), expected=dict(ok=False), observed=dict(ok=True)))
        for k, msg in (('mutation_accepted_with_other_identity', 'a single-byte mutation of a valid certificate verifies while the identity read from it is not the signer'),
                       ('mutation_accepted_by_pin_on_x', 'a single-byte mutation of A\'s certificate is accepted by a dial pinned on X')):
            if got.get(k):
                fails.append(dict(scenario='cert_corpus', args=dict(case=k, mutation=got[k][0]), expected=dict(accepted=False, note=msg), observed=dict(accepted=True, all=got[k])))
        if got.get('mutation_panics'):
            fails.append(dict(scenario='cert_corpus', args=dict(case='mutation_panics'), expected=dict(panics=0), observed=dict(panics=got['mutation_panics'])))
    return dict(name='cert_corpus', validates='the real certificate verifiers (crypto.rs with webpki / x509-parser / pkcs8) on %d adversarial certificates and %s single-byte mutations: the identity read from an accepted certificate is the key that signed it; a pinned dial accepts only the pinned key in the END-ENTITY position'
                % (len(cases), got.get('mutations')), cases=len(cases) + int(got.get('mutations') or 0), failed=fails, ok=not fails, props=['C01', 'C03', 'C14'],
                clause='the PeerId attributed from a certificate is the Ed25519 key the certificate is self-signed with, whatever else the certificate carries; a dial naming X accepts only a certificate whose own key is X')


def write_sequence(env):
    """C02 / C07: messages written and read one after the other in ONE process; every one must be encoded / decoded from ITS OWN
    status, route, headers and body (golden vectors run each message in a fresh process and cannot see state kept between calls)"""
    msgs, reads, want = [], [], []
    for (st, hd, body) in [(200, {}, b'a'), (404, {}, b''), (200, {}, b'bb'), (500, {'k': 'v'}, b'c'), (429, {}, b''), (200, {}, b'a'), (408, {'k': 'w'}, b'd'), (200, {'k': 'v'}, b'')]:
        msgs.append(dict(kind='response', status=st, headers=hd, body=list(body)))
        w = PREAMBLE + be32(len(bincode_resp_header(st, hd))) + bincode_resp_header(st, hd) + be32(len(body)) + body
        want.append(w)
        reads.append((dict(kind='response', bytes=w.hex()), dict(ok=True, status=st, headers=hd, body=list(body))))
    for (route, hd, body) in [('/a', {}, b'1'), ('/b', {}, b'1'), ('/a', {'h': '1'}, b''), ('/a', {}, b'22'), ('', {}, b''), ('/a', {}, b'1')]:
        msgs.append(dict(kind='request', route=route, headers=hd, body=list(body)))
        w = PREAMBLE + be32(len(bincode_req_header(route, hd))) + bincode_req_header(route, hd) + be32(len(body)) + body
        want.append(w)
        reads.append((dict(kind='request', bytes=w.hex()), dict(ok=True, route=route, headers=hd, body=list(body))))
    got = _run('write_sequence', dict(messages=msgs, read=[r for (r, _) in reads]), env)
    fails = []
    if got.get('panicked'):
        fails.append(dict(scenario='write_sequence', args=dict(messages=msgs), expected=dict(note='no panic'), observed=got))
    else:
        for i, (m, w, g) in enumerate(zip(msgs, want, got['written'])):
            if not g.get('ok') or g.get('bytes') != w.hex():
                fails.append(dict(scenario='write_sequence', args=dict(messages=msgs[:i + 1], note='message #%d of the sequence' % i), expected=dict(bytes=w.hex()), observed=g))
        for i, ((r, exp), g) in enumerate(zip(reads, got['read'])):
            if g != exp:
                fails.append(dict(scenario='write_sequence', args=dict(messages=[], read=[x for (x, _) in reads[:i + 1]], note='read #%d of the sequence' % i), expected=exp, observed=g))
    return dict(name='write_sequence', validates='that the real encoders / decoders are functions of their arguments only: %d messages with differing status, route and headers written and read back to back in one process' % len(msgs),
                cases=2 * len(msgs), failed=fails, ok=not fails, props=['C02', 'C07'],
                clause='every message on the wire is the encoding of exactly the status / route, headers and body it was given, whatever was sent before it')


def hostile_streams(env):
    """C06 on real networks: stream-level misbehaviour of a connected peer on the raw QUIC connection"""
    args = dict(slow_ms=2500, limit_ms=1200)
    got = _run('hostile_streams', args, env)
    fails = []
    if got.get('panicked'):
        fails.append(dict(scenario='hostile_streams', args=args, expected=dict(note='no panic'), observed=got))
    else:
        for s in got['steps']:
            if not (s['same_connection_rpc_ok'] and s['other_peer_rpc_ok']):
                # once more, alone, before it is believed (a loaded machine can make one RPC slow)
                again = _run('hostile_streams', dict(args, only=[s['misbehaviour']], limit_ms=2000), env)
                st = (again.get('steps') or [dict(same_connection_rpc_ok=False, other_peer_rpc_ok=False)])[0]
                if again.get('panicked') or not (st['same_connection_rpc_ok'] and st['other_peer_rpc_ok']):
                    fails.append(dict(scenario='hostile_streams', args=dict(args, only=[s['misbehaviour']]),
                                      expected=dict(same_connection_rpc_ok=True, other_peer_rpc_ok=True, note='a well-formed RPC sent right after the misbehaviour is answered within %d ms' % args['limit_ms']),
                                      observed=dict(first=s, rerun=st)))
        ab = got.get('after_abrupt_close_with_requests_in_flight') or {}
        if not fails and ab.get('connected') and (ab.get('server_closed') or not ab.get('honest_rpc_ok') or not ab.get('new_peer_can_connect')):
            fails.append(dict(scenario='hostile_streams', args=args, expected=dict(server_closed=False, honest_rpc_ok=True, new_peer_can_connect=True,
                              note='a peer that goes away abruptly with requests of its own in flight ends its own connection; the node stays up and keeps serving'), observed=ab))
        for sc in ('abrupt_close', 'abrupt_close_mt'):
            if fails:
                break
            g2 = _run(sc, {}, env, timeout=120)
            for r in (g2.get('rounds') or [dict(how='?', server_closed=True)]) if not g2.get('panicked') else [dict(how='the scenario did not finish', server_closed=True, detail=g2)]:
                if r.get('server_closed') or not r.get('honest_rpc_ok') or not r.get('new_peer_can_connect'):
                    fails.append(dict(scenario=sc, args=dict(how=r.get('how'), runtime='current-thread' if sc == 'abrupt_close' else 'multi-thread'),
                                      expected=dict(server_closed=False, honest_rpc_ok=True, new_peer_can_connect=True, note='a peer that goes away abruptly with requests of its own in flight ends its own connection; the node stays up and keeps serving'), observed=r))
                    break
        if not fails and not (got['both_still_connected'] and got['final_rpc_ok'] and got['slow_rpc_ok']):
            fails.append(dict(scenario='hostile_streams', args=args, expected=dict(both_still_connected=True, final_rpc_ok=True, slow_rpc_ok=True), observed={k: got[k] for k in ('both_still_connected', 'final_rpc_ok', 'slow_rpc_ok')}))
    return dict(name='hostile_streams', validates='that %d kinds of stream-level misbehaviour of a connected peer (silent, truncated, garbage, huge length prefix, reset, stop, unidirectional stream, datagram, 30 abandoned streams, a slow handler in flight) leave well-formed RPCs on the same connection and from another peer served promptly'
                % len(got.get('steps', [])), cases=len(got.get('steps', [])), failed=fails, ok=not fails, props=['C06'],
                clause='while a misbehaving peer\'s connection stays open, well-formed RPCs on its other streams and RPCs with other peers keep succeeding')


NETWORK_NAMES = dict(a1=('net-a', None), a2=('net-a', None), b1=('net-b', None), ab=('net-a', 'net-b'), ba=('net-b', 'net-a'), u1=('net_a', None), u2=('net_a', None))


def network_names(env):
    """C14 on real networks: every ordered pair of five networks (two named net-a, one net-b, one net-a accepting net-b as alternate, one the
    other way round): a connection is established exactly when the dialer's PRIMARY name is one the listener accepts"""
    got = _run('network_names', {}, env, timeout=240)
    fails = []
    if got.get('panicked'):
        fails.append(dict(scenario='network_names', args={}, expected=dict(note='no panic'), observed=got))
    pairs = got.get('pairs') or []
    for pr in pairs:
        dn, da = NETWORK_NAMES[pr['dialer']]
        ln, la = NETWORK_NAMES[pr['listener']]
        want = dn in (ln, la)
        if pr['connect_ok'] != want or pr['either_lists_the_other'] != want or pr['rpc_ok'] != want:
            fails.append(dict(scenario='network_names', args=dict(dialer=dict(name=dn, alternate=da), listener=dict(name=ln, alternate=la)),
                              expected=dict(connect_ok=want, either_lists_the_other=want, rpc_ok=want), observed=pr))
    if not fails and len(pairs) != 42:
        raise Undecided('network_names scenario reported %d pairs' % len(pairs))
    return dict(name='network_names', validates='on real networks (TLS with SNI resolution in rustls and name matching in webpki, which no contract covers): all 42 ordered pairs of 7 networks with primary / alternate names, two of them named like another one up to a punctuation character',
                cases=len(pairs), failed=fails, ok=not fails, props=['C14'],
                clause='two endpoints connect exactly when the dialer\'s primary network name is one the listener accepts (its primary or alternate name); endpoints of different networks never connect in either direction')


def claimed_name_grid(env):
    """C14 with an adversarial dialer (bare quinn / rustls client through no anemo code): claimed name in the TLS hello x name the presented certificate is
    issued for, against a listener with one name and one with an alternate; the dialer accepts any listener certificate"""
    got = _run('claimed_name_grid', {}, env, timeout=240)
    fails = []
    if got.get('panicked'):
        fails.append(dict(scenario='claimed_name_grid', args={}, expected=dict(note='no panic'), observed=got))
    cells = got.get('cells') or []
    accepted = dict(single=('net-a',), with_alternate=('net-a', 'net-old'))
    for c in cells:
        want = c['claimed'] in accepted[c['listener']] and c['certificate_for'] in accepted[c['listener']]
        if c['listed'] != want or c['acknowledged'] != want:
            fails.append(dict(scenario='claimed_name_grid', args=dict(listener_accepts=list(accepted[c['listener']]), claimed=c['claimed'], certificate_for=c['certificate_for']),
                              expected=dict(acknowledged=want, listed=want), observed=c))
    for r in got.get('returning') or []:
        acks = [x['acknowledged'] for x in r['same_key_three_dials']]
        if acks != [True, False, True]:
            fails.append(dict(scenario='claimed_name_grid', args=dict(listener=r['listener'], same_key_presents_certificates_for=['net-a', 'net-b', 'net-a'], claimed='net-a'),
                              expected=dict(acknowledged=[True, False, True], note='a key admitted before is judged again on the certificate it presents now'), observed=r))
    if not fails and (len(cells) != 24 or len(got.get('returning') or []) != 2):
        raise Undecided('claimed_name_grid scenario reported %d cells' % len(cells))
    return dict(name='claimed_name_grid', validates='the listener side on the real crate against a dialer that is not anemo: 24 combinations of claimed name x certificate name x listener configuration; admitted (acknowledged and listed) exactly when the claimed name is one the listener accepts AND the certificate is valid for a name the listener accepts',
                cases=len(cells), failed=fails, ok=not fails, props=['C14'],
                clause='a dialer is admitted only if the network name it claims is one the listener accepts and its certificate is valid for an accepted name; a peer that claims one network\'s name while presenting a certificate issued for another network is rejected')


def stolen_certificate(env):
    """C01 / C03 against peers that are not anemo (bare quinn / rustls, no hook): somebody shows a certificate whose private key they do not
    hold -- to an anemo listener, and as a listener to an anemo dialer (with and without a named identity) -- before and after the rightful
    holder of the key connected under the same certificate"""
    got = _run('stolen_certificate', {}, env, timeout=240)
    fails = []
    if got.get('panicked'):
        fails.append(dict(scenario='stolen_certificate', args={}, expected=dict(note='no panic'), observed=got))
    inbound, outbound = got.get('inbound') or [], got.get('outbound') or []
    for i, c in enumerate(inbound):
        want = c['holds_the_private_key']
        if c['acknowledged'] != want or c['listed'] != want:
            fails.append(dict(scenario='stolen_certificate', args=dict(direction='inbound', history=[x['who'] for x in inbound[:i + 1]]),
                              expected=dict(acknowledged=want, listed=want, note='the presenter of a certificate is admitted under its key only with a handshake signature made by that key'), observed=c))
    for i, c in enumerate(outbound):
        want = c['holds_the_private_key']
        if c['connect_ok'] != want or c['listed'] != want or (want and c['attributed_first_byte'] != c['victim_first_byte']):
            fails.append(dict(scenario='stolen_certificate', args=dict(direction='outbound', dial_names_the_identity=c['dial_names_the_identity'], history=[x['who'] for x in outbound[:i + 1]]),
                              expected=dict(connect_ok=want, listed=want), observed=c))
    for c in got.get('two_certificate_chain') or []:
        # (a chain of two certificates may be refused outright; if it is accepted, the identity is the holder's)
        if c['connect_ok'] and (not c['returned_the_holder'] or not c['lists_holder'] or c['lists_other']) or (not c['connect_ok'] and (c['lists_holder'] or c['lists_other'])):
            fails.append(dict(scenario='stolen_certificate', args=dict(direction='outbound', listener_presents='[certificate of the key holder, certificate of somebody else]', dial_names_the_identity=c['dial_names_the_identity']),
                              expected=dict(note='a successful dial returns, and lists, the identity whose key signed the handshake (the first certificate), never the other one'), observed=c))
    if not fails and (len(inbound) != 5 or len(outbound) != 8):
        raise Undecided('stolen_certificate scenario reported %d + %d steps' % (len(inbound), len(outbound)))
    return dict(name='stolen_certificate', validates='real handshakes (rustls checks the CertificateVerify message through the verifier anemo installs): 5 inbound and 8 outbound attempts under one certificate, by its holder and by parties signing with other keys, in one process',
                cases=len(inbound) + len(outbound), failed=fails, ok=not fails, props=['C01', 'C03'],
                clause='the identity attributed to a connection is the key whose private half signed THIS handshake; showing a certificate (which is public) proves nothing, whether or not its holder connected before')


def _declared_header_names(repo):
    """every short lower-case `&str` constant the library declares (crates/anemo/src): read from the source on every run"""
    names = []
    root = os.path.join(repo, 'crates', 'anemo', 'src')
    for dp, _dn, fns in os.walk(root):
        for fn in fns:
            if fn.endswith('.rs'):
                try:
                    txt = open(os.path.join(dp, fn)).read()
                except OSError:
                    continue
                for m in re.finditer(r'const\s+\w+\s*:\s*&(?:\'static\s+)?str\s*=\s*"([a-z0-9][a-z0-9_.-]{1,40})"\s*;', txt):
                    if m.group(1) not in names:
                        names.append(m.group(1))
    return names


def identity_claims_in_headers(env):
    """C01 on real networks: every header name the library declares (plus a few guessable ones), filled with ANOTHER peer's identity in seven
    spellings, on error and success replies of a lying replier (typed client -> Status::peer_id / Response::peer_id, untyped Network::rpc) and on
    requests of a raw dialer (handler's Request::peer_id)"""
    names = _declared_header_names(env['repo'])
    for g in ('peer-id', 'peer_id', 'peerid', 'origin', 'from', 'sender', 'source', 'x-peer-id', 'x-forwarded-for', 'forwarded', 'via', 'authority', 'identity', 'public-key'):
        if g not in names:
            names.append(g)
    got = _run('identity_claims_in_headers', dict(names=names), env, timeout=240)
    fails = []
    if got.get('panicked'):
        fails.append(dict(scenario='identity_claims_in_headers', args=dict(names=names), expected=dict(note='no panic'), observed=got))
    replies, requests = got.get('replies') or [], got.get('requests') or []
    for c in replies:
        if not (c['typed_names_replier'] and c['untyped_names_replier']) and len(fails) < 4:
            fails.append(dict(scenario='identity_claims_in_headers', args=dict(names=names, reply_status=c['status'], every_named_header_set_to=c['claim']),
                              expected=dict(typed_names_replier=True, untyped_names_replier=True, note='the PeerId on a reply is the authenticated key of the connection it arrived on'), observed=c))
    for c in requests:
        if not c['handler_saw_the_dialer'] and len(fails) < 6:
            fails.append(dict(scenario='identity_claims_in_headers', args=dict(names=[n for n in names if n != 'timeout'], request_headers_all_set_to=c['claim']),
                              expected=dict(handler_saw_the_dialer=True), observed=c))
    if not fails and (len(replies) != 35 or len(requests) != 7):
        raise Undecided('identity_claims_in_headers scenario reported %d replies, %d requests' % (len(replies), len(requests)))
    return dict(name='identity_claims_in_headers', validates='the typed RPC client, Network::rpc and the inbound handler on real networks: %d header names (declared by the library or guessable) x 7 spellings of another peer\'s identity x 5 reply statuses, and 7 requests from a raw dialer' % len(names),
                cases=len(replies) + len(requests), failed=fails, ok=not fails, props=['C01'],
                clause='the PeerId a handler sees on a request and a caller sees on a response (or on the error status made from it) cannot be supplied or influenced by anything carried in the message')


ROUTE_PATTERNS = ['/a', '/a/b', '/s/*rest', '/t/*rest', '/']
ROUTE_QUERIES = ['', '/', '/a', '/a/', '/a/b', '/a/b/c', '/s', '/s/', '/s/x', '/s/x/y', '/t/m', '/u', 'a', '/A', '/s/*rest', '//', '/s//', '/\u00e9', '/s/\u00e9/\u6f22', '/a?x=1',
                 '/a#b', '/%61', '/s/' + 'x' * 3000, '/' + 'a/' * 500, '/a\x00', '/:x', '/*rest', ' /a', '/a ', '/S/x']


def _route_pattern_matches(p, q):
    """the statement's reading of a pattern: an exact path, or a wildcard tail (None: the empty tail, which the statement leaves open)"""
    star = p.find('*')
    if star < 0:
        return p == q
    if q == p[:star]:
        return None
    return q.startswith(p[:star])


def _route_oracle(ops, next_id):
    """(table, ops with ids) of a router built by `ops`, or None if building it must panic: [pattern, service id, middleware ids innermost first]"""
    table = []
    for op in ops:
        if op[0] in ('route', 'rpc'):
            pat = op[1] if op[0] == 'route' else '/%s/*rest' % op[1]
            if any(e[0] == pat for e in table):
                return None
            table.append([pat, op[2], []])
        elif op[0] == 'layer':
            for e in table:
                e[2].append(op[1])
        elif op[0] == 'merge':
            sub = _route_oracle(op[1], next_id)
            if sub is None or any(e[0] == f[0] for e in sub for f in table):
                return None
            table.extend(sub)
        elif op[0] == 'nest':
            return None
    return table


def routing_table(env):
    """C16 on the real Router with the real matchit: routers built by every sequence of up to 2 operations and a seeded sample of longer ones, each
    asked 30 route strings (empty, odd, unicode, very long, well-formed); compared with the statement's reading of the patterns"""
    import itertools
    import random
    rng = random.Random(int(env.get('seed') or 1))
    counter = itertools.count(1)

    def fresh(op):
        if op[0] == 'route':
            return ['route', op[1], next(counter)]
        if op[0] == 'rpc':
            return ['rpc', op[1], next(counter)]
        if op[0] == 'layer':
            return ['layer', next(counter)]
        if op[0] == 'merge':
            return ['merge', [fresh(o) for o in op[1]]]
        return list(op)
    basic = [('route', p) for p in ROUTE_PATTERNS] + [('rpc', 's'), ('rpc', 't'), ('layer',)]
    subs = [[a] for a in basic] + [[a, b] for a in basic for b in basic]
    # a merged router may itself have received routes by a merge (two levels)
    nested = [[('merge', [a]), b] for a in basic for b in basic] + [[b, ('merge', [a])] for a in basic for b in basic] + [[('merge', [a, b])] for a in basic for b in basic] + [[('merge', [a]), ('merge', [b])] for a in basic for b in basic]
    top = basic + [('merge', sub) for sub in subs] + [('merge', sub) for sub in nested] + [('nest', '/n')]
    seqs = [[a] for a in top] + [[a, b] for a in top for b in basic] + [[a, b] for a in basic for b in top if b[0] == 'merge']
    for _ in range(1500 if env.get('tier') != 'thorough' else 6000):
        seqs.append([rng.choice(top) for _ in range(rng.choice((3, 3, 4, 5)))])
    routers = [[fresh(o) for o in sq] for sq in seqs]
    got = _run('routing_table', dict(routers=routers, queries=ROUTE_QUERIES), env, timeout=300)
    fails = []
    if got.get('panicked'):
        fails.append(dict(scenario='routing_table', args=dict(routers=len(routers)), expected=dict(note='the scenario finishes'), observed=got))
    res = got.get('routers') or []
    for ops, r in zip(routers, res):
        if len(fails) >= 5:
            break
        table = _route_oracle(ops, None)
        if (table is None) != bool(r.get('build_panicked')):
            fails.append(dict(scenario='routing_table', args=dict(routers=[ops], queries=[]), expected=dict(build_panicked=table is None, note='registering a pattern twice (directly or by merging) or a Router as a route is refused; nothing else is'), observed=r))
            continue
        if table is None:
            continue
        for q, ans in zip(ROUTE_QUERIES, r['answers']):
            verdicts = [(e, _route_pattern_matches(e[0], q)) for e in table]
            hits = [e for e, v in verdicts if v is True]
            maybe = [e for e, v in verdicts if v is None]
            not_found = dict(status=404, svc=None, trace=[])
            if hits:
                allowed = [dict(status=200, svc=hits[0][1], trace=hits[0][2])]
            elif maybe:
                allowed = [dict(status=200, svc=maybe[0][1], trace=maybe[0][2]), not_found]
            else:
                allowed = [not_found]
            if len(hits) > 1 or ans not in allowed:
                fails.append(dict(scenario='routing_table', args=dict(routers=[ops], queries=[q]), expected=dict(one_of=allowed), observed=ans))
                break
    if not fails and len(res) != len(routers):
        raise Undecided('routing_table scenario reported %d routers of %d' % (len(res), len(routers)))
    return dict(name='routing_table', validates='the real Router on the real matchit trie and real tower services: %d routers (every sequence of up to 2 operations, a seeded sample of longer ones; operations: 5 patterns, 2 RPC services, route-level middleware, merge of a sub-router, a nested Router) x %d route strings' % (len(routers), len(ROUTE_QUERIES)),
                cases=len(routers) * len(ROUTE_QUERIES), failed=fails, ok=not fails, props=['C16'],
                clause='a request is dispatched to exactly the service registered for the pattern matching its route, behind exactly the route-level middleware applied after that route was registered; any unmatched route gets NotFound with no middleware run; routing never panics on any route string; merging preserves every route\'s service and middleware')


def codegen_routes(env):
    """C17, the generator: anemo-build's client and server generators RUN on 480 service definitions (3 packages x 2 service names x every ordered
    selection of 1..3 of 4 methods x raw-bytes handler or not); the generated text is inspected"""
    got = _run('codegen_routes', {}, env, timeout=240)
    fails = []
    if got.get('panicked'):
        fails.append(dict(scenario='codegen_routes', args={}, expected=dict(note='the generators run'), observed=got))
    for p in got.get('problems') or []:
        fails.append(dict(scenario='codegen_routes', args=dict(package=p['package'], service=p['service'], methods=p['methods'], raw_bytes_first=p['raw_bytes_first']),
                          expected=dict(note='every generated client method sends to the route whose server arm calls the handler method of the same name, directly under the prefix the router registers for the service'), observed=p))
    if not fails and got.get('definitions') != 480:
        raise Undecided('codegen_routes scenario checked %s definitions' % got.get('definitions'))
    return dict(name='codegen_routes', validates='the real generators of anemo-build (quote! token streams, outside every verifier) on a family of 480 service definitions: BOUNDED, by execution', cases=int(got.get('definitions') or 0), failed=fails, ok=not fails,
                props=['C17'], clause='the generated client and server agree on every method\'s route, and that route lies under the prefix the router registers for the service, so a typed call reaches exactly the handler method of the same name')


def typed_rpc_roundtrip(env):
    """C17, the hand-written half on real networks: typed calls through rpc::client::Rpc to a typed handler behind rpc::server::Rpc"""
    got = _run('typed_rpc_roundtrip', {}, env, timeout=120)
    fails = []
    if got.get('panicked'):
        fails.append(dict(scenario='typed_rpc_roundtrip', args={}, expected=dict(note='no panic'), observed=got))
    cases = got.get('cases') or []
    for c in cases:
        if not c['ok']:
            fails.append(dict(scenario='typed_rpc_roundtrip', args=dict(case=c['case']), expected=dict(note='the handler\'s message, or its error status with code, message and headers intact; an undecodable payload is an error status'), observed=c['observed']))
    if not fails and len(cases) != 9:
        raise Undecided('typed_rpc_roundtrip scenario reported %d cases' % len(cases))
    return dict(name='typed_rpc_roundtrip', validates='the codecs (bincode) and the whole typed path on real networks: 6 handler outcomes (one of them a relayed status that carries a status-message header of its own), 2 undecodable payloads, service afterwards', cases=len(cases), failed=fails, ok=not fails,
                props=['C17'], clause='a typed call delivers the request message and returns either the handler\'s response message or the handler\'s error status with code, message and headers intact; undecodable payloads and non-success statuses surface as an error status, never as a panic or a wrong-typed success')


def auth_scenarios(env):
    """C20 on the real layer: every allow-list over 2 peers x sender (absent / listed / unlisted) x direction marker (none / inbound / outbound),
    an application-defined authorizer whose refusal is a full response (status, headers, body); allow-lists of 0..=24 peers in four orders x every listed
    sender, two unlisted ones and none (1500 calls); and a busy wrapped service (capacity 1) behind three clones of the layered service"""
    p, q, r = [1] * 32, [2] * 32, [3] * 32
    fails, cases = [], 0
    for allowed in ([], [p], [p, q]):
        for sender in (None, p, q, r):
            for direction in (None, 'inbound', 'outbound'):
                if sender is None:
                    exp = dict(status=500, inner_calls=0)
                elif sender in allowed:
                    exp = dict(status=200, inner_calls=1)
                else:
                    exp = dict(status=404, inner_calls=0)
                args = dict(allowed=allowed, sender=sender, direction=direction)
                got = _run('auth', args, env)
                cases += 1
                if got.get('status') != exp['status'] or got.get('inner_calls') != exp['inner_calls']:
                    fails.append(dict(scenario='auth', args=args, expected=exp, observed=got))
    for accept in (False, True):
        args = dict(allowed=[], sender=p, custom=True, accept=accept)
        got = _run('auth', args, env)
        cases += 1
        if accept:
            exp = dict(status=200, inner_calls=1, body=list(b'payload-ok'))
            ok = got.get('status') == 200 and got.get('inner_calls') == 1 and got.get('body') == exp['body']
        else:
            exp = dict(status=429, inner_calls=0, body=list(b'refused because ...'), headers={'retry-after': '30', 'x-refused-by': 'custom'})
            ok = got.get('status') == 429 and got.get('inner_calls') == 0 and got.get('body') == exp['body'] and got.get('headers') == exp['headers']
        if not ok:
            fails.append(dict(scenario='auth', args=args, expected=exp, observed=got))
    sweep = _run('auth_sweep', {}, env)
    cases += int(sweep.get('cases') or 0) + 3
    if sweep.get('panicked'):
        fails.append(dict(scenario='auth_sweep', args={}, expected=dict(note='no panic'), observed=sweep))
    for b in sweep.get('bad') or []:
        fails.append(dict(scenario='auth_sweep', args=dict(allow_list_size=b['allow_list_size'], order=b['order'], sender_listed=b['sender_listed'], sender_position=b['sender_position']), expected=b['expected'], observed=b['observed']))
    busy = sweep.get('busy_wrapped_service') or {}
    if not sweep.get('panicked') and (busy.get('statuses') != [200, 200, 404] or busy.get('wrapped_service_invocations') != 2):
        fails.append(dict(scenario='auth_sweep', args=dict(wrapped_service='capacity 1, first request held', requests=['listed', 'listed', 'unlisted'], each_through_its_own_clone=True),
                          expected=dict(statuses=[200, 200, 404], wrapped_service_invocations=2, note='an accepted request reaches the wrapped service exactly once however busy it is'), observed=busy))
    if not fails and sweep.get('cases') != 1500:
        raise Undecided('auth_sweep scenario reported %s cases' % sweep.get('cases'))
    return dict(name='auth_scenarios', validates='the authorization layer of anemo-tower as built by RequireAuthorizationLayer on the real crate: the allow-list decision whatever other metadata the request carries, and that a refusal is EXACTLY the authorizer\'s response',
                cases=cases, failed=fails, ok=not fails, props=['C20'],
                clause='the wrapped service is invoked iff the authorizer accepted; the allow-list accepts exactly the listed authenticated senders (NotFound for others, InternalServerError without identity); a refused request receives exactly the authorizer\'s response')


def hostile_requests(env):
    """C06, application-level decode paths: odd route strings through anemo's Router, and undecodable bodies of every length for typed routes wired like
    generated code (rpc::server::Rpc with the json and bincode codecs); sent by a connected anemo peer"""
    got = _run('hostile_requests', {}, env, timeout=240)
    fails = []
    if got.get('panicked') or got.get('unanswered') or got.get('wrongly_accepted') or got.get('serving_stopped_after') or got.get('server_closed'):
        fails.append(dict(scenario='hostile_requests', args={}, expected=dict(unanswered=[], wrongly_accepted=[], serving_stopped_after=None, server_closed=False,
                                                                              note='every request is answered (an error status for an unknown route or an undecodable body) and the node keeps serving'), observed=got))
    return dict(name='hostile_requests', validates='the router and the typed-RPC decode path (rpc/mod.rs, rpc/codec.rs, routing/mod.rs) on %s requests from a connected peer: odd and very long route strings, json bodies of the wrong type made of multi-byte characters at every length 0..=420, truncated / huge-length / invalid-UTF-8 bincode bodies'
                % got.get('sent'), cases=int(got.get('sent') or 0), failed=fails, ok=not fails, props=['C06', 'C16', 'C17'],
                clause='no request content can panic the node or make it stop serving: a malformed request affects only its own stream and is answered with an error')
