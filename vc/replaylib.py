"""Replays concrete inputs on the REAL crates in /repo through the verif-hooks feature (crate /verif/replay)."""
import json
import os
import shutil
import subprocess

HERE = os.path.dirname(os.path.abspath(__file__))
VERIF = os.path.dirname(HERE)
CRATE = os.path.join(VERIF, 'replay')
TARGET = os.path.join(VERIF, '.cache', 'replay-target')
BIN = os.path.join(TARGET, 'debug', 'verif-replay')
_built = {}


class ReplayUnavailable(Exception):
    pass


def build(repo='/repo'):
    """(re)builds the replay binary against /repo's current working tree; cargo decides what is stale"""
    if _built.get(repo):
        return BIN
    if os.path.realpath(repo) != '/repo':
        raise ReplayUnavailable('the replay crate depends on /repo by path; repo=%s cannot be replayed' % repo)
    lock = os.path.join(repo, 'Cargo.lock')
    if os.path.exists(lock):
        shutil.copy(lock, os.path.join(CRATE, 'Cargo.lock'))
    env = dict(os.environ, CARGO_NET_OFFLINE='true', CARGO_TARGET_DIR=TARGET)
    p = subprocess.run(['cargo', 'build', '--offline', '--quiet'], cwd=CRATE, env=env, capture_output=True, text=True, timeout=1800)
    if p.returncode != 0:
        raise ReplayUnavailable('replay crate does not build against the current tree: ' + p.stderr[-1500:])
    _built[repo] = True
    return BIN


def run(scenario, args, repo='/repo', timeout=300):
    b = build(repo)
    p = subprocess.run([b, scenario, '-'], input=json.dumps(args), capture_output=True, text=True, timeout=timeout)
    if p.returncode != 0:
        return dict(panicked=True, stderr=p.stderr[-800:], rc=p.returncode)
    return json.loads(p.stdout.strip().split('\n')[-1])


def replay_file(path):
    """./check replay <file>: re-run the concrete input recorded in a replay file on the real code"""
    d = json.load(open(path))
    cx = d.get('counterexample')
    if cx and cx.get('scenario') == 'enum':
        print('bounded-enumeration counterexample for %s: harness %s, choice sequence %s' % (d.get('obligation'), cx['harness'], cx['choices']))
        p = subprocess.run([cx['binary'], '--replay', cx['harness'], ','.join(map(str, cx['choices']))], capture_output=True, text=True)
        print((p.stdout + p.stderr)[-1500:])
        return 0
    if not cx or 'scenario' not in cx:
        print('replay file names obligation %s (%s); the verifier gave no concrete input (no-failing-input-found)'
              % (d.get('obligation'), d.get('prose')))
        print('\n'.join(d.get('verifier_output', []))[:3000])
        return 0
    got = run(cx['scenario'], cx['args'])
    print('scenario %s args %s' % (cx['scenario'], json.dumps(cx['args'])))
    print('observed on real code: %s' % json.dumps(got))
    print('expected by the property: %s' % json.dumps(cx.get('expected')))
    return 0
