"""Replays concrete inputs on the REAL crates in /repo through the verif-hooks feature (crate /verif/replay)."""
import json
import os
import shutil
import subprocess

HERE = os.path.dirname(os.path.abspath(__file__))
VERIF = os.path.dirname(HERE)
CRATE = os.path.join(VERIF, 'replay')
TARGET = os.path.join(VERIF, '.cache', 'replay-target')
BIN = os.path.join(TARGET, 'debug', 'verif-replay')
_built = {}


class ReplayUnavailable(Exception):
    pass


def _crate_for(repo):
    """the replay crate names /repo by path; for another checkout of the repository a copy with rewritten paths is used"""
    real = os.path.realpath(repo)
    if real == '/repo':
        return CRATE, TARGET
    import hashlib
    tag = hashlib.sha1(real.encode()).hexdigest()[:10]
    d = os.path.join(VERIF, '.cache', 'replay-crate-' + tag)
    os.makedirs(os.path.join(d, 'src'), exist_ok=True)
    os.makedirs(os.path.join(d, '.cargo'), exist_ok=True)
    toml = open(os.path.join(CRATE, 'Cargo.toml')).read().replace('/repo/crates/', real + '/crates/')
    files = [('Cargo.toml', toml), ('.cargo/config.toml', open(os.path.join(CRATE, '.cargo', 'config.toml')).read())]
    for fn in sorted(os.listdir(os.path.join(CRATE, 'src'))):
        files.append(('src/' + fn, open(os.path.join(CRATE, 'src', fn)).read()))
    for rel, txt in files:
        path = os.path.join(d, rel)
        if not os.path.exists(path) or open(path).read() != txt:
            open(path, 'w').write(txt)
    return d, os.path.join(VERIF, '.cache', 'replay-target-' + tag)


GROUPS = ['wire', 'cm', 'crypto', 'conn', 'timeout']
# which group of library hooks a scenario needs (none: public API only)
SCENARIO_GROUP = dict(tie_break='cm', backoff_update='cm', backoff_after='cm', read_version='wire', write_version='wire', max_frame='wire', write_request='wire',
                      write_response='wire', read_request='wire', read_response='wire', roundtrip_request='wire', roundtrip_response='wire', decode_sweep='wire',
                      write_sequence='wire', parse_timeout='timeout', duration_to_timeout='timeout', timeout_select='timeout', cert_corpus='crypto')
# where the wrappers of a group live: a compile error there after an edit disables that group only
GROUP_FILES = dict(wire=['network/wire.rs'], cm=['network/connection_manager.rs'], crypto=['crypto.rs'], conn=['connection.rs', 'network/peer.rs'], timeout=['verif_hooks.rs'])
_groups = {}


def _cargo_build(crate, target, groups):
    env = dict(os.environ, CARGO_NET_OFFLINE='true', CARGO_TARGET_DIR=target)
    cmd = ['cargo', 'build', '--offline', '--quiet', '--no-default-features']
    if groups:
        cmd += ['--features', ','.join('hooks-' + g for g in groups)]
    return subprocess.run(cmd, cwd=crate, env=env, capture_output=True, text=True, timeout=1800)


def build(repo='/repo'):
    """(re)builds the replay binary against the given checkout's current working tree; cargo decides what is stale.  If the wrappers of a
    hook group no longer compile on this tree (an edit changed a signature they call), the binary is built WITHOUT that group: scenarios
    that use only the public API, or other groups, stay available"""
    if _built.get(repo):
        return _built[repo]
    if not os.path.isdir(os.path.join(repo, 'crates', 'anemo')):
        raise ReplayUnavailable('no crates/anemo under %s' % repo)
    crate, target = _crate_for(repo)
    lock = os.path.join(repo, 'Cargo.lock')
    if not os.path.exists(lock):
        lock = '/repo/Cargo.lock'
    if os.path.exists(lock):
        shutil.copy(lock, os.path.join(crate, 'Cargo.lock'))
    groups, dropped = list(GROUPS), {}
    for _round in range(4):
        p = _cargo_build(crate, target, groups)
        if p.returncode == 0:
            break
        bad = [g for g in groups if any(('src/' + f) in p.stderr for f in GROUP_FILES[g])]
        if not bad:
            bad = list(groups)          # cannot tell which wrappers broke: fall back to the public API only
        if not groups:
            raise ReplayUnavailable('replay crate does not build against the current tree: ' + p.stderr[-1500:])
        for g in bad:
            dropped[g] = [l for l in p.stderr.split('\n') if l.startswith('error')][:2]
        groups = [g for g in groups if g not in bad]
    else:
        raise ReplayUnavailable('replay crate does not build against the current tree: ' + p.stderr[-1500:])
    _built[repo] = os.path.join(target, 'debug', 'verif-replay')
    _groups[repo] = (groups, dropped)
    return _built[repo]


def run(scenario, args, repo='/repo', timeout=300):
    b = build(repo)
    need = SCENARIO_GROUP.get(scenario)
    groups, dropped = _groups.get(repo, (GROUPS, {}))
    if need and need not in groups:
        raise ReplayUnavailable('scenario %s needs the %s hooks of the library, which do not compile on this tree (%s)' % (scenario, need, '; '.join(dropped.get(need, []))[:300]))
    try:
        p = subprocess.run([b, scenario, '-'], input=json.dumps(args), capture_output=True, text=True, timeout=timeout)
    except subprocess.TimeoutExpired:
        # the real code did not come back: for a scenario that offers hostile input this is itself the observation (a stall)
        return dict(panicked=True, timed_out=True, stderr='scenario %s did not finish within %d s' % (scenario, timeout), rc=None)
    if p.returncode != 0:
        return dict(panicked=True, stderr=p.stderr[-800:], rc=p.returncode)
    return json.loads(p.stdout.strip().split('\n')[-1])


def replay_file(path):
    """./check replay <file>: re-run the concrete input recorded in a replay file on the real code"""
    d = json.load(open(path))
    cx = d.get('counterexample')
    if cx and cx.get('scenario') == 'enum':
        print('bounded-enumeration counterexample for %s: harness %s, choice sequence %s' % (d.get('obligation'), cx['harness'], cx['choices']))
        p = subprocess.run([cx['binary'], '--replay', cx['harness'], ','.join(map(str, cx['choices']))], capture_output=True, text=True)
        print((p.stdout + p.stderr)[-1500:])
        return 0
    if not cx or 'scenario' not in cx:
        print('replay file names obligation %s (%s); the verifier gave no concrete input (no-failing-input-found)'
              % (d.get('obligation'), d.get('prose')))
        print('\n'.join(d.get('verifier_output', []))[:3000])
        return 0
    got = run(cx['scenario'], cx['args'])
    print('scenario %s args %s' % (cx['scenario'], json.dumps(cx['args'])))
    print('observed on real code: %s' % json.dumps(got))
    print('expected by the property: %s' % json.dumps(cx.get('expected')))
    return 0
