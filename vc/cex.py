"""Counterexample engines: turn a failed obligation into a concrete input (Kani concrete playback or a small search),
replay it on the REAL crate through the hooks, and report observed vs expected."""
import driver
import replaylib


def _lex_lt(a, b):
    return list(a) < list(b)


def _unit(results, name):
    for r in results:
        if r.get('unit') == name:
            return r
    return None


def _replay(scenario, args, env):
    try:
        return replaylib.run(scenario, args, repo=env['repo']), True
    except replaylib.ReplayUnavailable as e:
        return dict(unavailable=str(e)), False


def cex_c05(obl, results, env):
    kr = _unit(results, 'kani_tiebreak')
    if not kr or kr.get('status') != 'ok':
        return None
    failed = [o for o in kr['obligations'] if o['status'] == 'failed']
    if not failed:
        return None
    names = [o['harness'] for o in failed]
    h = 'mixed_origin_matches_spec' if 'mixed_origin_matches_spec' in names else names[0]
    vecs, out = driver.kani_playback(kr, h)
    if not vecs:
        return dict(counterexample=None, kani_output=out)
    flat = [b for v in vecs for b in v]
    if h == 'mixed_origin_matches_spec' and len(flat) >= 65:
        own, remote, new_out = flat[:32], flat[32:64], bool(flat[64])
        existing, new = ('inbound', 'outbound') if new_out else ('outbound', 'inbound')
    elif len(flat) >= 64:
        # converge / order harness: ids a, b; look at node a receiving its own outbound dial second
        own, remote = flat[:32], flat[32:64]
        existing, new = 'inbound', 'outbound'
    else:
        return dict(counterexample=None, kani_output=out)
    args = dict(own=own, remote=remote, existing=existing, new=new)
    expected = _lex_lt(remote, own) if new == 'outbound' else _lex_lt(own, remote)
    got, ok = _replay('tie_break', args, env)
    return dict(counterexample=dict(scenario='tie_break', args=args, expected=dict(result=expected),
                                    meaning='replace the existing connection iff the new one was dialed by the greater PeerId',
                                    source='kani concrete playback of harness %s' % h),
                observed=got, replayed_on_real_code=ok, reproduced=bool(ok and got.get('result') != expected))


def _first_fail(res):
    if res and res.get('failed'):
        f = res['failed'][0]
        return dict(counterexample=dict(scenario=f['scenario'], args=f['args'], expected=f['expected'], source='search over golden vectors / boundary sizes (%s)' % res['name']),
                    observed=f['observed'], replayed_on_real_code=True, reproduced=True)
    return None


def cex_c07(obl, results, env):
    import validate
    kr = _unit(results, 'kani_wire')
    if obl['backend'].startswith('kani') and kr and kr.get('status') == 'ok':
        h = obl.get('harness')
        vecs, out = driver.kani_playback(kr, h)
        if vecs and h in ('read_version_total_and_exact', 'read_version_consumes_only_eight'):
            flat = [b for v in vecs for b in v]
            if h == 'read_version_total_and_exact':
                data, ln = flat[:8], int.from_bytes(bytes(flat[8:16]), 'little')
                data = data[:ln]
            else:
                data = flat[:12]
            valid = bytes(data[:8]) == b'anemo\x00\x01\x00' and len(data) >= 8
            got, ok = _replay('read_version', dict(bytes=data), env)
            return dict(counterexample=dict(scenario='read_version', args=dict(bytes=data), expected=dict(ok=valid), source='kani concrete playback of harness %s' % h),
                        observed=got, replayed_on_real_code=ok, reproduced=bool(ok and got.get('ok') != valid))
        if vecs and h == 'response_header_status_closed_set':
            x = int.from_bytes(bytes([b for v in vecs for b in v][:2]), 'little')
            msg = validate.PREAMBLE + validate.be32(len(validate.bincode_resp_header(x, {}))) + validate.bincode_resp_header(x, {}) + validate.be32(0)
            exp = x in (200, 400, 404, 408, 429, 500, 505, 520)
            got, ok = _replay('read_response', dict(bytes=msg.hex()), env)
            return dict(counterexample=dict(scenario='read_response', args=dict(bytes=msg.hex()), expected=dict(ok=exp, status=x if exp else None),
                                            meaning='a response whose header carries status %d' % x, source='kani concrete playback of harness %s' % h),
                        observed=got, replayed_on_real_code=ok, reproduced=bool(ok and (got.get('ok') != exp or (exp and got.get('status') != x))))
        if vecs and h in ('version_closed_set', 'status_closed_set'):
            x = int.from_bytes(bytes([b for v in vecs for b in v][:2]), 'little')
            if h == 'version_closed_set':
                got, ok = _replay('version_new', dict(version=x), env)
                exp = (x == 1)
            else:
                got, ok = _replay('status_new', dict(code=x), env)
                exp = x in (200, 400, 404, 408, 429, 500, 505, 520)
            return dict(counterexample=dict(scenario='version_new' if h == 'version_closed_set' else 'status_new', args=dict(version=x) if h == 'version_closed_set' else dict(code=x),
                                            expected=dict(ok=exp), source='kani concrete playback of harness %s' % h),
                        observed=got, replayed_on_real_code=ok, reproduced=bool(ok and got.get('ok') != exp))
    try:
        return _first_fail(validate.bincode_golden(env))
    except driver.Undecided:
        return None


def cex_c15(obl, results, env):
    import validate
    try:
        if 'configured_limit' in obl['id'] or 'length_field' in obl['id']:
            for n in (0, 1, 100, 65536, 8388608, 8388609, 1 << 31):
                got, ok = _replay('max_frame', dict(max_frame_size=n), env)
                if ok and got.get('max') != n:
                    return dict(counterexample=dict(scenario='max_frame', args=dict(max_frame_size=n), expected=dict(max=n), source='search over limit values'),
                                observed=got, replayed_on_real_code=True, reproduced=True)
        return _first_fail(validate.frame_boundary(env))
    except driver.Undecided:
        return None


TIMEOUT_TABLE = [(None, None), ("0", 0), ("1", 1), ("1500", 1500), ("1000000000", 1000000000), ("18446744073709551615", 2**64 - 1),
                 ("18446744073709551616", None), ("-1", None), (" 5", None), ("1.5", None), ("abc", None), ("", None)]


def cex_c11(obl, results, env):
    if obl['id'].startswith('Builder::start::'):
        import validate
        try:
            return _first_fail(validate.default_timeouts_wiring(env))
        except driver.Undecided:
            return None
    kr = _unit(results, 'kani_timeout')
    cands = []
    if kr and kr.get('status') == 'ok':
        failed = [o for o in kr['obligations'] if o['status'] == 'failed' and o['harness'] in ('inbound_deadline_is_min', 'outbound_deadline_is_min')]
        for o in failed:
            vecs, out = driver.kani_playback(kr, o['harness'])
            if not vecs:
                continue
            flat = [b for v in vecs for b in v]
            i = int.from_bytes(bytes(flat[:8]), 'little') % 12
            has_default = bool(flat[8]) if len(flat) > 8 else False
            default_ns = None
            if has_default and len(flat) >= 21:
                secs = int.from_bytes(bytes(flat[9:17]), 'little')
                nanos = int.from_bytes(bytes(flat[17:21]), 'little')
                default_ns = min(secs, 10**6) * 10**9 + (nanos // 10**6) * 10**6   # replay with a millisecond-aligned, representable default
            cands.append((o['harness'].split('_')[0], TIMEOUT_TABLE[i][0], default_ns, 'kani concrete playback of harness %s' % o['harness']))
    # small search as a fallback (both directions, header texts of the table, two defaults)
    for d in ('inbound', 'outbound'):
        for (txt, _) in TIMEOUT_TABLE:
            for dflt in (None, 250 * 10**6):
                cands.append((d, txt, dflt, 'search over header texts x defaults'))
    for (direction, txt, dflt, src) in cands:
        hv = dict(TIMEOUT_TABLE).get(txt) if txt is not None else None
        exp = None
        if hv is not None and dflt is not None:
            exp = min(hv, dflt)
        elif hv is not None:
            exp = hv
        elif dflt is not None:
            exp = dflt
        if exp is not None and exp > 10**9 * 3600 * 24 * 365 * 40:
            continue
        got, ok = _replay('timeout_select', dict(direction=direction, header=txt, default_ns=dflt), env)
        if not ok:
            return dict(counterexample=dict(scenario='timeout_select', args=dict(direction=direction, header=txt, default_ns=dflt), expected=dict(deadline_ns=exp), source=src),
                        observed=got, replayed_on_real_code=False, reproduced=False)
        obs = got.get('deadline_ns')
        bad = (exp is None) != (obs is None) or (exp is not None and abs(obs - exp) > 10**6) or got.get('inner_calls') != 1
        if bad:
            return dict(counterexample=dict(scenario='timeout_select', args=dict(direction=direction, header=txt, default_ns=dflt),
                                            expected=dict(deadline_ns=exp, inner_calls=1, note='tokio timers have millisecond granularity: observed may exceed expected by < 1 ms'), source=src),
                        observed=got, replayed_on_real_code=True, reproduced=True)
    return None


def cex_c20(obl, results, env):
    p, q, r = [1] * 32, [2] * 32, [3] * 32
    for allowed in ([], [p], [p, q]):
        for sender in (None, p, q, r):
            if sender is None:
                exp = dict(status=500, inner_calls=0)
            elif sender in allowed:
                exp = dict(status=200, inner_calls=1)
            else:
                exp = dict(status=404, inner_calls=0)
            got, ok = _replay('auth', dict(allowed=allowed, sender=sender), env)
            if not ok:
                return None
            if got.get('status') != exp['status'] or got.get('inner_calls') != exp['inner_calls']:
                return dict(counterexample=dict(scenario='auth', args=dict(allowed=allowed, sender=sender), expected=exp,
                                                meaning='allow-list of %d peer(s), sender %s' % (len(allowed), 'absent' if sender is None else ('listed' if sender in allowed else 'unlisted')),
                                                source='search over allow-lists x senders'),
                            observed=got, replayed_on_real_code=True, reproduced=True)
    return None


def cex_c10(obl, results, env):
    import validate
    try:
        return _first_fail(validate.admission_scenarios(env))
    except driver.Undecided:
        return None


def cex_c06(obl, results, env):
    if 'accept_loop' in obl['id']:
        import validate
        try:
            return _first_fail(validate.hostile_streams(env))
        except driver.Undecided:
            return None
    if 'imeout' in obl['id']:
        return cex_c11(obl, results, env)
    return cex_c07(obl, results, env)


def cex_cert(obl, results, env):
    """C01 / C03: the adversarial certificate corpus on the real verifiers"""
    import validate
    for f in (validate.cert_corpus, validate.stolen_certificate):
        try:
            got = _first_fail(f(env))
        except driver.Undecided:
            got = None
        if got:
            return got
    return None


def cex_names(obl, results, env):
    """C14: the network-name matrix, then the certificate corpus, on the real crate"""
    import validate
    for f in (validate.network_names, validate.claimed_name_grid, validate.cert_corpus):
        try:
            got = _first_fail(f(env))
        except driver.Undecided:
            got = None
        if got:
            return got
    return None
