"""Counterexample engines: turn a failed obligation into a concrete input (Kani concrete playback or a small search),
replay it on the REAL crate through the hooks, and report observed vs expected."""
import driver
import replaylib


def _lex_lt(a, b):
    return list(a) < list(b)


def _unit(results, name):
    for r in results:
        if r.get('unit') == name:
            return r
    return None


def _replay(scenario, args, env):
    try:
        return replaylib.run(scenario, args, repo=env['repo']), True
    except replaylib.ReplayUnavailable as e:
        return dict(unavailable=str(e)), False


def cex_c05(obl, results, env):
    kr = _unit(results, 'kani_tiebreak')
    if not kr or kr.get('status') != 'ok':
        return None
    failed = [o for o in kr['obligations'] if o['status'] == 'failed']
    if not failed:
        return None
    names = [o['harness'] for o in failed]
    h = 'mixed_origin_matches_spec' if 'mixed_origin_matches_spec' in names else names[0]
    vecs, out = driver.kani_playback(kr, h)
    if not vecs:
        return dict(counterexample=None, kani_output=out)
    flat = [b for v in vecs for b in v]
    if h == 'mixed_origin_matches_spec' and len(flat) >= 65:
        own, remote, new_out = flat[:32], flat[32:64], bool(flat[64])
        existing, new = ('inbound', 'outbound') if new_out else ('outbound', 'inbound')
    elif len(flat) >= 64:
        # converge / order harness: ids a, b; look at node a receiving its own outbound dial second
        own, remote = flat[:32], flat[32:64]
        existing, new = 'inbound', 'outbound'
    else:
        return dict(counterexample=None, kani_output=out)
    args = dict(own=own, remote=remote, existing=existing, new=new)
    expected = _lex_lt(remote, own) if new == 'outbound' else _lex_lt(own, remote)
    got, ok = _replay('tie_break', args, env)
    return dict(counterexample=dict(scenario='tie_break', args=args, expected=dict(result=expected),
                                    meaning='replace the existing connection iff the new one was dialed by the greater PeerId',
                                    source='kani concrete playback of harness %s' % h),
                observed=got, replayed_on_real_code=ok, reproduced=bool(ok and got.get('result') != expected))
