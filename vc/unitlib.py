"""Helpers shared by the unit definitions (vc/units/*.py).

A unit is a python module with
    NAME, BACKEND ('verus' | 'kani'), and  build(ctx) -> str   (the rendered, self-contained Rust file)
`ctx` gives access to the mechanical extractor with the standard rule pipeline and records, for the
evidence file, every function that was put under contract together with every rule applied to it.

Obligation markers in the rendered text (parsed back by the driver):
    <clause>,   // @OBL <id> [C04,C05] prose          one contract clause (ensures / invariant line)
    fn foo(...) // @FNOBL <id> [C04] prose            everything else proved about this fn: body safety
                                                      (unwrap/index/overflow/callee preconditions) or, for a
                                                      `proof fn`, the lemma statement itself
"""
import os
import re

from extract import AnchorLost, Extracted, extract, block_after, code_mask, match_delim  # noqa: F401


class Ctx:
    def __init__(self, repo, unit_name, flavour='verus'):
        self.repo = repo
        self.unit = unit_name
        self.flavour = flavour
        self.extracted = []      # Extracted objects (functions and types)
        self.fn_keys = []        # keys of functions under contract
        self.notes = []
        self.probe_fns = {}      # key -> dict(text=..., impl=...) used by the cover-probe generator
        self.helper_requests = []  # (relpath, impl header or None, fn name) found by the driver
        self.helpers = []
        self.helper_rewrites = []
        self.lost = []           # obligations that could not even be stated on this tree (anchor gone): reported as unreached

    # -- graceful degradation: an anchor that an edit removed costs the obligations attached to it, not the whole unit ---------
    def _lose(self, key, props, texts, reason, body=True):
        if body:
            self.lost.append(dict(id=key + '::body', props=list(props), prose='body verifies', fn_key=key, reason=reason))
        for txt in texts:
            for m in re.finditer(r'//\s*@OBL\s+(\S+)\s+\[([^\]]*)\]\s*(.*)$', txt or '', re.M):
                self.lost.append(dict(id=m.group(1), props=[x.strip() for x in m.group(2).split(',') if x.strip()], prose=m.group(3).strip(), fn_key=key, reason=reason))
        self.note('%s: %s' % (key, reason))

    def _soft_rewrites(self, e, rewrites):
        for rw in rewrites:
            try:
                e.rewrite(*rw) if isinstance(rw, tuple) else e.rewrite(**rw)
            except AnchorLost as err:
                self.note('%s: adaptation rewrite not applicable on this tree (%s)' % (e.key, str(err)[-160:]))

    # -- plain items (struct / enum / const / type) -------------------------------------------------
    def item(self, rel, path, derives=True, pub_fields=True, rewrites=(), keep_attrs=False, extra_derive=()):
        e = extract(self.repo, rel, path)
        e.strip_docs()
        names = e.derives() if derives else []
        if not keep_attrs:
            e.inner_attrs()
        for rw in rewrites:
            e.rewrite(*rw) if isinstance(rw, tuple) else e.rewrite(**rw)
        e.make_pub()
        if pub_fields and re.match(r'\s*pub\s+struct\b', e.text):
            e.pub_fields()
        self.extracted.append(e)
        names = list(names) + [d for d in extra_derive if d not in names]
        head = ''
        if names:
            head = '#[derive(%s)]\n' % ', '.join(names)
        return '// ---- extracted: %s :: %s (lines %d-%d)\n%s%s\n' % (rel, path, e.span[0], e.span[1], head, e.text)

    # -- functions under contract ---------------------------------------------------------------------
    def fn(self, rel, path, key, props, ret=None, spec='', body_prefix='', rewrites=(), sig_rewrites=(),
           prose='body verifies: no panic (unwrap/expect/index/overflow) and every callee precondition holds',
           pub=True, inserts=(), probe=True, attrs='', transforms=(), optional=False, param_names=()):
        try:
            e = extract(self.repo, rel, path, key=key)
        except AnchorLost as err:
            if not optional:
                self._lose(key, props, [spec] + [i[2] for i in inserts], 'function not found in the source (%s)' % str(err)[-200:])
                return '// ---- (not found) %s\n' % key
            self.note('function %s no longer exists in the source (%s): its obligations are dropped; the callers\' contracts still have to hold' % (key, err))
            return '// ---- (gone) %s\n' % key
        e.strip_docs()
        e.inner_attrs()
        try:
            # the signature as far as the division of work goes: parameter NAMES (and a leading underscore) do not count
            e.sig_orig = re.sub(r'\b(?:mut\s+)?_*[A-Za-z][A-Za-z0-9_]*\s*:\s*(?!:)', '', norm(e.fn_parts()[0]))
        except AnchorLost:
            e.sig_orig = None
        # X9(d): the contract is written with the parameter names of the pinned tree (vc/param_baseline.json); if an edit renamed parameters (same
        # number, same order) the names in the contract text follow
        try:
            e.param_names_orig = _param_names(e.fn_parts()[0])
        except Exception:
            e.param_names_orig = None
        base = self._param_baseline().get(key)
        if base and e.param_names_orig and len(base) == len(e.param_names_orig) and base != e.param_names_orig and '$' not in spec:
            def _ren(text):
                for b, c in zip(base, e.param_names_orig):
                    if b != c and b != '__unnamed' and c != '__unnamed':
                        text = re.sub(r'(?<![\.\w:])%s\b(?!\s*:(?!:))' % re.escape(b), '\x00%s\x00' % c, text)
                return text.replace('\x00', '')
            spec = _ren(spec)
            body_prefix = _ren(body_prefix)
            inserts = tuple((i[0], i[1], _ren(i[2])) + tuple(i[3:]) for i in inserts)
            ren = dict(zip(base, e.param_names_orig))
            param_names = tuple(ren.get(n, n) for n in param_names)
            e.log('X9d', 'parameters renamed by the edit (%s -> %s): the contract text follows' % (base, e.param_names_orig))
        e.normalize_params(param_names)
        e.drop_log_macros()
        e.replace_macro('anyhow', 'Error::msg()')
        e.replace_macro('bail', 'return Err(Error::msg())')
        self._soft_rewrites(e, rewrites)
        for ins in inserts:
            try:
                if len(ins) == 4 and ins[3] == 'before':
                    e.insert_before(*ins[:3], count=1)
                else:
                    e.insert_after(*ins[:3], count=1)
            except AnchorLost as err:
                self._lose(key, props, [ins[2]], 'the statement this obligation is attached to is gone or ambiguous (%s)' % str(err)[-200:], body=False)
        try:
            for tr in transforms:
                tr(e)
            if pub:
                e.make_pub()
            pre_contract = e.text
            if '$' in spec:
                # positional parameter references: `$1`, `$2`, .. stand for the function's non-self parameters in order, whatever they are called
                # in this tree (so that renaming a parameter changes nothing)
                pn = _param_names(e.fn_parts()[0])
                def _sub(m):
                    k = int(m.group(1))
                    if k < 1 or k > len(pn):
                        raise AnchorLost('%s: the contract refers to parameter %d, the function has %d' % (key, k, len(pn)))
                    return pn[k - 1]
                spec = re.sub(r'\$(\d)', _sub, spec)
            e.contract(ret=ret, spec=spec, body_prefix=body_prefix, sig_rewrites=sig_rewrites)
        except AnchorLost as err:
            self._lose(key, props, [spec] + [i[2] for i in inserts], 'the function no longer has the shape its contract is written for (%s)' % str(err)[-200:])
            return '// ---- (shape changed) %s\n' % key
        self.extracted.append(e)
        self.fn_keys.append(key)
        # FNOBL marker goes at the end of the first line of the signature
        first, nl, rest = e.text.partition('\n')
        if 'external_body' in attrs:
            # assumed contract: not an obligation, listed in the trusted base by the scan
            marked = '%s // @ASSUMED %s%s%s' % (first, key, nl, rest)
            self.note('ASSUMED contract (external_body, body not verified): %s' % key)
            probe = False
        else:
            marked = '%s // @FNOBL %s::body [%s] %s%s%s' % (first, key, ','.join(props), prose, nl, rest)
        if probe:
            # cover-probe source: same text with `ensures` clauses removed (requires kept)
            self.probe_fns[key] = dict(sig=e.sig_final, body=e.body_final, requires=_only_requires(spec), attrs=attrs)
        return ('// ---- extracted: %s :: %s (lines %d-%d, sha256 %s)\n%s%s\n'
                % (rel, path, e.span[0], e.span[1], e.sha256[:16], attrs, marked))

    # -- X10: statement / block lifting -----------------------------------------------------------------
    def lifted(self, rel, path, key, props, anchor, name, params, ret_ty='', ret=None, spec='', body_prefix='', rewrites=(),
               kind='stmt', is_async=False, transforms=(), tail='', inserts=(),
               prose='lifted block verifies: no panic and every callee precondition holds', attrs=''):
        try:
            return self._lifted(rel, path, key, props, anchor, name, params, ret_ty, ret, spec, body_prefix, rewrites, kind, is_async, transforms, tail, inserts, prose, attrs)
        except AnchorLost as err:
            self._lose(key, props, [spec] + [i[2] for i in inserts], 'the statement / block this contract is attached to is gone or has another shape (%s)' % str(err)[-200:])
            return '// ---- (anchor lost) %s\n' % key

    def _lifted(self, rel, path, key, props, anchor, name, params, ret_ty, ret, spec, body_prefix, rewrites, kind, is_async, transforms, tail, inserts, prose, attrs):
        """extract the statement (kind='stmt': from `anchor` to the `;` closing it) or the block (kind='block': the
        `{...}` following `anchor`) out of fn `path` and wrap it as a function with the declared parameters"""
        e = extract(self.repo, rel, path, key=key)
        e.strip_docs()
        e.inner_attrs()
        e.drop_log_macros()
        e.replace_macro('anyhow', 'Error::msg()')
        e.replace_macro('bail', 'return Err(Error::msg())')
        t = e.text
        if hasattr(anchor, 'finditer'):
            # an anchor given by SHAPE (a compiled regex): it must match exactly once; the matched text is the anchor
            found = [m.group(0) for m in anchor.finditer(t)]
            if len(found) != 1:
                raise AnchorLost('%s [%s]: lift anchor /%s/ found %d times' % (rel, key, anchor.pattern, len(found)))
            anchor = found[0]
        if t.count(anchor) != 1:
            raise AnchorLost('%s [%s]: lift anchor %r found %d times' % (rel, key, anchor, t.count(anchor)))
        if kind == 'block':
            inner = block_after(t, anchor)
            body = inner
        elif kind == 'tail':
            # everything after the statement that starts at `anchor`, up to the end of the fn body
            i = t.index(anchor)
            mask = code_mask(t)
            j = i
            while j < len(t):
                if mask[j] and t[j] in '([{':
                    j = match_delim(t, mask, j) + 1
                    continue
                if mask[j] and t[j] == ';':
                    break
                j += 1
            end = len(t) - 1
            while end > 0 and not (mask[end] and t[end] == '}'):
                end -= 1
            if j >= end:
                raise AnchorLost('%s [%s]: no tail after %r' % (rel, key, anchor))
            body = '{\n        ' + t[j + 1:end].strip() + '\n' + tail + '    }'
        else:
            i = t.index(anchor)
            mask = code_mask(t)
            j = i
            while j < len(t):
                if mask[j] and t[j] in '([{':
                    j = match_delim(t, mask, j) + 1
                    continue
                if mask[j] and t[j] == ';':
                    break
                j += 1
            if j >= len(t):
                raise AnchorLost('%s [%s]: lifted statement has no end' % (rel, key))
            body = '{\n        ' + t[i:j + 1] + '\n' + tail + '    }'
        e.log('X10', '%s at %r lifted into fn %s(%s)' % (kind, anchor, name, norm(params)))
        e.text = body
        self._soft_rewrites(e, rewrites)
        for tr in transforms:
            tr(e)
        for ins in inserts:
            (rule, anc, txt, where, optional) = ins
            if optional and anc not in e.text:
                self.note('%s: optional insertion anchor %r not present: the obligation attached to it does not apply' % (key, anc))
                continue
            try:
                e.insert_before(rule, anc, txt, count=1) if where == 'before' else e.insert_after(rule, anc, txt, count=1)
            except AnchorLost as err:
                self._lose(key, props, [txt], 'the statement this obligation is attached to is gone or ambiguous (%s)' % str(err)[-200:], body=False)
        body = e.text
        sig = 'pub %sfn %s(%s)' % ('async ' if is_async else '', name, params)
        if ret_ty:
            sig += ' -> (%s: %s)' % (ret or 'r', ret_ty)
        e.sig_final = sig
        e.body_final = '{' + body_prefix + body[1:]
        e.text = sig + '\n' + spec.rstrip() + '\n' + e.body_final
        self.extracted.append(e)
        self.fn_keys.append(key)
        first, nl, rest = e.text.partition('\n')
        marked = '%s // @FNOBL %s::body [%s] %s%s%s' % (first, key, ','.join(props), prose, nl, rest)
        self.probe_fns[key] = dict(sig=e.sig_final, body=e.body_final, requires=_only_requires(spec), attrs=attrs)
        return ('// ---- extracted: %s :: %s (lines %d-%d, sha256 %s) -- LIFTED %s\n%s%s\n'
                % (rel, path, e.span[0], e.span[1], e.sha256[:16], kind, attrs, marked))

    # -- helpers introduced by an edit (auto-included, no contract) -----------------------------------------
    def helpers_here(self):
        """place for functions the unit does not name but the extracted code calls (found by the driver after a failed
        compile).  They are copied with the standard rule pipeline and NO contract: Kani simply executes them; for Verus a
        caller that depends on one cannot be proved and its failure is reported as undecided, never as a violation."""
        out = ['// @HELPERS (auto-included callees; none on the pinned tree)']
        for (rel, impl_hdr, name, kw) in self.helper_requests:
            if kw == 'use':
                out.append('#[allow(unused_imports)] %s   // AUTO: standard-library import of %s that the edit relies on' % (name, rel))
                self.note('AUTO import: ' + name)
                continue
            path = ('impl %s :: %s %s' % (impl_hdr, kw, name)) if impl_hdr else ('%s %s' % (kw, name))
            e = extract(self.repo, rel, path, key='helper:' + (re.sub(r'\s+', '', impl_hdr) + '::' if impl_hdr else '') + name)
            e.strip_docs(); e.inner_attrs()
            if kw == 'fn':
                e.normalize_params()
            e.drop_log_macros()
            e.replace_macro('anyhow', 'Error::msg()'); e.replace_macro('bail', 'return Err(Error::msg())')
            for rw in self.helper_rewrites:
                e.rewrite(**dict(rw, optional=True))
            for tr in getattr(self, 'helper_transforms', []):
                tr(e)
            e.make_pub()
            pre = ''
            if kw in ('struct', 'enum'):
                names = e.derives()
                if kw == 'struct':
                    e.pub_fields()
                if names:
                    pre = '#[derive(%s)]\n' % ', '.join(names)
                e.log('AUTO', 'type introduced by the edit auto-included')
            elif kw == 'const':
                if re.search(r'=\s*(-?\d[\d_]*(?:[ui](?:8|16|32|64|128|size))?|true|false)\s*;\s*$', e.text):
                    e.log('AUTO', 'constant with a literal value auto-included as is')   # value visible to the verifier: not a taint
                else:
                    if self.flavour == 'verus':
                        e.text = re.sub(r'^pub\s+const\b', 'pub exec const', e.text.lstrip())
                        pre = '#[verifier::external_body] '
                    e.log('AUTO', 'constant auto-included; its value is opaque to Verus')
                    self.helpers.append(name)
            elif kw == 'type':
                e.log('AUTO', 'type alias introduced by the edit auto-included as is')
            elif kw == 'static':
                if self.flavour == 'verus':
                    pre = '#[verifier::external] '
                e.log('AUTO', 'process-wide static introduced by the edit auto-included (state that outlives a call: no contract speaks about it)')
                self.helpers.append(name)
            else:
                e.log('AUTO', 'helper auto-included without contract')
                self.helpers.append(name)
            self.extracted.append(e)
            txt = '// ---- auto-included helper: %s :: %s\n%s%s\n' % (rel, path, pre, e.text)
            if impl_hdr:
                txt = 'impl %s {\n%s}\n' % (impl_hdr, txt)
            out.append(txt)
        return '\n'.join(out) + '\n'

    def note(self, s):
        self.notes.append(s)

    def _param_baseline(self):
        if not hasattr(self, '_pb'):
            try:
                import json as _json
                self._pb = _json.load(open(os.path.join(os.path.dirname(os.path.abspath(__file__)), 'param_baseline.json'))).get(self.unit, {})
            except Exception:
                self._pb = {}
        return self._pb


def _param_names(sig):
    """names of the non-self parameters of a fn signature, in order"""
    m = re.search(r'\bfn\s+[A-Za-z_][A-Za-z0-9_]*', sig)
    i = m.end()
    depth = 0
    if i < len(sig) and sig[i] == '<':
        while i < len(sig):
            if sig[i] == '<': depth += 1
            elif sig[i] == '>' and sig[i - 1] != '-':
                depth -= 1
                if depth == 0:
                    i += 1
                    break
            i += 1
    while i < len(sig) and sig[i] != '(':
        i += 1
    depth, cur, parts = 0, '', []
    for ch in sig[i + 1:]:
        if ch in '([{<': depth += 1
        elif ch in ')]}>':
            if ch == ')' and depth == 0:
                break
            depth -= 1
        if ch == ',' and depth == 0:
            parts.append(cur); cur = ''
        else:
            cur += ch
    if cur.strip():
        parts.append(cur)
    out = []
    for p in parts:
        p = p.strip()
        if re.match(r'^(&\s*)?(\'\w+\s+)?(mut\s+)?self\b', p):
            continue
        mm = re.match(r'^(?:mut\s+)?([A-Za-z_][A-Za-z0-9_]*)\s*:', p)
        out.append(mm.group(1) if mm else '__unnamed')
    return out


def norm(s):
    return re.sub(r'\s+', ' ', s).strip()


def _only_requires(spec):
    """keep the `requires` section of a contract text, drop `ensures` (used for cover probes)"""
    m = re.search(r'^\s*requires\b', spec, re.M)
    if not m:
        return ''
    tail = spec[m.start():]
    m2 = re.search(r'^\s*(ensures|returns|decreases)\b', tail, re.M)
    return tail[:m2.start()] if m2 else tail


def obl(oid, props, prose=''):
    return '// @OBL %s [%s] %s' % (oid, ','.join(props), prose)
