#!/usr/bin/env python3
"""Driver: renders units from /repo's current working tree, runs the verifiers, maps every verifier error to
a named obligation, classifies the outcome (held / known finding / violation / undecided), writes evidence.
See DESIGN.md section 3.
"""
import concurrent.futures as cf
import hashlib
import importlib
import json
import os
import re
import shutil
import subprocess
import sys
import time

HERE = os.path.dirname(os.path.abspath(__file__))
VERIF = os.path.dirname(HERE)
sys.path.insert(0, HERE)
sys.path.insert(0, os.path.join(HERE, 'units'))

from extract import AnchorLost  # noqa: E402
import unitlib  # noqa: E402

REPO = os.environ.get('VERIF_REPO', '/repo')
CACHE = os.path.join(VERIF, '.cache')
EVID = os.path.join(VERIF, 'evidence')
REPLAYS = os.path.join(VERIF, 'replays')
KNOWN = os.path.join(VERIF, 'known_findings.txt')

OBL_RE = re.compile(r'//\s*@OBL\s+(\S+)\s+\[([^\]]*)\]\s*(.*)$')
FNOBL_RE = re.compile(r'//\s*@FNOBL\s+(\S+)\s+\[([^\]]*)\]\s*(.*)$')
FN_RE = re.compile(r'\bfn\s+([A-Za-z_][A-Za-z0-9_]*)\s*[<(]')

TRUST_PATTERNS = [r'external_body', r'assume_specification', r'\bassume\s*\(', r'\badmit\s*\(', r'\buninterp\b',
                  r'external_type_specification', r'kani::assume', r'kani::stub', r'#\[verifier::external\]',
                  r'external_trait_specification', r'external_fn_specification']

VERIFY_FAIL_MSGS = ('postcondition not satisfied', 'precondition not satisfied', 'assertion failed',
                    'possible arithmetic', 'possible division by zero', 'invariant not satisfied',
                    'loop invariant', 'decreases not satisfied', 'possible bit shift', 'assertion failure',
                    'unreachable code may be reachable', 'constructed value may fail to meet its declared type invariant',
                    'could not prove termination', 'failed to prove', 'cannot show invariant', 'invariant not', 'unable to prove', 'closure',
                    'precondition not met', 'not satisfied', 'recommendation not met', 'might fail', 'fails to satisfy')


class Undecided(Exception):
    pass


class NotVerifiable(Undecided):
    """verus / rustc rejected the rendered text (not a verification result); carries (message, primary line) pairs"""
    def __init__(self, msg, errors):
        super().__init__(msg)
        self.errors = errors


# --------------------------------------------------------------------------------------------------
def parse_markers(text):
    """-> (clause_obls: {line: obl}, fn_obls: {fnline: obl}) ; lines are 1-based"""
    clause, fnobl = {}, {}
    for ln, line in enumerate(text.split('\n'), 1):
        m = OBL_RE.search(line)
        if m:
            clause[ln] = dict(id=m.group(1), props=[p.strip() for p in m.group(2).split(',') if p.strip()],
                              prose=m.group(3).strip(), line=ln, kind='clause')
        m = FNOBL_RE.search(line)
        if m:
            fnobl[ln] = dict(id=m.group(1), props=[p.strip() for p in m.group(2).split(',') if p.strip()],
                             prose=m.group(3).strip(), line=ln, kind='fn')
    return clause, fnobl


def enclosing_fn_obl(lines, fnobl, ln):
    """obligation of the function enclosing 1-based line ln, or None"""
    for k in range(ln, 0, -1):
        if k in fnobl:
            return fnobl[k]
        if FN_RE.search(lines[k - 1]) and k != ln:
            # a function without marker: look one line up for a marker (attribute lines)
            return fnobl.get(k)
    return None


def trusted_scan(text):
    out = []
    lines = text.split('\n')
    for ln, line in enumerate(lines, 1):
        code = line.split('//')[0]
        for pat in TRUST_PATTERNS:
            if re.search(pat, code):
                # describe with the next line that names the item
                desc = None
                for k in range(ln - 1, min(ln + 6, len(lines))):
                    m = re.search(r'\b(fn|struct|enum|trait|type|impl)\s+([A-Za-z_][A-Za-z0-9_:<>, ]*)', lines[k])
                    if m:
                        desc = m.group(0).strip()
                        break
                m2 = re.search(r'assume_specification\s*(<[^>]*>)?\s*\[([^\]]*)\]', line)
                if m2:
                    desc = m2.group(2).strip()
                out.append('%s: %s' % (re.sub(r'\\[bs]\*?|\\', '', pat), desc or line.strip()[:80]))
                break
    # dedupe, keep order
    seen, res = set(), []
    for t in out:
        if t not in seen:
            seen.add(t)
            res.append(t)
    return res


# --------------------------------------------------------------------------------------------------
def run_verus(path, extra=(), timeout=600):
    cmd = ['verus', os.path.basename(path), '--output-json', '--time', '--multiple-errors', '20', '--error-format=json'] + list(extra)
    if '--num-threads' not in cmd:
        cmd += ['--num-threads', '8']
    t0 = time.time()
    try:
        p = subprocess.run(cmd, cwd=os.path.dirname(path), capture_output=True, text=True, timeout=timeout)
    except subprocess.TimeoutExpired:
        raise Undecided('verus timed out after %ds on %s' % (timeout, path))
    wall = time.time() - t0
    try:
        out = json.loads(p.stdout) if p.stdout.strip().startswith('{') else None
    except json.JSONDecodeError:
        out = None
    diags = []
    raw = []
    for l in p.stderr.split('\n'):
        l = l.strip()
        if l.startswith('{'):
            try:
                diags.append(json.loads(l))
            except json.JSONDecodeError:
                raw.append(l)
        elif l:
            raw.append(l)
    return dict(cmd=' '.join(cmd), rc=p.returncode, json=out, diags=diags, raw=raw, wall=wall)


CLOSURE_RE = re.compile(r'(?:[(,=]\s*(?:move\s+)?)\|([^|\n]*)\|(\s*->\s*\()?')
BASELINE_FILE = os.path.join(HERE, 'closure_baseline.json')
SIG_BASELINE_FILE = os.path.join(HERE, 'signature_baseline.json')


def unannotated_closures(text):
    """number of closures without a contract in a function text (Verus knows nothing about what they return)"""
    code = '\n'.join(l.split('//')[0] for l in text.split('\n'))
    return sum(1 for m in CLOSURE_RE.finditer(code) if not m.group(2)) + loops_without_invariant(code)


LOOP_RE = re.compile(r'(?<![\w.])(?:for\s+[^;{}]*?\s+in\s|while\s|loop\s*\{)')


def loops_without_invariant(code):
    """number of loops that carry no invariant (Verus can prove nothing THROUGH such a loop: a postcondition that fails behind one says nothing about
    the code).  Counted together with contract-less closures: more of them than on the pinned tree taints the function"""
    n = 0
    for m in LOOP_RE.finditer(code):
        head = code[m.start():]
        brace = head.find('{')
        if brace < 0:
            continue
        # Verus loop contracts sit between the loop head and its body (`while c invariant .. {`) -- or, for the rendered select-loops, inside an attribute
        hdr = head[:brace] if not head.startswith('loop') else ''
        after = head[brace:brace + 400]
        if 'invariant' in hdr or re.match(r'\{\s*(?:/\*.*?\*/\s*)?invariant\b', after, re.S):
            continue
        n += 1
    return n


def closure_taint(unit_name, ctx):
    """functions whose number of contract-less closures exceeds what the pinned tree has (committed baseline)"""
    try:
        base = json.load(open(BASELINE_FILE)).get(unit_name, {})
    except (OSError, ValueError):
        base = {}
    cur = {e.key: unannotated_closures(e.text) for e in ctx.extracted if getattr(e, 'sig_final', None)}
    return {k for k, n in cur.items() if n > base.get(k, 0)}, cur


def verus_unit(unit, workdir, text, tier):
    """verify rendered text; returns list of obligations with status + metadata"""
    path = os.path.join(workdir, unit.NAME + '.rs')
    with open(path, 'w') as f:
        f.write(text)
    r = run_verus(path, extra=getattr(unit, 'VERUS_ARGS', ()))
    clause, fnobl = parse_markers(text)
    lines = text.split('\n')
    res = r['json']
    vr = (res or {}).get('verification-results')
    errs = [d for d in r['diags'] if d.get('level') == 'error' and not d.get('message', '').startswith('aborting due')]
    def _prim_line(d):
        sp = [x for x in d.get('spans', []) if x.get('is_primary')] or d.get('spans', [])
        return sp[0].get('line_start') if sp else None
    compile_phase = vr is not None and vr.get('encountered-error') and not vr.get('errors') and not vr.get('verified') and errs
    if vr is None or vr.get('encountered-vir-error') or compile_phase:
        msg = '; '.join('%s (line %s)' % (d.get('message'), (d.get('spans') or [{}])[0].get('line_start')) for d in errs[:4])
        raise NotVerifiable('verus rejected the rendered unit %s (not a verification result): %s %s'
                            % (unit.NAME, msg, ' '.join(r['raw'][:3])), [(d.get('message', ''), _prim_line(d)) for d in errs])
    obls = {}
    fn_lines = sorted(fnobl)
    for o in clause.values():
        prev = [ln for ln in fn_lines if ln <= o['line']]
        o['fn_key'] = fnobl[prev[-1]]['id'][:-len('::body')] if prev and fnobl[prev[-1]]['id'].endswith('::body') else None
    for o in fnobl.values():
        o['fn_key'] = o['id'][:-len('::body')] if o['id'].endswith('::body') else None
    for o in list(clause.values()) + list(fnobl.values()):
        if o['id'] in obls:
            raise Undecided('duplicate obligation id %s in unit %s' % (o['id'], unit.NAME))
        obls[o['id']] = dict(o, status='discharged', backend='verus/z3', detail=[])
    unattributed = []
    helper_errors = []
    for d in errs:
        msg = d.get('message', '')
        if 'rlimit' in msg.lower() or 'resource limit' in msg.lower():
            raise Undecided('verus resource limit in unit %s: %s' % (unit.NAME, msg))
        if not any(k in msg for k in VERIFY_FAIL_MSGS):
            # verification did run (verus printed results): an unknown message here is NOT a compile error, so no quarantine
            raise Undecided('verus error that is not a known verification failure in unit %s: %s' % (unit.NAME, msg))
        hit = []
        for s in d.get('spans', []):
            lab = (s.get('label') or '')
            # only the span that names the failed clause / assertion counts; "at the end of the function body" spans cover whole bodies
            if not (lab.startswith('failed this') or (s.get('is_primary') and not lab.startswith('at '))):
                continue
            for ln in range(s['line_start'], s['line_end'] + 1):
                if ln in clause and clause[ln] not in hit:
                    hit.append(clause[ln])
        if not hit:
            prim = [s for s in d.get('spans', []) if s.get('is_primary')] or d.get('spans', [])
            if prim:
                o = enclosing_fn_obl(lines, fnobl, prim[0]['line_start'])
                if o:
                    hit.append(o)
        rendered = d.get('rendered') or msg
        if not hit:
            # an error inside an auto-included helper (no contract, e.g. an index or division it cannot justify on its own) is not an
            # obligation of anything: the helper is executed by the non-modular twins; Verus callers are tainted anyway
            prim = [s for s in d.get('spans', []) if s.get('is_primary')] or d.get('spans', [])
            in_helper = False
            if prim:
                for k in range(prim[0]['line_start'], 0, -1):
                    if lines[k - 1].startswith('// ---- auto-included helper:'):
                        in_helper = True
                        break
                    if lines[k - 1].startswith('// ---- extracted:') or lines[k - 1].startswith('// @HELPERS'):
                        break
            if in_helper:
                helper_errors.append(rendered[:300])
                continue
            unattributed.append(rendered)
        for o in hit:
            obls[o['id']]['status'] = 'failed'
            obls[o['id']]['detail'].append(rendered)
    if unattributed:
        raise Undecided('verification error outside any named obligation in unit %s: %s' % (unit.NAME, unattributed[0][:400]))
    if vr.get('errors', 0) > 0 and not helper_errors and not any(o['status'] == 'failed' for o in obls.values()):
        raise Undecided('verus reports %d error(s) but none could be mapped (unit %s)' % (vr['errors'], unit.NAME))
    # solver time per function
    ftimes = {}
    try:
        for m in res['times-ms']['smt']['smt-run-module-times']:
            for fb in m['function-breakdown']:
                ftimes[fb['function']] = fb['time-micros'] / 1e6
    except (KeyError, TypeError):
        pass
    return dict(obligations=list(obls.values()), verus_verified=vr.get('verified'), verus_errors=vr.get('errors'), helper_errors=helper_errors,
                solver_time_s=round(sum(ftimes.values()), 3), wall_s=round(r['wall'], 2), cmd=r['cmd'],
                file=path, slowest=sorted(ftimes.items(), key=lambda kv: -kv[1])[:3])


# --------------------------------------------------------------------------------------------------
# cover probes (DESIGN 3.4-2): every block of every function under contract must be reachable with consistent
# assumptions.  Clone k.j of a function sets a ghost flag at the start of block k and asserts its negation at
# probe point j; verus must REJECT every clone.
# --------------------------------------------------------------------------------------------------
def _blocks(body):
    """positions of `{` of statement blocks inside a fn body (body includes outer braces).  Excludes struct
    literal / closure-expression braces heuristically: a block is kept when the code before `{` ends with `)`
    (if/while/match scrutinee call), an identifier/keyword in (else, loop, async, move, unsafe) or `=>` ."""
    mask = unitlib.code_mask(body)
    res = []
    for i, ch in enumerate(body):
        if ch != '{' or not mask[i]:
            continue
        j = i - 1
        while j >= 0 and body[j].isspace():
            j -= 1
        before = body[max(0, j - 40):j + 1]
        kind = None
        if i == 0:
            kind = 'body'
        elif before.endswith('=>'):
            kind = 'arm'
        elif re.search(r'\bloop$', before):
            kind = 'loop'      # `loop {}` ends only through break / return: the point after it is not a probe point
        elif re.search(r'\belse$', before):
            kind = 'else'
        else:
            # find the statement head: scan back to previous ; { } at same depth
            k = j
            depth = 0
            while k >= 0:
                if mask[k]:
                    if body[k] in ')]}':
                        depth += 1
                    elif body[k] in '([{':
                        if depth == 0:
                            break
                        depth -= 1
                    elif body[k] == ';' and depth == 0:
                        break
                k -= 1
            head = body[k + 1:i].strip()
            if re.match(r'(if|while|for)\b', head) or re.match(r'(\}\s*)?else\s+if\b', head):
                kind = 'if'
            elif re.match(r'(let\s+[^=]+=\s*)?match\b', head) or re.match(r'return\s+match\b', head):
                kind = None  # the match body itself is not a statement block; its arms are
        if kind:
            res.append((i, unitlib.match_delim(body, mask, i), kind))
    return res


def gen_probes(ctx):
    """returns (probe text by impl header, list of probe descriptors)"""
    out, desc = [], []
    for key, pf in ctx.probe_fns.items():
        body = pf['body']
        blocks = _blocks(body)
        m = FN_RE.search(pf['sig'])
        if not m:
            continue
        fname = m.group(1)
        for k, (o, c, kind) in enumerate(blocks):
            inner = body[o + 1:c]
            if re.search(r'\b(explicit_panic\s*\(|unreachable!\s*\()', re.sub(r'//.*', '', inner)) and not any(o < o2 and c2 < c for (o2, c2, _k) in blocks):
                continue    # a block whose own statement is `panic!` / `unreachable!`: proving it dead is the body obligation itself
            diverges = bool(re.search(r'\b(return|break|continue)\b|\?\s*[;).]|\?\s*$|\b(resume_unwind|explicit_panic|unreachable|panic)\s*!?\s*\(', re.sub(r'//.*', '', inner)))
            # probe points: (a) right at block entry; (b) after the end of every enclosing/own statement block
            points = [('entry', o + 1)]
            if not diverges:
                for (o2, c2, kind2) in blocks:
                    if o2 <= o and c2 >= c and kind2 in ('if', 'else') and o2 != 0:
                        # only a complete if/else chain end is a statement end: next code must not be `else`
                        rest = body[c2 + 1:].lstrip()
                        if not rest.startswith('else'):
                            points.append(('after-%s@%d' % (kind2, o2), c2 + 1))
            for j, (pname, pos) in enumerate(points):
                new_name = '%s__probe_%d_%d' % (fname, k, j)
                flag_decl = '\n    let ghost mut __v: bool = false;'
                set_flag = ' proof { __v = true; } '
                probe = ' proof { assert(!__v); } '
                b = body
                # insert probe first (larger offsets first keeps positions valid)
                ins = sorted([(pos, probe), (o + 1, set_flag)], key=lambda t: -t[0])
                if pos == o + 1:
                    ins = [(o + 1, set_flag + probe)]
                for p_, t_ in ins:
                    b = b[:p_] + t_ + b[p_:]
                b = '{' + flag_decl + b[1:]
                sig = FN_RE.sub(lambda mm: mm.group(0).replace(fname, new_name, 1), pf['sig'], count=1)
                text = '%s%s // @PROBE %s block=%d(%s) point=%s\n%s\n%s\n' % (pf.get('attrs', ''), sig.split('\n')[0],
                                                                             key, k, kind, pname,
                                                                             '\n'.join(sig.split('\n')[1:]) + '\n' + pf['requires'], b)
                out.append((key, text))
                desc.append(dict(fn=key, name=new_name, block=k, kind=kind, point=pname))
    return out, desc


# --------------------------------------------------------------------------------------------------
def kani_unit(unit, workdir, text, tier):
    crate = os.path.join(workdir, 'crate')
    os.makedirs(os.path.join(crate, 'src'), exist_ok=True)
    with open(os.path.join(crate, 'Cargo.toml'), 'w') as f:
        f.write('[package]\nname = "%s"\nversion = "0.0.0"\nedition = "2021"\n\n[lib]\npath = "src/lib.rs"\n\n[dependencies]\n%s\n'
                '[workspace]\n\n[lints.rust]\nunexpected_cfgs = { level = "allow", check-cfg = ["cfg(kani)"] }\n'
                % (unit.NAME.replace('_', '-'), getattr(unit, 'DEPS', '')))
    if getattr(unit, 'DEPS', '') and os.path.exists(os.path.join(REPO, 'Cargo.lock')):
        shutil.copy(os.path.join(REPO, 'Cargo.lock'), os.path.join(crate, 'Cargo.lock'))   # pins the real versions of the crates used
    os.makedirs(os.path.join(crate, '.cargo'), exist_ok=True)
    with open(os.path.join(crate, '.cargo', 'config.toml'), 'w') as f:
        f.write('[net]\noffline = true\n')
    with open(os.path.join(crate, 'src', 'lib.rs'), 'w') as f:
        f.write(text)
    harnesses = {}
    lines = text.split('\n')
    for ln, line in enumerate(lines, 1):
        m = re.search(r'//\s*@KOBL\s+\[([^\]]*)\]\s*(.*)$', line)
        if m:
            fm = FN_RE.search(line)
            if not fm:
                raise Undecided('KOBL marker without fn on line %d of %s' % (ln, unit.NAME))
            bounded = '@BOUNDED' in line
            harnesses[fm.group(1)] = dict(id='%s::%s' % (unit.NAME, fm.group(1)), props=[p.strip() for p in m.group(1).split(',') if p.strip()],
                                          prose=m.group(2).replace('@BOUNDED', '').strip(), line=ln, kind='harness',
                                          bounded=bounded, harness=fm.group(1))
    env = dict(os.environ, CARGO_NET_OFFLINE='true', CARGO_TARGET_DIR=os.path.join(workdir, 'target'))
    cmd = ['cargo', 'kani', '-Z', 'function-contracts', '-Z', 'stubbing', '--output-format', 'terse', '-j', '8'] + list(getattr(unit, 'KANI_ARGS', ()))
    t0 = time.time()
    p = _run_group(cmd, crate, env, getattr(unit, 'TIMEOUT', 420))
    if p is None:
        raise Undecided('kani timed out on unit %s' % unit.NAME)
    wall = time.time() - t0
    out = p.stdout + '\n' + p.stderr
    with open(os.path.join(workdir, 'kani.log'), 'w') as f:
        f.write(out)
    # per harness verdicts
    verdict = {}
    cur = None
    times = {}
    for line in out.split('\n'):
        m = re.search(r'Checking harness ([A-Za-z0-9_:]+)', line)
        if m:
            cur = m.group(1).split('::')[-1]
        m = re.search(r'VERIFICATION:- (\w+)', line)
        if m and cur:
            verdict[cur] = m.group(1)
        m = re.search(r'Verification Time: ([0-9.]+)s', line)
        if m and cur:
            times[cur] = float(m.group(1))
    # -j mode prints "Thread N: Checking harness" and verdicts possibly interleaved; fall back on summary of failures
    failed_names = set(re.findall(r'Verification failed for - ([A-Za-z0-9_:]+)', out))
    summ = re.search(r'Complete - (\d+) successfully verified harnesses, (\d+) failures, (\d+) total', out)
    if not summ:
        raise Undecided('kani produced no summary for unit %s (see %s): %s' % (unit.NAME, os.path.join(workdir, 'kani.log'), out[-600:]))
    ok, bad, total = map(int, summ.groups())
    if total != len(harnesses):
        raise Undecided('kani ran %d harnesses, unit %s declares %d' % (total, unit.NAME, len(harnesses)))
    obls = []
    for h, o in harnesses.items():
        isfail = any(fn.split('::')[-1] == h for fn in failed_names)   # (per-harness verdict lines interleave under -j: not used)
        o = dict(o, status='failed' if isfail else 'discharged', backend='kani/cbmc', detail=[])
        if isfail:
            o['detail'].append(_kani_failure_excerpt(out, h))
        obls.append(o)
    if bad != sum(1 for o in obls if o['status'] == 'failed'):
        raise Undecided('kani summary (%d failures) does not match mapped failures in unit %s' % (bad, unit.NAME))
    return dict(obligations=obls, solver_time_s=round(sum(times.values()), 2), wall_s=round(wall, 2),
                cmd='(cd %s && CARGO_NET_OFFLINE=true %s)' % (crate, ' '.join(cmd)), file=os.path.join(crate, 'src/lib.rs'),
                crate=crate, env_target=env['CARGO_TARGET_DIR'])


class _P:
    pass


def _run_group(cmd, cwd, env, timeout):
    """run in its own process group so that a timeout also kills cbmc grandchildren"""
    import signal
    proc = subprocess.Popen(cmd, cwd=cwd, env=env, stdout=subprocess.PIPE, stderr=subprocess.PIPE, text=True, start_new_session=True)
    try:
        out, err = proc.communicate(timeout=timeout)
    except subprocess.TimeoutExpired:
        try:
            os.killpg(proc.pid, signal.SIGKILL)
        except ProcessLookupError:
            pass
        proc.communicate()
        return None
    r = _P()
    r.stdout, r.stderr, r.returncode = out, err, proc.returncode
    return r


def enum_unit(unit, workdir, text, tier):
    """bounded exhaustive enumeration: the extracted text + executable stand-ins compiled natively; every choice sequence is run"""
    crate = os.path.join(workdir, 'crate')
    os.makedirs(os.path.join(crate, 'src'), exist_ok=True)
    with open(os.path.join(crate, 'Cargo.toml'), 'w') as f:
        f.write('[package]\nname = "%s"\nversion = "0.0.0"\nedition = "2021"\n\n[[bin]]\nname = "enum"\npath = "src/main.rs"\n\n[workspace]\n\n[profile.release]\ndebug-assertions = true\noverflow-checks = true\n'
                % unit.NAME.replace('_', '-'))
    with open(os.path.join(crate, 'src', 'main.rs'), 'w') as f:
        f.write(text)
    harnesses = {}
    for ln, line in enumerate(text.split('\n'), 1):
        m = re.search(r'//\s*@EOBL\s+\[([^\]]*)\]\s*(.*)$', line)
        if m:
            fm = FN_RE.search(line)
            harnesses[fm.group(1)] = dict(id='%s::%s' % (unit.NAME, fm.group(1)), props=[p.strip() for p in m.group(1).split(',') if p.strip()],
                                          prose=m.group(2).replace('@BOUNDED', '').strip(), line=ln, kind='harness', bounded=True, harness=fm.group(1))
    env = dict(os.environ, CARGO_NET_OFFLINE='true', CARGO_TARGET_DIR=os.path.join(workdir, 'target'))
    t0 = time.time()
    p = _run_group(['cargo', 'build', '--release', '--offline', '--quiet'], crate, env, 600)
    if p is None or p.returncode != 0:
        raise Undecided('enumeration unit %s does not compile: %s' % (unit.NAME, (p.stderr if p else 'timeout')[-800:]))
    r = _run_group([os.path.join(workdir, 'target', 'release', 'enum')], crate, env, getattr(unit, 'TIMEOUT', 600))
    if r is None:
        raise Undecided('enumeration unit %s timed out' % unit.NAME)
    wall = time.time() - t0
    seen = {}
    for line in r.stdout.split('\n'):
        line = line.strip()
        if line.startswith('{'):
            try:
                d = json.loads(line)
                seen[d['harness']] = d
            except ValueError:
                pass
    if set(seen) != set(harnesses):
        raise Undecided('enumeration unit %s reported harnesses %s, declares %s: %s' % (unit.NAME, sorted(seen), sorted(harnesses), r.stderr[-400:]))
    obls = []
    for h, o in harnesses.items():
        d = seen[h]
        if d['runs'] < 2:
            raise Undecided('harness %s explored %d choice sequences (vacuous)' % (h, d['runs']))
        need = getattr(unit, 'COVER', {}).get(h, [])
        if not d['failures'] and any(d.get('cover', [0] * 8)[i] == 0 for i in need):
            raise Undecided('harness %s never reached cover point(s) %s (vacuous exploration): %s' % (h, need, d.get('cover')))
        o = dict(o, status='failed' if d['failures'] else 'discharged', backend='exhaustive enumeration (native, bounded)', detail=[], runs=d['runs'])
        if d['failures']:
            o['detail'].append('%d of %d choice sequences fail; first failing choice sequence %s: %s' % (d['failures'], d['runs'], d['first_failing_choices'], d['message']))
            o['counterexample_choices'] = d['first_failing_choices']
        obls.append(o)
    return dict(obligations=obls, solver_time_s=0.0, wall_s=round(wall, 2), cmd='(cd %s && cargo build --release --offline && ../target/release/enum)' % crate,
                file=os.path.join(crate, 'src/main.rs'), crate=crate, runs={h: seen[h]['runs'] for h in seen})


def _kani_failure_excerpt(out, h):
    idx = out.find('Checking harness')
    chunks = re.split(r'(?=Checking harness )', out)
    for c in chunks:
        if re.match(r'Checking harness \S*%s\b' % re.escape(h), c):
            fails = [l for l in c.split('\n') if 'Failed Checks' in l or 'FAILURE' in l or 'VERIFICATION' in l]
            return '\n'.join(fails[:12])
    return 'harness %s failed (see kani.log)' % h


_PLAYBACK = {}


def kani_playback(unitres, harness, timeout=900):
    """re-run one failed harness with concrete playback; returns list of byte vectors (kani::any() order) or None"""
    key = (unitres['crate'], harness)
    if key not in _PLAYBACK:
        _PLAYBACK[key] = _kani_playback(unitres, harness, timeout)
    return _PLAYBACK[key]


def _kani_playback(unitres, harness, timeout=900):
    crate = unitres['crate']
    env = dict(os.environ, CARGO_NET_OFFLINE='true', CARGO_TARGET_DIR=unitres['env_target'])
    cmd = ['cargo', 'kani', '-Z', 'function-contracts', '-Z', 'stubbing', '-Z', 'concrete-playback', '--concrete-playback=print',
           '--harness', harness]
    p = _run_group(cmd, crate, env, min(timeout, 300))
    if p is None:
        return None, 'playback timed out'
    out = p.stdout + p.stderr
    vecs = []
    m = re.search(r'let concrete_vals: Vec<Vec<u8>> = vec!\[(.*?)\n\s*\];', out, re.S)
    if not m:
        return None, out[-1500:]
    for vm in re.finditer(r'vec!\[([0-9,\s]*)\]', m.group(1)):
        vecs.append([int(x) for x in vm.group(1).replace('\n', ' ').split(',') if x.strip()])
    return vecs, out[-3000:]


# --------------------------------------------------------------------------------------------------
# Quarantine: when rustc / Verus cannot even process ONE function of a unit after an edit (a method the stand-ins do not
# have, a construct outside Verus' subset), that function keeps its contract but loses its body (external_body): its own
# obligations and those of every function that calls it become UNREACHED (the properties they belong to are undecided),
# while every other function of the unit is still verified.  Nothing is ever reported as discharged on that basis.
# --------------------------------------------------------------------------------------------------
def _fn_extent(text, e):
    """(start offset of the signature line, offset of the body, end offset) of extracted function e in the rendered text"""
    if e.key.startswith('helper:'):
        pos = text.find(e.text)
        if pos < 0:
            return None
        try:
            sig, body = e.fn_parts()
        except AnchorLost:
            return None
        return pos, pos + len(sig), pos + len(e.text)
    body = getattr(e, 'body_final', None)
    if not body:
        return None
    mk = text.find('// @FNOBL %s::body' % e.key)
    if mk < 0:
        return None
    start = text.rfind('\n', 0, mk) + 1
    b = text.find(body, start)
    if b < 0:
        # already quarantined: its body is the stub
        stub = '{ unimplemented!() } // @QUARANTINED'
        q = text.find(stub, start)
        nxt = text.find('// @FNOBL', mk + 5)
        if q >= 0 and (nxt < 0 or q < nxt):
            return start, q, q + len(stub)
        return None
    return start, b, b + len(body)


def _quarantine(text, ctx, errors):
    """-> (new text, {key: reason}) or None when some error lies outside every extracted function"""
    exts = []
    for e in ctx.extracted:
        if getattr(e, 'sig_final', None) or e.key.startswith('helper:'):
            x = _fn_extent(text, e)
            if x:
                exts.append((x, e))
    hit = {}
    fields = {}
    lines = text.split('\n')
    for (msg, ln) in errors:
        if ln is None:
            return None
        off = len('\n'.join(lines[:ln - 1])) + 1
        found = None
        for (x, e) in exts:
            if x[0] <= off <= x[2]:
                found = (x, e)
        if not found:
            # a FIELD of an extracted struct whose type the verifier cannot hold (e.g. a Mutex added by the edit): the field becomes opaque;
            # functions that touch it will fail to compile next round and be quarantined one by one, the others are still verified
            fm = re.match(r'^(\s*(?:pub(?:\([^)]*\))?\s+)?)([a-z_][A-Za-z0-9_]*)\s*:\s*(.+?)(,?)\s*$', lines[ln - 1])
            in_item = None
            for e in ctx.extracted:
                if not getattr(e, 'sig_final', None) and not e.key.startswith('helper:') and re.search(r'\bstruct\b', e.text[:200]):
                    pos = text.find(e.text)
                    if pos >= 0 and pos <= off <= pos + len(e.text):
                        in_item = e
            if fm and in_item is not None and fm.group(3).strip() != 'OpaqueField':
                fields[ln] = (in_item.key, fm, msg)
                continue
            # the error names a type and points at the struct as a whole: every field of that struct mentioning the type becomes opaque
            tm = re.search(r'`([A-Za-z_][\w:]*)` is not supported', msg)
            if tm and in_item is not None:
                tyname = tm.group(1).rsplit('::', 1)[-1]
                pos = text.find(in_item.text)
                first = text.count('\n', 0, pos) + 1
                some = False
                for k in range(first, first + in_item.text.count('\n') + 1):
                    fm2 = re.match(r'^(\s*(?:pub(?:\([^)]*\))?\s+)?)([a-z_][A-Za-z0-9_]*)\s*:\s*(.+?)(,?)\s*$', lines[k - 1])
                    if fm2 and re.search(r'\b%s\b' % re.escape(tyname), fm2.group(3)):
                        fields[k] = (in_item.key, fm2, msg)
                        some = True
                if some:
                    continue
            return None
        hit.setdefault(found[1].key, (found[0], found[1], msg))
    out = text
    reasons = {k: v[2] for k, v in hit.items()}
    if fields:
        ls = out.split('\n')
        for ln, (ikey, fm, msg) in fields.items():
            ls[ln - 1] = '%s%s: OpaqueField%s // @QUARANTINED field (was: %s)' % (fm.group(1), fm.group(2), fm.group(4), fm.group(3).strip()[:80])
            reasons['field:%s.%s' % (ikey, fm.group(2))] = msg
        out = '\n'.join(ls)
        if 'pub struct OpaqueField;' not in out:
            out = out.replace('verus! {\n', 'verus! {\n#[verifier::external_body] pub struct OpaqueField;   // a field type outside the verifier\'s reach (quarantine)\n'
                              'impl Clone for OpaqueField { #[verifier::external_body] fn clone(&self) -> (r: Self) { unimplemented!() } }\n'
                              'impl Default for OpaqueField { #[verifier::external_body] fn default() -> (r: Self) { unimplemented!() } }\n'
                              'impl core::fmt::Debug for OpaqueField { #[verifier::external_body] fn fmt(&self, f: &mut core::fmt::Formatter<\'_>) -> core::fmt::Result { unimplemented!() } }\n', 1)
        if hit:
            return None if False else _quarantine_apply(out, hit, reasons)
        return out, reasons
    return _quarantine_apply(out, hit, reasons)


def _quarantine_apply(out, hit, reasons):
    # offsets of function extents were computed on the text before field lines were rewritten: recompute by searching again is not needed as
    # long as field rewrites happen on OTHER lines; lengths may differ, so locate each function anew by its marker
    for key, (x, e, msg) in sorted(hit.items(), key=lambda kv: -kv[1][0][0]):
        x2 = _fn_extent(out, e) or x
        if '@QUARANTINED' in out[x2[0]:x2[2]]:
            # second level: even the CONTRACT of this function cannot be compiled on this tree (it names a field / type the edit changed):
            # the function is removed altogether; whoever calls it fails to compile next round and is quarantined in turn
            if key.startswith('helper:'):
                return None
            out = out[:x2[0]] + '// (function %s removed: its contract cannot be stated on this tree) @REMOVED' % key + out[x2[2]:]
            continue
        out = out[:x2[1]] + '{ unimplemented!() } // @QUARANTINED' + out[x2[2]:]
        # an inherent method / free function is also RENAMED: whoever calls it then fails to compile and is quarantined in turn (found by the
        # compiler, so exactly the callers and nobody else); methods of trait impls keep their name (the trait fixes it)
        hdr = _impl_header_of(out, x2[0])
        sig = out[x2[0]:x2[1]]
        nm = FN_RE.search(sig)
        if nm and not key.startswith('helper:') and (hdr is None or ' for ' not in hdr):
            sig = sig[:nm.start(1)] + nm.group(1) + '__unverified' + sig[nm.end(1):]
            out = out[:x2[0]] + sig + out[x2[1]:]
        out = out[:x2[0]] + '#[verifier::external_body] ' + out[x2[0]:]
    return out, reasons


def _escalate(text, ctx, errors, quarantined):
    """an auto-included helper that cannot even be declared (its signature is outside the subset): drop it and quarantine its callers"""
    lines = text.split('\n')
    drop = {}
    for (msg, ln) in errors:
        if ln is None:
            return None
        off = len('\n'.join(lines[:ln - 1])) + 1
        found = None
        for e in ctx.extracted:
            if e.key.startswith('helper:') and e.key in quarantined:
                sig = e.fn_parts()[0]
                pos = text.find(sig)
                if pos >= 0:
                    end = text.find('// @QUARANTINED', pos)
                    if end >= 0 and text.rfind('\n', 0, pos) + 1 <= off <= end + 20:
                        found = (e, pos, end + len('// @QUARANTINED'))
        if not found:
            return None
        drop[found[0].key] = (found, msg)
    out = text
    names = []
    for key, ((e, pos, end), msg) in sorted(drop.items(), key=lambda kv: -kv[1][0][1]):
        start = out.rfind('#[verifier::external_body] ', 0, pos)
        out = out[:start if start >= 0 and pos - start < 40 else pos] + '// (helper %s dropped: it cannot be declared in this subset) ' % key + out[end:]
        names.append(_called_name(e))
    callers = {}
    for e in ctx.extracted:
        if getattr(e, 'sig_final', None) and e.key not in quarantined:
            body = getattr(e, 'body_final', '') or ''
            for nm in names:
                if nm and re.search(r'(?:\b|\.)%s\s*(?:::<[^>]*>)?\(' % re.escape(nm), body):
                    callers[e.key] = 'calls helper %s, which cannot be declared in the verifier\'s subset (%s)' % (nm, list(drop.values())[0][1][:160])
    for key in sorted(callers, key=lambda k: -(_fn_extent(out, [e for e in ctx.extracted if e.key == k][0]) or (0,))[0]):
        e = [x for x in ctx.extracted if x.key == key][0]
        x = _fn_extent(out, e)
        if not x:
            return None
        out = out[:x[1]] + '{ unimplemented!() } // @QUARANTINED' + out[x[2]:]
        out = out[:x[0]] + '#[verifier::external_body] ' + out[x[0]:]
    return out, callers


def _called_name(e):
    m = FN_RE.search(getattr(e, 'sig_final', None) or e.text)
    return m.group(1) if m else None


def verus_unit_quarantining(unit, ctx, workdir, text, tier):
    original = text
    quarantined = {}
    removed = set()
    r = None
    for _round in range(12):
        try:
            r = verus_unit(unit, workdir, text, tier)
            break
        except NotVerifiable as err:
            q = _quarantine(text, ctx, err.errors)
            if os.environ.get('VC_DEBUG_QUARANTINE'):
                sys.stderr.write('[quarantine round %d] errors=%r -> %r\n' % (_round, err.errors[:4], q and q[1]))
            if not q or not q[1] or any(k in removed or (k in quarantined and k.startswith('helper:')) for k in q[1]):
                q = _escalate(text, ctx, err.errors, quarantined)
                if not q or (not q[1] and q[0] == text):       # (dropping a helper whose callers are all quarantined already is progress too)
                    raise
            text = q[0]
            for k in q[1]:
                if k in quarantined and ('(function %s removed:' % k) in text:
                    removed.add(k)
            for k, why in q[1].items():
                if k in quarantined:
                    continue
                mm = re.search(r'no (?:method|function or associated item) named `(\w+)`', why or '')
                if mm and ('fn %s__unverified' % mm.group(1)) in text:
                    why = 'relies on the contract of `%s`, which could not be verified on this tree' % mm.group(1)
                quarantined[k] = why
    if r is None:
        raise Undecided('unit %s: more than 12 rounds of quarantine' % unit.NAME)
    if not quarantined:
        return r, text
    clause, fnobl = parse_markers(original)
    have = {o['id']: o for o in r['obligations']}
    fn_lines = sorted(fnobl)
    for o in list(clause.values()) + list(fnobl.values()):
        if o['id'] not in have:
            prev = [ln for ln in fn_lines if ln <= o['line']]
            fk = fnobl[prev[-1]]['id'][:-len('::body')] if prev else None
            have[o['id']] = dict(o, fn_key=fk, status='unreached', backend='verus/z3', detail=[])
            r['obligations'].append(have[o['id']])
    # callers (transitively) of quarantined functions rely on a contract nobody verified
    # (a quarantined auto-included helper has no contract to rely on: its callers are verified against an arbitrary result)
    names = {k: _called_name(e) for e in ctx.extracted for k in [e.key] if k in quarantined and not k.startswith('helper:')}
    names = {k: nm for k, nm in names.items() if nm and ('fn %s__unverified' % nm) not in text}      # renamed ones: their callers were found by the compiler
    # what is left are methods of TRAIT impls (their name is fixed by the trait): a caller that goes through the trait relies on the trait's
    # contract, not on this impl's, so nothing is propagated for them
    names = {}
    dependent = {}
    changed = True
    bodies = {e.key: (getattr(e, 'body_final', None) or '') for e in ctx.extracted if getattr(e, 'sig_final', None)}
    while changed:
        changed = False
        for k, body in bodies.items():
            if k in quarantined or k in dependent:
                continue
            for qk, nm in list(names.items()):
                if nm and re.search(r'(?:\b|\.)%s\s*(?:::<[^>]*>)?\(' % re.escape(nm), body):
                    dependent[k] = qk
                    e2 = [e for e in ctx.extracted if e.key == k][0]
                    names[k] = _called_name(e2)
                    changed = True
                    break
    for o in r['obligations']:
        fk = o.get('fn_key')
        if fk in quarantined or any(o['id'] == k or o['id'].startswith(k + '::') for k in quarantined):
            qk = fk if fk in quarantined else [k for k in quarantined if o['id'] == k or o['id'].startswith(k + '::')][0]
            o['status'] = 'unreached'
            o['unreached'] = 'function %s is outside the verifier\'s reach on this tree (%s)' % (qk, quarantined[qk][:200])
        elif fk in dependent and o['status'] == 'discharged':
            o['status'] = 'unreached'
            o['unreached'] = 'relies on the contract of %s, which could not be verified on this tree' % dependent[fk]
    r['quarantined'] = quarantined
    for k in quarantined:
        ctx.probe_fns.pop(k, None)
    return r, text


# --------------------------------------------------------------------------------------------------
def run_unit(name, tier, repo=None, cache=None, probes=True):
    repo = repo or REPO
    cache = cache or CACHE
    unit = importlib.import_module(name)
    workdir = os.path.join(cache, unit.NAME)
    os.makedirs(workdir, exist_ok=True)
    t0 = time.time()
    ctx = unitlib.Ctx(repo, unit.NAME, unit.BACKEND)
    base = dict(unit=unit.NAME, backend=unit.BACKEND, status='ok', reason=None, obligations=[], functions=[],
                trusted=[], probes=dict(emitted=0, rejected=0, unplaceable=0), notes=[])
    try:
        helper_requests = []
        for _round in range(5):
            ctx = unitlib.Ctx(repo, unit.NAME, unit.BACKEND)
            ctx.tier = tier
            ctx.helper_requests = list(helper_requests)
            text = unit.build(ctx)
            if '// @HELPERS' not in text:
                break
            missing = find_missing_callees(unit, ctx, text, workdir, repo)
            new = [m for m in missing if m not in helper_requests]
            if not new:
                break
            helper_requests += new
        base['helpers'] = list(ctx.helpers)
        base['functions'] = [dict(key=e.key, file=e.file, lines=list(e.span), sha256=e.sha256, rules=e.rules) for e in ctx.extracted]
        base['trusted'] = trusted_scan(text) + list(getattr(unit, 'TRUSTED_EXTRA', []))
        base['notes'] = ctx.notes
        if hasattr(unit, 'structural'):
            sres = unit.structural(ctx)
            base['structural_checks'] = [dict(name=n, ok=ok, found=d) for (n, ok, d) in sres]
            badn = [n for (n, ok, d) in sres if not ok]
            if badn:
                raise Undecided('structural check(s) of unit %s differ from the pinned text: %s (a textual difference is not evidence of a defect; '
                                'the assumption it backs no longer holds as stated)' % (unit.NAME, ', '.join(badn)))
        if unit.BACKEND == 'verus':
            r, text = verus_unit_quarantining(unit, ctx, workdir, text, tier)
            tainted, counts = closure_taint(unit.NAME, ctx)
            for o in r['obligations']:
                if o.get('fn_key') in tainted or any(o['id'] == k or o['id'].startswith(k + '::') for k in tainted):
                    o['tainted'] = 'the function now contains a closure without contract, or a loop without invariant, that the pinned tree does not have'
            r['closure_counts'] = counts
            # a function whose SIGNATURE differs from the pinned one has had responsibilities moved in or out of it: its
            # function-level contract may no longer be what the property needs, so a failure needs a failing input to count
            try:
                sig_base = json.load(open(SIG_BASELINE_FILE)).get(unit.NAME, {})
            except (OSError, ValueError):
                sig_base = {}
            resig = {e.key for e in ctx.extracted if getattr(e, 'sig_orig', None) and e.key in sig_base and sig_base[e.key] != e.sig_orig}
            for o in r['obligations']:
                if not o.get('tainted') and (o.get('fn_key') in resig or any(o['id'] == k or o['id'].startswith(k + '::') for k in resig)):
                    o['tainted'] = 'the signature of the function differs from the pinned one (its contract was written for the old division of work)'
            # functions that call an auto-included (contract-less) helper or use an opaque auto-included constant
            if ctx.helpers:
                hp = re.compile(r'\b(%s)\b' % '|'.join(re.escape(h) for h in ctx.helpers))
                calling = {e.key for e in ctx.extracted if getattr(e, 'sig_final', None) and not e.key.startswith('helper:') and hp.search(e.text)}
                for o in r['obligations']:
                    if not o.get('tainted') and (o.get('fn_key') in calling or any(o['id'] == k or o['id'].startswith(k + '::') for k in calling)):
                        o['tainted'] = 'the function now uses helper(s) %s that carry no contract' % ', '.join(sorted(set(hp.findall(' '.join(e.text for e in ctx.extracted if e.key in calling and (o.get('fn_key') == e.key or o['id'] == e.key or o['id'].startswith(e.key + '::')))))))
            have = {o['id'] for o in r['obligations']}
            for lo in ctx.lost:
                if lo['id'] not in have:
                    r['obligations'].append(dict(id=lo['id'], props=lo['props'], prose=lo['prose'], fn_key=lo['fn_key'], kind='lost', line=0, status='unreached',
                                                 backend='verus/z3', detail=[], unreached='not stated on this tree: ' + lo['reason']))
            base.update(r)
            if probes and getattr(unit, 'PROBES', True) and ctx.probe_fns:
                base['probes'] = run_probes(unit, ctx, text, workdir)
        elif unit.BACKEND == 'enum':
            r = enum_unit(unit, workdir, text, tier)
            base.update(r)
        else:
            r = kani_unit(unit, workdir, text, tier)
            base.update(r)
    except AnchorLost as e:
        base.update(status='undecided', reason='anchor lost: %s' % e)
    except Undecided as e:
        base.update(status='undecided', reason=str(e))
    base['unit_wall_s'] = round(time.time() - t0, 2)
    base['module'] = name
    return base


MISSING_RES = [re.compile(r"cannot find function `(\w+)`"), re.compile(r"cannot find value `([A-Za-z_][A-Za-z0-9_]*)`"),
               re.compile(r"cannot find (?:type|struct, variant or union type|value|function, tuple struct or tuple variant) `([A-Z][A-Za-z0-9]*)`"),
               re.compile(r"named `(\w+)` found for (?:struct|enum|union|type alias|type) `(\w+)"),
               re.compile(r"no method named `(\w+)` found for (?:struct|enum|union|reference|mutable reference) `[&a-z ]*(\w+)")]


def _expand_use(tree, prefix=''):
    """flatten a use-tree (`a::{b, c::{d, e as f}}`) into (full path, bound name) pairs"""
    tree = tree.strip()
    out = []
    m = re.match(r'^((?:[\w]+::)*)\{(.*)\}$', tree, re.S)
    if m:
        depth, cur, parts = 0, '', []
        for ch in m.group(2):
            if ch == '{':
                depth += 1
            elif ch == '}':
                depth -= 1
            if ch == ',' and depth == 0:
                parts.append(cur); cur = ''
            else:
                cur += ch
        if cur.strip():
            parts.append(cur)
        for q in parts:
            out += _expand_use(q, prefix + m.group(1))
        return out
    m = re.match(r'^([\w:]+?)(?:\s+as\s+(\w+))?$', tree)
    if m:
        full = prefix + m.group(1)
        out.append((full, m.group(2) or full.rsplit('::', 1)[-1]))
    return out


def std_import_of(src_text, name):
    """`use std::…::name;` (or core/alloc) of a source file, as a one-line import, or None"""
    for m in re.finditer(r'^\s*(?:pub(?:\([^)]*\))?\s+)?use\s+([^;]+);', src_text, re.M):
        for (full, bound) in _expand_use(re.sub(r'\s+', ' ', m.group(1))):
            if bound == name and full.split('::')[0] in ('std', 'core', 'alloc'):
                return 'use %s%s;' % (full, '' if full.endswith('::' + name) or full == name else ' as ' + name)
    return None


def find_missing_callees(unit, ctx, text, workdir, repo):
    """compile the rendered unit quickly (no verification) and map unresolved function names to items of the source files
    the unit draws from"""
    from extract import SourceFile
    msgs = []
    if unit.BACKEND == 'verus':
        path = os.path.join(workdir, unit.NAME + '__resolve.rs')
        with open(path, 'w') as f:
            f.write(text)
        r = run_verus(path, extra=['--no-verify'])
        msgs = [d.get('message', '') for d in r['diags'] if d.get('level') == 'error']
        err_lines = [sp.get('line_start') for d in r['diags'] if d.get('level') == 'error' for sp in d.get('spans', []) if sp.get('is_primary')]
    else:
        crate = os.path.join(workdir, 'resolve')
        os.makedirs(os.path.join(crate, 'src'), exist_ok=True)
        with open(os.path.join(crate, 'Cargo.toml'), 'w') as f:
            f.write('[package]\nname = "resolve"\nversion = "0.0.0"\nedition = "2021"\n[workspace]\n[lints.rust]\nunexpected_cfgs = { level = "allow", check-cfg = ["cfg(kani)"] }\n')
        with open(os.path.join(crate, 'src', 'lib.rs'), 'w') as f:
            f.write(text)
        env = dict(os.environ, CARGO_NET_OFFLINE='true', CARGO_TARGET_DIR=os.path.join(workdir, 'resolve-target'))
        p = subprocess.run(['cargo', 'check', '--offline', '--message-format=short', '-q'], cwd=crate, capture_output=True, text=True, env=env)
        msgs = [l for l in p.stderr.split('\n') if 'error' in l]
        err_lines = [int(mm.group(1)) for l in msgs for mm in [re.match(r'src/lib\.rs:(\d+):', l.strip())] if mm]
    wanted = []
    for m in msgs:
        for rx in MISSING_RES:
            mm = rx.search(m)
            if mm:
                wanted.append((mm.group(1), mm.group(2) if mm.lastindex and mm.lastindex > 1 else None))
    # a method the edit introduced can be shadowed by a std method of the same name (`x.take(..)` -> "is not an iterator"): look at the
    # method calls on the lines the compiler complains about and ask for those the source defines but the rendered text does not
    tlines = text.split('\n')
    allmsg = ' '.join(msgs)
    for ln in set(l for l in err_lines if l and 0 < l <= len(tlines)):
        for mm in re.finditer(r'\.([a-z_][A-Za-z0-9_]*)\s*\(', tlines[ln - 1]):
            # (only a method the compiler actually names in a complaint, or a complaint of the "wrong receiver" kind -- `x.take(..)`: "is not an
            # iterator" -- that names no method at all: a line that fails for another reason says nothing about the other calls on it)
            if ('`%s`' % mm.group(1)) not in allmsg and not re.search(r'is not an iterator|trait bounds were not satisfied|method cannot be called', allmsg):
                continue
            if not re.search(r'\bfn\s+%s\s*[<(]' % re.escape(mm.group(1)), text) and (mm.group(1), '*') not in wanted:
                wanted.append((mm.group(1), '*'))
    if not wanted:
        return []
    files = []
    for e in ctx.extracted:
        if e.file not in files:
            files.append(e.file)
    found = []
    for (name, ty) in wanted:
        for rel in files:
            try:
                sf = SourceFile(os.path.join(repo, rel))
            except FileNotFoundError:
                continue
            hit = None
            for it in sf.items:
                if it.kw in ('fn', 'const', 'static', 'struct', 'enum', 'type') and it.name == name and ty is None:
                    hit = (rel, None, name, it.kw)
                elif it.kw == 'impl' and it.body_open is not None:
                    hdr = re.sub(r'\s+', ' ', it.header).strip()[len('impl'):].strip()
                    if ty is not None and ty != '*' and not re.search(r'\b%s\b' % re.escape(ty), hdr):
                        continue
                    if ' for ' in hdr and ty is None:
                        continue
                    for ch in sf._children(it):
                        if ch.kw in ('fn', 'const') and ch.name == name:
                            hit = (rel, hdr, name, ch.kw)
            if hit and hit not in found:
                found.append(hit)
                break
        else:
            if ty is None:
                for rel in files:
                    try:
                        imp = std_import_of(open(os.path.join(repo, rel)).read(), name)
                    except FileNotFoundError:
                        continue
                    if imp and (rel, None, imp, 'use') not in found and ('\n' + imp) not in text:
                        found.append((rel, None, imp, 'use'))
                        break
    return found


def _impl_header_of(text, pos):
    """header of the impl block that contains offset pos (column-0 `impl ... {`), or None for a free function"""
    k = text.rfind('\nimpl', 0, pos)
    while k >= 0:
        line_end = text.find('{', k)
        hdr = text[k + 1:line_end].strip()
        # is pos inside this block?  blocks at column 0 end with a line that is exactly '}'
        end = text.find('\n}\n', line_end)
        if end < 0 or end > pos:
            # make sure no other column-0 item starts between
            between = text[line_end:pos]
            if not re.search(r'\n(pub |fn |impl|struct|enum|mod |trait )', between.replace('\npub fn', '\n fn').replace('\npub async fn', '\n fn').replace('\nfn ', '\n fn ').replace('\nasync fn', '\n fn')):
                return hdr
            return None
        k = text.rfind('\nimpl', 0, k)
    return None


def run_probes(unit, ctx, text, workdir):
    """every probe clone goes into its own module (`impl` blocks may live in any module of the crate), so that verus checks
    them in parallel and ONLY them (--verify-module).  verus must reject each; clones that do not type-check are pruned."""
    probes, desc = gen_probes(ctx)
    if not probes:
        return dict(emitted=0, rejected=0, unplaceable=0)
    mods = {}
    for idx, (key, ptxt) in enumerate(probes):
        marker = '// @FNOBL %s::body' % key
        pos = text.find(marker)
        if pos < 0:
            raise Undecided('probe placement marker lost for %s' % key)
        hdr = _impl_header_of(text, pos)
        if hdr and ' for ' in hdr:
            # a trait impl cannot take extra methods: put the clone into an inherent impl of the same type
            m = re.match(r'impl(\s*<[^>]*>)?\s+.*?\s+for\s+(.*)$', hdr, re.S)
            hdr = 'impl%s %s' % (m.group(1) or '', m.group(2)) if m else None
        body = ptxt if not hdr else '%s {\n%s\n}' % (hdr, ptxt)
        uses = 'use super::*;\n'
        for mm in re.finditer(r'\npub mod (\w+) \{', text[:pos]):
            close = text.find('} // mod %s' % mm.group(1), mm.end())
            if close > pos:
                uses += 'use super::%s::*;\n' % mm.group(1)
        mods[idx] = 'pub mod __probe_%d {\n%s%s\n}\n' % (idx, uses, body)
    live = list(range(len(probes)))
    unplace = []
    tail = text.rfind('fn main() {}')
    for _round in range(6):
        t = text[:tail] + ''.join(mods[i] for i in live) + text[tail:]
        path = os.path.join(workdir, unit.NAME + '__probes.rs')
        with open(path, 'w') as f:
            f.write(t)
        lines = t.split('\n')

        def probe_of(ln):
            for k in range(ln, 0, -1):
                mm = re.match(r'pub mod __probe_(\d+) \{$', lines[k - 1])
                if mm:
                    return int(mm.group(1))
                if lines[k - 1].startswith('// ---- extracted:'):
                    return None
            return None
        extra = list(getattr(unit, 'VERUS_ARGS', ())) + ['--num-threads', '16']
        for i in live:
            extra += ['--verify-only-module', '__probe_%d' % i]
        r = run_verus(path, extra=extra)
        vr = (r['json'] or {}).get('verification-results')
        hard = [d for d in r['diags'] if d.get('level') == 'error' and not d.get('message', '').startswith('aborting due')
                and not any(k in d.get('message', '') for k in VERIFY_FAIL_MSGS)]
        if vr is None or vr.get('encountered-vir-error') or hard:
            bad = set()
            for d in (hard or r['diags']):
                if d.get('level') != 'error':
                    continue
                for sp in d.get('spans', []):
                    pi = probe_of(sp['line_start'])
                    if pi is not None:
                        bad.add(pi)
            if not bad:
                raise Undecided('probe file of unit %s rejected by verus outside probe clones: %s'
                                % (unit.NAME, '; '.join(d.get('message', '') for d in r['diags'][:3])))
            unplace += sorted(bad)
            live = [i for i in live if i not in bad]
            continue
        rejected = set()
        for d in r['diags']:
            if d.get('level') != 'error':
                continue
            for sp in d.get('spans', []):
                pi = probe_of(sp['line_start'])
                if pi is not None:
                    rejected.add(pi)
        if vr.get('verified', 0) + vr.get('errors', 0) < len(live):
            raise Undecided('probe run of unit %s checked %d items for %d probes (verifier crash?): %s'
                            % (unit.NAME, vr.get('verified', 0) + vr.get('errors', 0), len(live), ' '.join(r['raw'][:2])[:300]))
        vac = [i for i in live if i not in rejected]
        allowed = set(getattr(unit, 'PROBE_UNREACHABLE_OK', ()))
        vac = [i for i in vac if '%s:%d:%s' % (desc[i]['fn'], desc[i]['block'], desc[i]['point']) not in allowed]
        if vac:
            d0 = desc[vac[0]]
            raise Undecided('cover probe VERIFIED (vacuous or inconsistent path) in unit %s: fn %s block %d (%s) point %s'
                            % (unit.NAME, d0['fn'], d0['block'], d0['kind'], d0['point']))
        if vr.get('verified', 0) + vr.get('errors', 0) < len(live):
            raise Undecided('probe run of unit %s checked %d items for %d probes' % (unit.NAME, vr.get('verified', 0) + vr.get('errors', 0), len(live)))
        return dict(emitted=len(live), rejected=len(rejected & set(live)), unplaceable=len(unplace), wall_s=round(r['wall'], 2))
    raise Undecided('probe pruning did not converge in unit %s' % unit.NAME)


# --------------------------------------------------------------------------------------------------
def load_known():
    findings, fixed = [], []
    if os.path.exists(KNOWN):
        for line in open(KNOWN):
            line = line.strip()
            if line.startswith('finding:'):
                m = re.search(r'property=(\S+)\s+obligation=(\S+)\s*(.*)', line)
                if m:
                    findings.append(dict(prop=m.group(1), obligation=m.group(2), text=m.group(3)))
            elif line.startswith('fixed:'):
                fixed.append(line)
    return findings, fixed


def sanitize(s):
    return re.sub(r'[^A-Za-z0-9_.-]+', '_', s)


def check_property(prop, tier, registry, seed=0):
    t0 = time.time()
    spec = registry.PROPERTIES[prop]
    unit_names = list(spec['units']) + (list(spec.get('thorough_units', [])) if tier == 'thorough' else [])
    with cf.ThreadPoolExecutor(max_workers=min(8, max(1, len(unit_names)))) as ex:
        results = list(ex.map(lambda n: run_unit(n, tier), unit_names))
    findings, _fixed = load_known()
    known_ids = {f['obligation']: f for f in findings if f['prop'] == prop}
    mine, failed, bounded = [], [], []
    for r in results:
        for o in r['obligations']:
            if prop in o['props']:
                o = dict(o, unit=r['unit'])
                if o.get('bounded'):
                    bounded.append(o)
                else:
                    mine.append(o)
                if o['status'] == 'failed':
                    failed.append(o)
    undecided = [r for r in results if r['status'] != 'ok']
    unreached = [o for o in mine + bounded if o['status'] == 'unreached']
    if unreached:
        why = sorted({o.get('unreached', '') for o in unreached})
        undecided.append(dict(unit=unreached[0]['unit'], status='undecided', backend='verus',
                              reason='%d obligation(s) of this property are not decided on this tree (%s): %s'
                                     % (len(unreached), ', '.join(o['id'] for o in unreached[:4]) + (' ...' if len(unreached) > 4 else ''), '; '.join(why)[:500])))
    extra_checks = []
    hook_failures = []
    exec_fail = []
    for hook in spec.get('extra', []):
        try:
            henv = dict(repo=REPO, cache=CACHE, tier=tier, results=results, seed=seed)
            res = hook(henv)
            if not res.get('ok'):
                # execution checks run real networks in real time on a shared machine: a failure is believed only if it happens twice
                res2 = hook(henv)
                if res2.get('ok'):
                    res = dict(res2, note='a first run reported %d failure(s) that did not reproduce on an immediate second run (timing); not counted' % len(res.get('failed', [])),
                               unreproduced=res.get('failed', [])[:3])
                else:
                    res = res2
            extra_checks.append(dict(res, failed=res.get('failed', [])[:5]))
            if not res.get('ok') and prop in res.get('props', [prop]):
                exec_fail.append(res)
        except Undecided as e:
            undecided.append(dict(unit='extra:' + getattr(hook, '__name__', 'hook'), reason=str(e), status='undecided', backend='execution'))
    canary_report = None
    if tier == 'thorough':
        import canary as canary_mod
        cans = []
        for modname in spec.get('canaries', []):
            cm = importlib.import_module('canaries.' + modname)
            cans += [c for c in cm.CANARIES if c['unit'] in unit_names]
        cres = canary_mod.run_canaries(cans, repo=REPO, cache=CACHE, workers=8)
        surviving = [c for c in cres if c['status'] == 'ok' and not c['killed']]
        inconcl = [c for c in cres if c['status'] != 'ok']
        canary_report = dict(run=len(cres), killed=sum(1 for c in cres if c['killed']), surviving=[dict(id=c['id'], what=c['what']) for c in surviving],
                             inconclusive=[dict(id=c['id'], reason=(c['reason'] or '')[:160]) for c in inconcl],
                             sample=[dict(id=c['id'], what=c['what'], failed=c['failed'][:3]) for c in cres[:6]])
        if surviving:
            undecided.append(dict(unit='canaries', status='undecided', backend='canary',
                                  reason='deliberate property-breaking edit(s) survived (a contract has become too weak to be believed): %s' % ', '.join(c['id'] for c in surviving)))
        # proof stability: the same units under two other solver seeds must give the same verdicts
        stab = []
        for k in (1, 2):
            for r0 in results:
                if r0['backend'] == 'verus' and r0['status'] == 'ok':
                    u = importlib.import_module(r0['module'])
                    saved = getattr(u, 'VERUS_ARGS', ())
                    u.VERUS_ARGS = tuple(saved) + ('--smt-option', 'smt.random_seed=%d' % (seed * 7 + k * 1000 + 1))
                    try:
                        r1 = run_unit(r0['module'], tier, cache=os.path.join(CACHE, 'stability%d' % k), probes=False)
                    finally:
                        u.VERUS_ARGS = saved
                    same = r1['status'] == 'ok' and {o['id']: o['status'] for o in r1['obligations']} == {o['id']: o['status'] for o in r0['obligations']}
                    stab.append(dict(unit=r0['unit'], seed=seed * 7 + k * 1000 + 1, same_verdicts=same))
                    if not same:
                        undecided.append(dict(unit=r0['unit'], status='undecided', backend='verus', reason='verdicts change with the solver seed (unstable proof) in unit %s' % r0['unit']))
        canary_report['stability'] = stab
    known_hit = [o for o in failed if o['id'] in known_ids]
    new = [o for o in failed if o['id'] not in known_ids]
    os.makedirs(EVID, exist_ok=True)
    os.makedirs(REPLAYS, exist_ok=True)
    violations = []
    unit_helpers = {r['unit']: r.get('helpers', []) for r in results}
    for o in new:
        rp = os.path.join(REPLAYS, '%s-%s.json' % (prop, sanitize(o['id'])))
        replay = dict(property=prop, obligation=o['id'], prose=o['prose'], backend=o['backend'], unit=o['unit'],
                      verifier_output=o['detail'], counterexample=None, replayed_on_real_code=False, tier=tier)
        suffix = ' no-failing-input-found'
        if o.get('counterexample_choices') is not None:
            ur = [r for r in results if r['unit'] == o['unit']][0]
            replay['counterexample'] = dict(scenario='enum', binary=os.path.join(os.path.dirname(ur['crate']), 'target', 'release', 'enum'), harness=o['harness'],
                                            choices=o['counterexample_choices'], source='bounded exhaustive enumeration over the extracted function text with executable stand-ins (NOT the real crate)',
                                            rerun='%s --replay %s %s' % (os.path.join(os.path.dirname(ur['crate']), 'target', 'release', 'enum'), o['harness'], ','.join(map(str, o['counterexample_choices']))))
        cx = spec.get('counterexample')
        if cx and o.get('counterexample_choices') is None:
            try:
                got = cx(o, results, dict(repo=REPO, cache=CACHE, verif=VERIF))
                if got:
                    replay.update(got)
                    if got.get('replayed_on_real_code') and got.get('reproduced'):
                        suffix = ''
            except Exception as e:  # counterexample search is best effort
                replay['counterexample_error'] = repr(e)
        if suffix and o['backend'].startswith('verus') and (o.get('tainted') or '@CONFIRM' in o.get('prose', '')):
            why = o.get('tainted') or 'it is a sufficient condition that is stricter than the property (marked @CONFIRM)'
            undecided.append(dict(unit=o['unit'], status='undecided', backend='verus',
                                  reason='obligation %s cannot be discharged: %s, and no failing input was found on the real code' % (o['id'], why)))
            continue
        with open(rp, 'w') as f:
            json.dump(replay, f, indent=1)
        violations.append((o, rp, suffix))
    for res in exec_fail:
        f = res['failed'][0]
        rp = os.path.join(REPLAYS, '%s-exec-%s.json' % (prop, sanitize(res['name'])))
        with open(rp, 'w') as fh:
            json.dump(dict(property=prop, obligation='execution:' + res['name'], prose=res.get('clause', ''), backend='execution on the real crate (hooks)',
                           verifier_output=[], counterexample=dict(scenario=f['scenario'], args=f['args'], expected=f['expected']), observed=f['observed'],
                           replayed_on_real_code=True, reproduced=True, tier=tier, all_failures=res['failed'][:10]), fh, indent=1)
        violations.append((dict(id='execution:' + res['name'], prose=res.get('clause', '')), rp, ''))
    counted = [o for o in mine if o['id'] not in known_ids]
    discharged = [o for o in counted if o['status'] == 'discharged']
    trusted = []
    for r in results:
        for t in r.get('trusted', []):
            s = '%s: %s' % (r['unit'], t)
            if s not in trusted:
                trusted.append(s)
    trusted += [t for t in spec.get('trusted_base', []) if t not in trusted]
    samples = [dict(id=o['id'], backend=o['backend'], status=o['status'], statement=o['prose']) for o in counted[:8]]
    status = 'held'
    if violations:
        status = 'violation'
    elif undecided:
        status = 'undecided'
    elif known_hit:
        status = 'held-with-known-finding'
    cov = dict(
        obligations=len(counted), discharged=len(discharged),
        checker_cmd='; '.join(r.get('cmd', '') for r in results if r.get('cmd')),
        trusted_base=trusted,
        samples=samples or [dict(note='no obligation could be generated (undecided)')],
        explanation=spec.get('scope', ''),
        status=status,
        undecided_reasons=[dict(unit=r['unit'], reason=r['reason']) for r in undecided],
        backends=sorted({o['backend'] for o in counted}),
        obligation_list=[dict(id=o['id'], unit=o['unit'], backend=o['backend'], status=o['status'], statement=o['prose']) for o in counted],
        known_finding_obligations=[dict(id=o['id'], statement=o['prose'], listed_as=known_ids[o['id']]['text']) for o in known_hit],
        bounded_checks=[dict(id=o['id'], status=o['status'], statement=o['prose'], note='bounded stand-in, NOT counted in obligations') for o in bounded],
        functions_under_contract=[f for r in results for f in r.get('functions', [])],
        units=[dict(unit=r['unit'], backend=r['backend'], status=r['status'], solver_time_s=r.get('solver_time_s'), wall_s=r.get('unit_wall_s'),
                    verus_verified_items=r.get('verus_verified'), cover_probes=r.get('probes'), rendered_file=r.get('file'), quarantined=r.get('quarantined'),
                    slowest=r.get('slowest'), notes=r.get('notes')) for r in results],
        solver_time_s=round(sum((r.get('solver_time_s') or 0) for r in results), 2),
        cover_probes=dict(emitted=sum(r.get('probes', {}).get('emitted', 0) for r in results),
                          rejected=sum(r.get('probes', {}).get('rejected', 0) for r in results),
                          unplaceable=sum(r.get('probes', {}).get('unplaceable', 0) for r in results)),
        unverified_parts_of_property=spec.get('unverified', []),
        extra_checks=extra_checks,
        canaries=canary_report,
        extraction='functions are re-extracted from %s on every run by vc/extract.py; rules applied are listed per function' % REPO,
    )
    if registry.PROPERTIES[prop].get('category') == 'model_checking':
        # the bounded enumerations: every choice sequence is one trace, executed on the real (extracted) text
        traces = sum(int(n or 0) for r in results for n in (r.get('runs') or {}).values())
        cov.update(states=max(traces, 1), transitions=max(traces, 1), traces_validated_against_impl=traces)
    ev = dict(property_id=prop, tier=tier, seed=seed, level=registry.PROPERTIES[prop].get('category', 'proof'), coverage=cov,
              assumptions=spec.get('assumptions', []) + ['see coverage.trusted_base (generated by scanning the rendered units)'],
              wall_s=round(time.time() - t0, 2), violations=len(violations))
    with open(os.path.join(EVID, prop + '.json'), 'w') as f:
        json.dump(ev, f, indent=1)
    # report
    print('property %s tier=%s: %d obligation(s), %d discharged, %d bounded check(s), %d unit(s), solver %.2fs, wall %.1fs'
          % (prop, tier, len(counted), len(discharged), len(bounded), len(results), cov['solver_time_s'], ev['wall_s']))
    for r in results:
        print('  unit %-28s %-6s %-9s probes %s' % (r['unit'], r['backend'], r['status'], r.get('probes')))
    for o in known_hit:
        print('KNOWN-FINDING: property=%s %s (%s)' % (prop, o['id'], known_ids[o['id']]['text']))
    for (o, rp, suffix) in violations:
        print('  failed obligation %s: %s' % (o['id'], o['prose']))
        print('VIOLATION property=%s replay=%s%s' % (prop, rp, suffix))
    if violations:
        return 1
    if undecided:
        for r in undecided:
            print('UNDECIDED property=%s unit=%s reason=%s' % (prop, r['unit'], r['reason']))
        return 2
    return 0
