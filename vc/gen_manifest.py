#!/usr/bin/env python3
"""writes /verif/MANIFEST.json from vc/registry.py (claimed properties) and the NOT_APPLICABLE table below"""
import json, os, sys
HERE = os.path.dirname(os.path.abspath(__file__))
sys.path.insert(0, HERE); sys.path.insert(0, os.path.join(HERE, 'units'))
import registry

M = dict(
    version=1,
    setup_cmd='./setup.sh',
    hooks=dict(guard='cargo feature verif-hooks (crates/anemo) = the group features verif-hooks-{wire,cm,crypto,conn,timeout}; all off by default',
               enable='the replay crate /verif/replay enables the group features of /repo/crates/anemo through its own features hooks-*; a group whose wrappers no longer compile after an edit is left out (vc/replaylib.py); proofs need no hook (they read source text)',
               baseline_off_cmd='cd /repo && cargo test --workspace --no-fail-fast --offline',
               source_commits=registry.HOOK_COMMITS, add_only=True),
    engines=[dict(name='vc', path='/verif/vc', serves_properties=sorted(registry.PROPERTIES),
                  kind_free_text='contract-based deductive verification: functions extracted mechanically from /repo on every run, '
                                 'contracts inserted, discharged by Verus (SMT, unbounded) and Kani/CBMC (bit-precise, full-domain loop-free harnesses); '
                                 'Kani concrete playback replayed on the real crate through the verif-hooks feature')],
    checks=[], not_applicable=[], notes=registry.NOTES)
for pid in sorted(registry.PROPERTIES):
    s = registry.PROPERTIES[pid]
    M['checks'].append(dict(
        property_id=pid,
        quick_cmd='./check %s --tier quick' % pid,
        thorough_cmd='./check %s --tier thorough' % pid,
        evidence_file='/verif/evidence/%s.json' % pid,
        replay_cmd_template='./check replay {path}',
        engine='vc',
        level_claimed=dict(category=s.get('category', 'proof'), text=s['scope'], design_ref=s.get('design_ref', 'DESIGN.md section 5 (%s)' % pid)),
        level_note='; '.join(s.get('assumptions', []) + ['NOT decided: ' + u for u in s.get('unverified', [])]),
        technique=s.get('technique', 'contract-based deductive verification (Verus/Kani) of mechanically extracted functions')))
for pid, reason in sorted(registry.NOT_APPLICABLE.items()):
    if pid not in registry.PROPERTIES:
        M['not_applicable'].append(dict(property_id=pid, reason=reason))
json.dump(M, open(os.path.join(os.path.dirname(HERE), 'MANIFEST.json'), 'w'), indent=1)
print('MANIFEST.json: %d checks, %d not applicable' % (len(M['checks']), len(M['not_applicable'])))
