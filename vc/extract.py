#!/usr/bin/env python3
"""Mechanical extractor: copies items byte for byte out of /repo's *current working tree* and applies a
small, logged set of rewrite rules (DESIGN.md section 3.1).  Lexer level only: comments, strings, raw
strings, char literals vs lifetimes and nested delimiters are understood; nothing else of Rust is.

A lost anchor raises AnchorLost; the driver turns that into "undecided" (exit 2), never into a
VIOLATION and never into a pass.
"""
import hashlib
import re


class AnchorLost(Exception):
    pass


# --------------------------------------------------------------------------------------------------
# lexer: mask[i] is True where src[i] is code (not comment / string / char literal)
# --------------------------------------------------------------------------------------------------
def lex_kinds(src):
    """per character: 'c' code, 'm' comment, 's' string / char literal"""
    n = len(src)
    kind = ['c'] * n
    i = 0
    while i < n:
        c = src[i]
        if c == '/' and i + 1 < n and src[i + 1] == '/':
            j = src.find('\n', i)
            j = n if j < 0 else j
            for k in range(i, j):
                kind[k] = 'm'
            i = j
        elif c == '/' and i + 1 < n and src[i + 1] == '*':
            depth, j = 1, i + 2
            while j < n and depth:
                if src.startswith('/*', j):
                    depth += 1
                    j += 2
                elif src.startswith('*/', j):
                    depth -= 1
                    j += 2
                else:
                    j += 1
            for k in range(i, j):
                kind[k] = 'm'
            i = j
        elif c == '"' or (c in 'br' and _is_str_prefix(src, i)):
            j = _skip_string(src, i)
            for k in range(i, j):
                kind[k] = 's'
            i = j
        elif c == "'":
            j = _skip_char_or_lifetime(src, i)
            if j is not None:
                for k in range(i, j):
                    kind[k] = 's'
                i = j
            else:
                i += 1
        else:
            i += 1
    return kind


def code_mask(src):
    return [k == 'c' for k in lex_kinds(src)]


def _is_str_prefix(src, i):
    if i > 0 and (src[i - 1].isalnum() or src[i - 1] == '_'):
        return False
    m = re.match(r'(b?r#*"|b")', src[i:i + 12])
    return bool(m)


def _skip_string(src, i):
    m = re.match(r'b?r(#*)"', src[i:i + 12])
    if m:
        close = '"' + m.group(1)
        j = src.find(close, i + len(m.group(0)))
        return len(src) if j < 0 else j + len(close)
    if src[i] == 'b':
        i += 1
    j = i + 1
    while j < len(src):
        if src[j] == '\\':
            j += 2
        elif src[j] == '"':
            return j + 1
        else:
            j += 1
    return len(src)


def _skip_char_or_lifetime(src, i):
    # returns end index of a char literal starting at i, or None if this is a lifetime
    if i + 1 >= len(src):
        return None
    if src[i + 1] == '\\':
        j = src.find("'", i + 2)
        if j >= 0 and j - i <= 12:
            return j + 1
        return None
    if i + 2 < len(src) and src[i + 2] == "'":
        return i + 3
    return None


OPEN = {'(': ')', '[': ']', '{': '}'}
CLOSE = {')', ']', '}'}


def match_delim(src, mask, i):
    """src[i] is an opening delimiter in code; return index of its matching closer."""
    depth = 0
    for j in range(i, len(src)):
        if not mask[j]:
            continue
        if src[j] in OPEN:
            depth += 1
        elif src[j] in CLOSE:
            depth -= 1
            if depth == 0:
                return j
    raise AnchorLost('unbalanced delimiter at offset %d' % i)


# --------------------------------------------------------------------------------------------------
# items
# --------------------------------------------------------------------------------------------------
BLOCK_KW = {'fn', 'struct', 'enum', 'impl', 'mod', 'trait', 'union'}
SEMI_KW = {'use', 'const', 'static', 'type', 'extern'}


class Item:
    def __init__(self, src, start, head_start, end, kw, name, header):
        self.src, self.start, self.head_start, self.end = src, start, head_start, end
        self.kw, self.name, self.header = kw, name, header

    @property
    def text(self):  # without leading attributes / doc comments
        return self.src[self.head_start:self.end]

    @property
    def full_text(self):
        return self.src[self.start:self.end]

    @property
    def attrs(self):
        return self.src[self.start:self.head_start]

    def line_span(self):
        return (self.src.count('\n', 0, self.head_start) + 1, self.src.count('\n', 0, self.end) + 1)


def split_items(src, mask, lo, hi):
    """Split src[lo:hi] (the inside of a file, mod, impl or trait block) into items."""
    items = []
    i = lo
    while i < hi:
        # skip whitespace and non-doc comments
        while i < hi and (src[i].isspace() or not mask[i]) and not src.startswith('///', i) \
                and not src.startswith('//!', i):
            i += 1
        if i >= hi:
            break
        start = i
        # attributes and doc comments
        while i < hi:
            if src.startswith('///', i) or src.startswith('//!', i) or (not mask[i] and src.startswith('//', i)):
                j = src.find('\n', i)
                i = hi if j < 0 else j + 1
            elif not mask[i] and src.startswith('/*', i):
                while i < hi and not mask[i]:
                    i += 1
            elif src[i] == '#' and mask[i]:
                j = i + 1
                if j < hi and src[j] == '!':
                    j += 1
                while j < hi and src[j].isspace():
                    j += 1
                if j < hi and src[j] == '[':
                    i = match_delim(src, mask, j) + 1
                else:
                    break
            elif src[i].isspace():
                i += 1
            else:
                break
        head_start = i
        if i >= hi:
            break
        # header tokens
        m = re.compile(r'(?:pub(?:\s*\([^)]*\))?\s+)?(?:default\s+)?(?:const\s+(?=fn|unsafe|async))?(?:async\s+)?'
                       r'(?:unsafe\s+)?(?:extern\s+"[^"]*"\s+)?([A-Za-z_][A-Za-z0-9_]*!?)').match(src, i)
        if not m:
            raise AnchorLost('cannot parse item at line %d' % (src.count('\n', 0, i) + 1))
        kw = m.group(1)
        # a path-qualified macro invocation (`pin_project_lite::pin_project! { .. }`): the item kind is the macro's own name
        pm = re.compile(r'(?:::[A-Za-z_][A-Za-z0-9_]*)+!').match(src, m.end())
        if pm and not kw.endswith('!'):
            kw = pm.group(0).rsplit('::', 1)[1]
            m = pm
        # find end
        j = m.end()
        end = None
        body_open = None
        while j < hi:
            if not mask[j]:
                j += 1
                continue
            ch = src[j]
            if ch == ';':
                end = j + 1
                break
            if ch in '([':
                j = match_delim(src, mask, j) + 1
                continue
            if ch == '{':
                k = match_delim(src, mask, j)
                if kw in BLOCK_KW or kw.endswith('!'):
                    body_open = j
                    end = k + 1
                    # `struct X {..}` has no `;`, macro `foo! {..}` neither
                    break
                j = k + 1
                continue
            j += 1
        if end is None:
            end = hi
        header = src[head_start:(body_open if body_open is not None else end)]
        name = None
        if kw in ('fn', 'struct', 'enum', 'mod', 'trait', 'union', 'const', 'static', 'type'):
            mm = re.compile(r'\s*([A-Za-z_][A-Za-z0-9_]*)').match(src, m.end())
            name = mm.group(1) if mm else None
        it = Item(src, start, head_start, end, kw, name, header)
        it.body_open = body_open
        items.append(it)
        i = end
    return items


def norm_ws(s):
    return re.sub(r'\s+', ' ', s).strip()


class SourceFile:
    def __init__(self, path):
        self.path = path
        with open(path, encoding='utf-8') as f:
            self.src = f.read()
        self.mask = code_mask(self.src)
        self.items = split_items(self.src, self.mask, 0, len(self.src))

    def _children(self, item):
        if item.body_open is None:
            raise AnchorLost('%s: item has no block' % self.path)
        return split_items(self.src, self.mask, item.body_open + 1, item.end - 1)

    def find(self, path):
        """path: 'fn name' | 'struct Name' | 'enum Name' | 'const NAME' | 'type Name' |
        'impl <header regex>' optionally followed by ' :: fn name'.  `mod name ::` prefixes allowed."""
        parts = [p.strip() for p in path.split(' :: ')]
        items = self.items
        found = None
        if parts[0].endswith('!') and len(parts) > 1:
            # `pin_project! :: struct X`: look inside every invocation of that macro, exactly one must contain the rest
            hits = []
            for it in items:
                if it.kw == parts[0] and it.body_open is not None:
                    sub = SourceFile.__new__(SourceFile)
                    sub.path, sub.src, sub.mask = self.path, self.src, self.mask
                    sub.items = self._children(it)
                    try:
                        hits.append(sub.find(' :: '.join(parts[1:])))
                    except AnchorLost:
                        pass
            if len(hits) != 1:
                raise AnchorLost('%s: item "%s" found %d times' % (self.path, path, len(hits)))
            return hits[0]
        for part in parts:
            kw, _, rest = part.partition(' ')
            cands = []
            for it in items:
                if it.kw != kw:
                    continue
                if kw == 'impl':
                    hdr = norm_ws(it.header)
                    h2 = hdr[len('impl'):].strip()
                    ok = (h2 == rest)
                    if not ok:
                        try:
                            ok = bool(re.fullmatch(rest, h2))
                        except re.error:
                            ok = False
                    if ok:
                        cands.append(it)
                elif it.name == rest or (kw.endswith('!') and rest == ''):
                    cands.append(it)
            if len(cands) > 1 and part is not parts[-1]:
                # several impl blocks with the same header: keep the one(s) that contain the rest of the path
                rest_path = ' :: '.join(parts[parts.index(part) + 1:])
                keep = []
                for c in cands:
                    sub = SourceFile.__new__(SourceFile)
                    sub.path, sub.src, sub.mask = self.path, self.src, self.mask
                    try:
                        sub.items = self._children(c)
                        sub.find(rest_path)
                        keep.append(c)
                    except AnchorLost:
                        pass
                cands = keep
            if len(cands) != 1:
                raise AnchorLost('%s: item "%s" (in "%s") found %d times' % (self.path, part, path, len(cands)))
            found = cands[0]
            if part is not parts[-1]:
                items = self._children(found)
        return found


# --------------------------------------------------------------------------------------------------
# rewrite rules
# --------------------------------------------------------------------------------------------------
LOG_MACROS = ('trace', 'debug', 'info', 'warn', 'error')
KEEP_DERIVES = {'Clone', 'Copy', 'PartialEq', 'Eq', 'PartialOrd', 'Ord', 'Hash'}


class Extracted:
    """Text of one extracted item plus the log of every rule applied to it."""

    def __init__(self, sf, item, key):
        self.file, self.key = sf.path, key
        self.orig = item.text
        self.text = item.text
        self.attrs = item.attrs
        self.span = item.line_span()
        self.sha256 = hashlib.sha256(self.orig.encode()).hexdigest()
        self.rules = []

    def log(self, rule, detail):
        self.rules.append('%s: %s' % (rule, detail))

    # X2 ------------------------------------------------------------------------------------------
    def strip_docs(self):
        kind = lex_kinds(self.text)
        out, i, n, dropped = [], 0, len(self.text), 0
        while i < n:
            if kind[i] == 'm' and self.text.startswith('//', i):
                j = self.text.find('\n', i)
                j = n if j < 0 else j
                dropped += 1
                i = j
            elif kind[i] == 'm' and self.text.startswith('/*', i):
                while i < n and kind[i] == 'm':
                    i += 1
                dropped += 1
            else:
                out.append(self.text[i])
                i += 1
        if dropped:
            self.text = ''.join(out)
            self.log('X2', 'dropped %d comment(s)' % dropped)
        return self

    def inner_attrs(self, keep=('verifier', 'cfg_attr', 'kani')):
        """drop #[...] attributes inside the item text (fields, methods) except derives we understand"""
        mask = code_mask(self.text)
        out, i, n = [], 0, len(self.text)
        while i < n:
            if self.text[i] == '#' and mask[i]:
                j = i + 1
                while j < n and self.text[j].isspace():
                    j += 1
                if j < n and self.text[j] == '[':
                    k = match_delim(self.text, mask, j)
                    body = self.text[j + 1:k].strip()
                    self.log('X2', 'dropped attribute #[%s]' % norm_ws(body))
                    i = k + 1
                    continue
            out.append(self.text[i])
            i += 1
        self.text = ''.join(out)
        return self

    def derives(self):
        """returns the filtered derive list of the leading attributes (X2)"""
        names = []
        for m in re.finditer(r'#\[derive\(([^)]*)\)\]', self.attrs):
            for d in m.group(1).split(','):
                d = d.strip()
                if not d:
                    continue
                if d.split('::')[-1] in KEEP_DERIVES and '::' not in d:
                    names.append(d)
                else:
                    self.log('X2', 'dropped derive(%s)' % d)
        for m in re.finditer(r'#\[([a-z_]+)', self.attrs):
            if m.group(1) not in ('derive',):
                self.log('X2', 'dropped leading attribute #[%s..]' % m.group(1))
        return names

    # X3 ------------------------------------------------------------------------------------------
    def make_pub(self, fields=True):
        t = self.text
        t2 = re.sub(r'^\s*pub\s*\([^)]*\)\s*', 'pub ', t, count=1)
        if not re.match(r'\s*pub\b', t2):
            t2 = 'pub ' + t2.lstrip()
        if t2 != t:
            self.log('X3', 'item made pub')
        self.text = t2
        return self

    def pub_fields(self):
        """struct fields / tuple fields -> pub"""
        t = self.text
        mask = code_mask(t)
        m = re.search(r'[({]', t)
        if not m:
            return self
        o = m.start()
        c = match_delim(t, mask, o)
        inner = t[o + 1:c]
        imask = mask[o + 1:c]
        # split at depth-0 commas
        parts, depth, last = [], 0, 0
        for idx, ch in enumerate(inner):
            if not imask[idx]:
                continue
            if ch in OPEN or ch == '<':
                depth += 1
            elif ch in CLOSE or ch == '>':
                depth -= 1
            elif ch == ',' and depth == 0:
                parts.append(inner[last:idx])
                last = idx + 1
        parts.append(inner[last:])
        new = []
        changed = 0
        for p in parts:
            if p.strip() and not re.match(r'\s*pub\b', p):
                lead = re.match(r'\s*', p).group(0)
                p = lead + 'pub ' + p[len(lead):]
                changed += 1
            else:
                p2 = re.sub(r'^(\s*)pub\s*\([^)]*\)', r'\1pub', p)
                if p2 != p:
                    changed += 1
                p = p2
            new.append(p)
        if changed:
            self.text = t[:o + 1] + ','.join(new) + t[c:]
            self.log('X3', '%d field(s) made pub' % changed)
        return self

    # X4 ------------------------------------------------------------------------------------------
    def drop_log_macros(self):
        t = self.text
        mask = code_mask(t)
        pat = re.compile(r'\b(?:tracing::)?(%s)!\s*\(' % '|'.join(LOG_MACROS))
        out, i = [], 0
        n = 0
        for m in pat.finditer(t):
            if m.start() < i or not mask[m.start()]:
                continue
            close = match_delim(t, mask, m.end() - 1)
            out.append(t[i:m.start()])
            out.append('()')
            i = close + 1
            n += 1
        out.append(t[i:])
        if n:
            self.text = ''.join(out)
            self.log('X4', 'replaced %d logging macro call(s) by ()' % n)
        return self

    def replace_macro(self, name, repl, rule='X4'):
        """replace every invocation `name!(fmt, args..)` (optionally path-qualified) by `repl`; the message TEXT is dropped but every
        argument expression after the format string is still evaluated (`{ let _ = &(arg); .. repl }`): code inside error messages can
        panic too.  `repl` may start with `return ` (for bail!)."""
        t = self.text
        mask = code_mask(t)
        pat = re.compile(r'\b(?:[a-z_]+::)?%s!\s*\(' % re.escape(name))
        out, i, n, kept = [], 0, 0, 0
        for m in pat.finditer(t):
            if m.start() < i or not mask[m.start()]:
                continue
            close = match_delim(t, mask, m.end() - 1)
            inner, imask = t[m.end():close], mask[m.end():close]
            parts, depth, last = [], 0, 0
            for idx, ch in enumerate(inner):
                if not imask[idx]:
                    continue
                if ch in OPEN:
                    depth += 1
                elif ch in CLOSE:
                    depth -= 1
                elif ch == ',' and depth == 0:
                    parts.append(inner[last:idx])
                    last = idx + 1
            parts.append(inner[last:])
            args = []
            for a in parts[1:]:
                a = a.strip()
                if not a:
                    continue
                mm = re.match(r'^[A-Za-z_][A-Za-z0-9_]*\s*=\s*(?!=)(.*)$', a, re.S)     # named argument `x = expr`
                if mm:
                    a = mm.group(1).strip()
                if not re.fullmatch(r'[A-Za-z_][A-Za-z0-9_.]*', a):                       # plain variables / field paths cannot panic
                    args.append(a)
            out.append(t[i:m.start()])
            if args:
                kept += len(args)
                ret = 'return ' if repl.startswith('return ') else ''
                core = repl[len(ret):]
                out.append('%s{ %s %s }' % (ret, ' '.join('let _ = &(%s);' % a for a in args), core))
            else:
                out.append(repl)
            i = close + 1
            n += 1
        out.append(t[i:])
        if n:
            self.text = ''.join(out)
            self.log(rule, 'replaced %d `%s!(..)` by `%s` (message text dropped; %d argument expression(s) kept evaluated)' % (n, name, repl, kept))
        return self

    # X5 / X9 generic logged rewrite --------------------------------------------------------------
    def rewrite(self, rule, pattern, repl, count=None, regex=False, optional=False):
        if regex:
            new, k = re.subn(pattern, repl, self.text)
        else:
            k = self.text.count(pattern)
            new = self.text.replace(pattern, repl)
        if k == 0 and not optional:
            raise AnchorLost('%s [%s]: rewrite anchor not found: %r' % (self.file, self.key, pattern))
        if count is not None and k != count and not (optional and k == 0):
            raise AnchorLost('%s [%s]: rewrite anchor %r found %d times, expected %d'
                             % (self.file, self.key, pattern, k, count))
        if k:
            self.text = new
            self.log(rule, '%r -> %r (x%d)' % (pattern, repl, k))
        return self

    def insert_after(self, rule, anchor, text, count=None):
        k = self.text.count(anchor)
        if k == 0 or (count is not None and k != count):
            raise AnchorLost('%s [%s]: insertion anchor %r found %d times' % (self.file, self.key, anchor, k))
        self.text = self.text.replace(anchor, anchor + text)
        self.log(rule, 'inserted %r after %r (x%d)' % (norm_ws(text), anchor, k))
        return self

    def insert_before(self, rule, anchor, text, count=None):
        k = self.text.count(anchor)
        if k == 0 or (count is not None and k != count):
            raise AnchorLost('%s [%s]: insertion anchor %r found %d times' % (self.file, self.key, anchor, k))
        self.text = self.text.replace(anchor, text + anchor)
        self.log(rule, 'inserted %r before %r (x%d)' % (norm_ws(text), anchor, k))
        return self

    # X6 ------------------------------------------------------------------------------------------
    def normalize_params(self, names=()):
        """X9(b): a destructuring parameter (`(a, b): (T, U)`, `S { x, .. }: S`) becomes an identifier plus a leading `let` (Verus accepts only identifiers)"""
        try:
            sig, body = self.fn_parts()
        except AnchorLost:
            return self
        m = re.search(r'\bfn\s+[A-Za-z_][A-Za-z0-9_]*', sig)
        if not m:
            return self
        mask = code_mask(sig)
        i = m.end()
        if i < len(sig) and sig[i] == '<':      # generics
            depth = 0
            while i < len(sig):
                if sig[i] == '<':
                    depth += 1
                elif sig[i] == '>' and sig[i - 1] != '-':
                    depth -= 1
                    if depth == 0:
                        i += 1
                        break
                i += 1
        while i < len(sig) and sig[i] != '(':
            i += 1
        if i >= len(sig):
            return self
        c = match_delim(sig, mask, i)
        inner = sig[i + 1:c]
        parts, depth, cur = [], 0, ''
        for ch in inner:
            if ch in '([{<':
                depth += 1
            elif ch in ')]}>':
                depth -= 1
            if ch == ',' and depth == 0:
                parts.append(cur); cur = ''
            else:
                cur += ch
        if cur.strip():
            parts.append(cur)
        lets, new_parts, k = [], [], 0
        for prm in parts:
            depth, pos = 0, None
            for j, ch in enumerate(prm):
                if ch in '([{<':
                    depth += 1
                elif ch in ')]}>':
                    depth -= 1
                elif ch == ':' and depth == 0 and prm[j + 1:j + 2] != ':' and prm[j - 1:j] != ':':
                    pos = j
                    break
            if pos is None:
                new_parts.append(prm); continue
            pat, ty = prm[:pos].strip(), prm[pos + 1:].strip()
            if re.match(r'^[A-Za-z_][A-Za-z0-9_]*$', pat) or (re.match(r'^mut\s+[A-Za-z_][A-Za-z0-9_]*$', pat) and not names):
                new_parts.append(prm); continue
            name = names[k] if k < len(names) else '__p%d' % k
            k += 1
            new_parts.append('\n        %s: %s' % (name, ty))
            lets.append('let %s = %s;' % (pat, name))
        if not lets:
            return self
        sig2 = sig[:i + 1] + ','.join(new_parts) + sig[c:]
        self.text = sig2 + '{\n        ' + '\n        '.join(lets) + body[1:]
        self.log('X9b', '%d destructuring parameter(s) replaced by identifiers plus leading lets' % len(lets))
        return self

    def fn_parts(self):
        """(signature, body) of a fn item; body includes the braces"""
        t = self.text
        mask = code_mask(t)
        i = 0
        while i < len(t):
            if mask[i] and t[i] in '([':
                i = match_delim(t, mask, i) + 1
                continue
            if mask[i] and t[i] == '{':
                return t[:i], t[i:]
            i += 1
        raise AnchorLost('%s [%s]: fn has no body' % (self.file, self.key))

    def contract(self, ret=None, spec='', body_prefix='', sig_rewrites=()):
        sig, body = self.fn_parts()
        for (a, b) in sig_rewrites:
            if hasattr(a, 'sub'):      # a compiled regular expression (e.g. a whole `where` clause, whatever its layout)
                sig2, k = a.subn(b, sig, count=1)
                if not k:
                    raise AnchorLost('%s [%s]: signature anchor %r not found' % (self.file, self.key, a.pattern))
                sig = sig2
                self.log('X5', 'signature /%s/ -> %r' % (a.pattern, b))
                continue
            if a not in sig:
                raise AnchorLost('%s [%s]: signature anchor %r not found' % (self.file, self.key, a))
            sig = sig.replace(a, b)
            self.log('X8' if '&mut self' in b else 'X5', 'signature %r -> %r' % (a, b))
        if ret:
            mask = code_mask(sig)
            # find top-level '->' (after the parameter list)
            depth, pos = 0, None
            for i, ch in enumerate(sig):
                if not mask[i]:
                    continue
                if ch in '([':
                    depth += 1
                elif ch in ')]':
                    depth -= 1
                elif depth == 0 and sig.startswith('->', i):
                    pos = i
                    break
            if pos is None:
                raise AnchorLost('%s [%s]: no return type to name' % (self.file, self.key))
            rest = sig[pos + 2:]
            mw = re.search(r'\bwhere\b', rest)
            ty = rest[:mw.start()] if mw else rest
            tail = rest[mw.start():] if mw else ''
            sig = sig[:pos] + '-> (%s: %s)\n' % (ret, ty.strip()) + tail
            self.log('X6', 'return value named %s' % ret)
        if spec.strip():
            self.log('X6', 'contract inserted (%d line(s))' % len(spec.strip().splitlines()))
        if body_prefix.strip():
            self.log('X6', 'proof prefix inserted in body: %s' % norm_ws(body_prefix))
        self.sig_final = sig.rstrip()
        self.body_final = '{' + body_prefix + body[1:]
        self.text = self.sig_final + '\n' + spec.rstrip() + '\n' + self.body_final
        return self


def extract(repo, relpath, itempath, key=None, cache={}):
    p = repo.rstrip('/') + '/' + relpath
    if p not in cache:
        try:
            cache[p] = SourceFile(p)
        except FileNotFoundError:
            raise AnchorLost('file missing: ' + p)
    sf = cache[p]
    it = sf.find(itempath)
    e = Extracted(sf, it, key or itempath)
    e.file = relpath
    return e


def block_after(text, anchor):
    """returns the `{...}` block that follows `anchor` in text (X10 block lifting), braces included"""
    k = text.count(anchor)
    if k != 1:
        raise AnchorLost('block anchor %r found %d times' % (anchor, k))
    i = text.index(anchor) + len(anchor)
    mask = code_mask(text)
    while i < len(text) and not (mask[i] and text[i] == '{'):
        i += 1
    if i >= len(text):
        raise AnchorLost('no block after %r' % anchor)
    j = match_delim(text, mask, i)
    return text[i:j + 1]
