INB = 'crates/anemo/src/middleware/timeout/inbound.rs'
OUTB = 'crates/anemo/src/middleware/timeout/outbound.rs'
MOD = 'crates/anemo/src/middleware/timeout/mod.rs'
CFG = 'crates/anemo/src/config.rs'
U = 'timeout'
CANARIES = [
    dict(id='t-inbound-max', unit=U, what='inbound uses the longer of the two', expect=['inbound::Timeout::call::deadline_is_min'],
         edits=[(INB, 'let shorter_duration = std::cmp::min(request, default);', 'let shorter_duration = std::cmp::max(request, default);')]),
    dict(id='t-outbound-header-wins', unit=U, what='outbound lets the header override the default', expect=['outbound::Timeout::call::deadline_is_min'],
         edits=[(OUTB, 'let shorter_duration = std::cmp::min(request, default);', 'let shorter_duration = request;')]),
    dict(id='t-inbound-header-only-ignored', unit=U, what='inbound ignores the header when no default is set', expect=['inbound::Timeout::call::deadline_is_min'],
         edits=[(INB, '            (Some(dur), None) => Some(dur),', '            (Some(_dur), None) => None,')]),
    dict(id='t-unparsable-is-zero', unit=U, what='unparsable header means zero timeout', expect=['inbound::Timeout::call'],
         edits=[(INB, '''            tracing::trace!("Error parsing `timeout` header {:?}", e);
            None''', '''            tracing::trace!("Error parsing `timeout` header {:?}", e);
            Some(Duration::from_nanos(0))''')]),
    dict(id='t-parse-millis', unit=U, what='header interpreted as milliseconds', expect=['try_parse_timeout::parsed'],
         edits=[(MOD, 'let duration = Duration::from_nanos(nanoseconds);', 'let duration = Duration::from_millis(nanoseconds);')]),
    dict(id='t-config-secs', unit=U, what='configured inbound default read as seconds', expect=['Config::inbound_request_timeout::millis'],
         edits=[(CFG, 'self.inbound_request_timeout_ms.map(Duration::from_millis)', 'self.inbound_request_timeout_ms.map(Duration::from_secs)')]),
    dict(id='t-config-swapped', unit=U, what='outbound accessor returns the inbound default', expect=['Config::outbound_request_timeout::millis'],
         edits=[(CFG, 'self.outbound_request_timeout_ms.map(Duration::from_millis)', 'self.inbound_request_timeout_ms.map(Duration::from_millis)')]),
    dict(id='t-layer-drops-default', unit=U, what='layer builds services without the default', expect=['outbound::TimeoutLayer::layer::keeps_default'],
         edits=[(OUTB, 'Timeout::new(inner, self.default_timeout)', 'Timeout::new(inner, None)')]),
    dict(id='t-duration-to-timeout-wrap', unit=U, what='large durations wrap instead of saturating', expect=['duration_to_timeout::saturating_nanos', 'duration_to_timeout::body'],
         edits=[(MOD, 'let nanoseconds: u64 = duration.as_nanos().try_into().unwrap_or(u64::MAX);', 'let nanoseconds: u64 = duration.as_nanos() as u64;')]),
    dict(id='w-outbound-uses-inbound-default', unit=U, what='the outbound timeout layer of a network is armed with the inbound default', expect=['Builder::start::outbound_layer::timeout_outermost_with_configured_default'],
         edits=[('crates/anemo/src/network/mod.rs', """                .layer(timeout::outbound::TimeoutLayer::new(
                    config.outbound_request_timeout(),
                ));""", """                .layer(timeout::outbound::TimeoutLayer::new(
                    config.inbound_request_timeout(),
                ));""")]),
    dict(id='w-outbound-no-default', unit=U, what='the outbound timeout layer of a network gets no default', expect=['Builder::start::outbound_layer::timeout_outermost_with_configured_default'],
         edits=[('crates/anemo/src/network/mod.rs', """                .layer(timeout::outbound::TimeoutLayer::new(
                    config.outbound_request_timeout(),
                ));""", """                .layer(timeout::outbound::TimeoutLayer::new(
                    None,
                ));""")]),
    dict(id='w-user-layer-replaces-timeout', unit=U, what='a user-supplied outbound layer replaces the timeout layer', expect=['Builder::start::outbound_layer::'],
         edits=[('crates/anemo/src/network/mod.rs', 'BoxLayer::new(builder.layer(layer).into_inner())', 'BoxLayer::new(ServiceBuilder::new().layer(layer).into_inner())')]),
    dict(id='w-inbound-no-timeout-layer', unit=U, what='the inbound service stack has no timeout layer', expect=['Builder::start::inbound_service::timeout_outermost_with_configured_default'],
         edits=[('crates/anemo/src/network/mod.rs', """                .layer(timeout::inbound::TimeoutLayer::new(
                    config.inbound_request_timeout(),
                ))
""", "")]),
    dict(id='w-inbound-timeout-innermost', unit=U, what='the inbound timeout layer sits inside the extension layer', expect=['Builder::start::inbound_service::timeout_outermost_with_configured_default'],
         edits=[('crates/anemo/src/network/mod.rs', """                .layer(timeout::inbound::TimeoutLayer::new(
                    config.inbound_request_timeout(),
                ))
                // Supply a weak reference to the network via an Extension
                .layer(AddExtensionLayer::new(NetworkRef(weak.clone())))""", """                .layer(AddExtensionLayer::new(NetworkRef(weak.clone())))
                .layer(timeout::inbound::TimeoutLayer::new(
                    config.inbound_request_timeout(),
                ))""")]),
    dict(id='t-set-timeout-other-header', unit='timeout', what='the caller-side setter writes the deadline under another header name', expect=['Request::set_timeout::header_means_that_duration', 'Request::set_timeout::nothing_else_changes'],
         edits=[('crates/anemo/src/types/request.rs', """            .insert(super::header::TIMEOUT.into(), timeout);""", """            .insert(super::header::CONTENT_TYPE.into(), timeout);""")]),
    dict(id='t-timeout-getter-unparsable-is-zero', unit='timeout', what='an unparsable timeout header reads back as a zero deadline', expect=['Request::timeout::reads_the_header'],
         edits=[('crates/anemo/src/types/request.rs', """            .ok()
            .flatten()""", """            .unwrap_or(Some(std::time::Duration::from_nanos(0)))""")]),
]
