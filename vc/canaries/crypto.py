CR = 'crates/anemo/src/crypto.rs'
CONN = 'crates/anemo/src/connection.rs'
U = 'crypto'
SIG13 = 'rustls::crypto::verify_tls13_signature(message, cert, dss, &SUPPORTED_ALGORITHMS)'
SIG12 = 'rustls::crypto::verify_tls12_signature(message, cert, dss, &SUPPORTED_ALGORITHMS)'
ACCEPT = 'Ok(rustls::client::danger::HandshakeSignatureValid::assertion())'
CANARIES = [
    dict(id='c-pin-inverted', unit=U, what='pin comparison inverted', expect=['ExpectedCertVerifier::verify_server_cert::pin_and_validate'],
         edits=[(CR, 'if peer_id != self.1 {', 'if peer_id == self.1 {')]),
    dict(id='c-pin-skips-validation', unit=U, what='pinned dial skips the ordinary certificate validation', expect=['ExpectedCertVerifier::verify_server_cert::pin_and_validate'],
         edits=[(CR, """        self.0
            .verify_server_cert(end_entity, intermediates, server_name, ocsp_response, now)""", '        Ok(ServerCertVerified::assertion())')]),
    dict(id='c-pin-validates-other-cert', unit=U, what='pinned dial validates a different certificate than the one it compared', expect=['ExpectedCertVerifier::verify_server_cert::pin_and_validate'],
         edits=[(CR, '.verify_server_cert(end_entity, intermediates, server_name, ocsp_response, now)', '.verify_server_cert(&intermediates[0], intermediates, server_name, ocsp_response, now)')]),
    dict(id='c-client-sig13-accept-all', unit=U, what='listener accepts every TLS 1.3 handshake signature of a dialer', expect=['CertVerifier(client)::verify_tls13_signature'],
         edits=[(CR, SIG13, ACCEPT, (0, 3))]),
    dict(id='c-server-sig13-accept-all', unit=U, what='dialer accepts every TLS 1.3 handshake signature of a listener', expect=['CertVerifier(server)::verify_tls13_signature'],
         edits=[(CR, SIG13, ACCEPT, (1, 3))]),
    dict(id='c-pinned-sig13-accept-all', unit=U, what='pinned dialer accepts every TLS 1.3 handshake signature', expect=['ExpectedCertVerifier::verify_tls13_signature'],
         edits=[(CR, SIG13, ACCEPT, (2, 3))]),
    dict(id='c-client-sig12-accept-all', unit=U, what='listener accepts every TLS 1.2 handshake signature', expect=['CertVerifier(client)::verify_tls12_signature'],
         edits=[(CR, SIG12, ACCEPT, (0, 3))]),
    dict(id='c-pinned-sig12-swapped', unit=U, what='TLS 1.2 callback checks with the TLS 1.3 routine', expect=['ExpectedCertVerifier::verify_tls12_signature'],
         edits=[(CR, SIG12, SIG13, (2, 3))]),
    dict(id='c-client-auth-optional', unit=U, what='client authentication no longer mandatory', expect=['CertVerifier::client_auth_mandatory::always'],
         edits=[(CR, """    fn client_auth_mandatory(&self) -> bool {
        true""", """    fn client_auth_mandatory(&self) -> bool {
        false""")]),
    dict(id='c-client-auth-not-offered', unit=U, what='client authentication not offered', expect=['CertVerifier::offer_client_auth::always'],
         edits=[(CR, """    fn offer_client_auth(&self) -> bool {
        true""", """    fn offer_client_auth(&self) -> bool {
        false""")]),
    dict(id='c-peerid-second-cert', unit=U, what='identity read from the second certificate of the chain', expect=['Connection::try_peer_id', 'Connection::new'],
         edits=[(CONN, '.unwrap()[0];', '.unwrap()[1];')]),
    dict(id='c-peerid-from-signature-field', unit=U, what='identity decoded from another field of the certificate', expect=['peer_id_from_certificate::'],
         edits=[(CR, 'from_public_key_der(spki.raw)', 'from_public_key_der(cert.1.signature_value)')]),
    dict(id='c-peerid-from-bare-key-bits', unit=U, what='identity decoded from the bare key bits instead of the SubjectPublicKeyInfo', expect=['peer_id_from_certificate::'],
         edits=[(CR, 'from_public_key_der(spki.raw)', 'from_public_key_der(spki.subject_public_key)')]),
    dict(id='c-peerid-constant', unit=U, what='identity does not depend on the certificate', expect=['peer_id_from_certificate::'],
         edits=[(CR, 'let peer_id = PeerId(public_key_bytes.to_bytes());', 'let peer_id = PeerId([0; 32]);')]),
    dict(id='c-connection-new-other-identity', unit=U, what='Connection::new stores another identity than the authenticated one', expect=['Connection::new::identity_from_handshake'],
         edits=[(CONN, """            inner,
            peer_id,
            origin,""", """            inner,
            peer_id: PeerId([0; 32]),
            origin,""")]),
    dict(id='c-sendstream-drop-no-reset', unit=U, what='dropping an unfinished send half no longer resets the stream', expect=['SendStream::drop::unfinished_stream_is_reset'],
         edits=[(CONN, '        let _ = self.0.reset(0u8.into());', '        let _ = &self.0;')]),
    # ---- the two certificate verifiers and their helpers (proved in this unit since the X13 shape rules; the same edits are run on enum_certs) ----
    dict(id='c-server-requested-name-not-checked', unit=U, what='a dialer accepts a server name it is not configured for', expect=['CertVerifier::verify_server_cert::requested_name_is_configured'],
         edits=[(CR, """            .find(|name| name.as_str() == dns_name.as_ref())
            .ok_or(rustls::Error::UnsupportedNameType)?;""", """            .find(|name| name.as_str() == dns_name.as_ref());""")]),
    dict(id='c-server-name-compared-inverted', unit=U, what='the requested name must DIFFER from the configured ones', expect=['CertVerifier::verify_server_cert'],
         edits=[(CR, '.find(|name| name.as_str() == dns_name.as_ref())', '.find(|name| name.as_str() != dns_name.as_ref())')]),
    dict(id='c-server-name-validity-not-checked', unit=U, what='a dialer does not check that the certificate is valid for the requested name', expect=['CertVerifier::verify_server_cert::certificate_valid_for_requested_name'],
         edits=[(CR, """        verified_cert
            .end_entity()
            .verify_is_valid_for_subject_name(server_name)
            .map_err(pki_error)
            .map(|_| ServerCertVerified::assertion())""", """        let _ = verified_cert.end_entity();
        Ok(ServerCertVerified::assertion())""")]),
    dict(id='c-server-usage-client-auth', unit=U, what='a dialer validates the listener certificate for the wrong key usage', expect=['CertVerifier::verify_server_cert::valid_self_signed_ed25519_for_server_auth'],
         edits=[(CR, '                webpki::KeyUsage::server_auth(),\n', '                webpki::KeyUsage::client_auth(),\n')]),
    dict(id='c-trust-root-from-chain', unit=U, what='the trust root is taken from the certificates the peer sent along', expect=['prepare_for_self_signed::only_trust_root_is_the_certificate_itself'],
         edits=[(CR, 'let root = webpki::anchor_from_trusted_cert(end_entity).map_err(pki_error)?;', 'let root = webpki::anchor_from_trusted_cert(&intermediates[0]).map_err(pki_error)?;')]),
    dict(id='c-unparsable-anchor-tolerated', unit=U, what='a certificate that cannot be made a trust anchor is validated against an empty store instead of refused', expect=['prepare_for_self_signed::'],
         edits=[(CR, """    let root = webpki::anchor_from_trusted_cert(end_entity).map_err(pki_error)?;

    Ok((cert, intermediates, vec![root]))""", """    let root = webpki::anchor_from_trusted_cert(end_entity).map_err(pki_error);

    Ok((cert, intermediates, match root { Ok(r) => vec![r], Err(_) => vec![] }))""")]),
    dict(id='c-client-name-check-skipped', unit=U, what='a listener accepts a dialer certificate whatever network name it is issued for', expect=['CertVerifier::verify_client_cert'],
         edits=[(CR, """        }) {
            Ok(ClientCertVerified::assertion())
        } else {
            Err(rustls::Error::General("no valid subject name".into()))
        }""", """        }) {
            Ok(ClientCertVerified::assertion())
        } else {
            Ok(ClientCertVerified::assertion())
        }""")]),
    dict(id='c-client-validation-error-ignored', unit=U, what='a listener ignores a failed webpki validation of the dialer certificate', expect=['CertVerifier::verify_client_cert'],
         edits=[(CR, """                webpki::KeyUsage::client_auth(),
                None,
                None,
            )
            .map_err(pki_error)?;""", """                webpki::KeyUsage::client_auth(),
                None,
                None,
            )
            .map_err(pki_error);
        let verified_cert = match verified_cert { Ok(v) => v, Err(_) => return Ok(ClientCertVerified::assertion()) };""")]),
    dict(id='c-client-usage-server-auth', unit=U, what='a listener validates the dialer certificate for the wrong key usage', expect=['CertVerifier::verify_client_cert::valid_self_signed_ed25519_for_client_auth'],
         edits=[(CR, '                webpki::KeyUsage::client_auth(),\n', '                webpki::KeyUsage::server_auth(),\n')]),
    dict(id='c-client-refuses-own-network', unit=U, what='a listener refuses every dialer certificate (nodes of one network cannot connect)', expect=['CertVerifier::verify_client_cert::accepts_own_network'],
         edits=[(CR, """        }) {
            Ok(ClientCertVerified::assertion())
        } else {""", """        }) {
            Err(rustls::Error::UnsupportedNameType)
        } else {""")]),
]
