MOD = 'crates/anemo-tower/src/auth/mod.rs'
SVC = 'crates/anemo-tower/src/auth/service.rs'
FUT = 'crates/anemo-tower/src/auth/future.rs'
U = 'auth'
CANARIES = [
    dict(id='a-unlisted-accepted', unit=U, what='allow-list check inverted', expect=['AuthorizeRequest::authorize::decision', 'AllowedPeers::authorize'],
         edits=[(MOD, 'if self.allowed_peers.contains(peer_id) {', 'if !self.allowed_peers.contains(peer_id) {')]),
    dict(id='a-no-sender-notfound', unit=U, what='missing sender answered NotFound', expect=['AuthorizeRequest::authorize::decision', 'AllowedPeers::authorize'],
         edits=[(MOD, '.ok_or_else(|| StatusCode::InternalServerError.into_response())?;', '.ok_or_else(|| StatusCode::NotFound.into_response())?;')]),
    dict(id='a-unlisted-500', unit=U, what='unlisted sender answered InternalServerError', expect=['AuthorizeRequest::authorize::decision', 'AllowedPeers::authorize'],
         edits=[(MOD, '''            Ok(())
        } else {
            Err(StatusCode::NotFound.into_response())''', '''            Ok(())
        } else {
            Err(StatusCode::InternalServerError.into_response())''')]),
    dict(id='a-call-always-inner', unit=U, what='refusal still calls the inner service', expect=['RequireAuthorization::call::refused_never_invokes'],
         edits=[(SVC, 'Err(response) => ResponseFuture::invalid_auth(response),', 'Err(response) => { let _ = self.inner.call(request); ResponseFuture::invalid_auth(response) }')]),
    dict(id='a-invalid-auth-drops-response', unit=U, what='refusal future holds no response', expect=['ResponseFuture::invalid_auth::holds_response'],
         edits=[(FUT, 'response: Some(response),', 'response: { let _ = response; None },')]),
]
