RPC = 'crates/anemo/src/rpc/mod.rs'
RESP = 'crates/anemo/src/types/response.rs'
U = 'rpc_status'
CANARIES = [
    dict(id='s-status-identity-from-header', unit=U, what='the identity on an error status is read from a reply header when present', expect=['Status::from_response::identity_is_the_connections'],
         edits=[(RPC, """            peer_id,
            headers: parts.headers,""", """            peer_id: if parts.headers.contains_key("peer-id") { Some(PeerId([0; 32])) } else { peer_id },
            headers: parts.headers,""")]),
    dict(id='s-status-identity-dropped', unit=U, what='an error status made from a reply names nobody', expect=['Status::from_response::identity_is_the_connections'],
         edits=[(RPC, 'let peer_id = response.peer_id().copied();', 'let peer_id = response.peer_id().copied().and(None);')]),
    dict(id='s-into-parts-loses-extensions', unit=U, what='taking a reply apart resets its local extensions', expect=['Response::into_parts::splits_unchanged'],
         edits=[(RESP, """    pub fn into_parts(self) -> (ResponseHeader, T) {
        (self.head, self.body)""", """    pub fn into_parts(self) -> (ResponseHeader, T) {
        let mut head = self.head;
        head.extensions = Default::default();
        (head, self.body)""")]),
]
