PEER = 'crates/anemo/src/network/peer.rs'
RH = 'crates/anemo/src/network/request_handler.rs'
U = 'wire'
CANARIES = [
    dict(id='s-rpc-no-finish', unit=U, what='request stream not finished', expect=['Peer::do_rpc::finishes_stream', 'Peer::do_rpc::body'],
         edits=[(PEER, '        send_stream.get_mut().finish()?;\n', '        let _ = send_stream.get_mut();\n')]),
    dict(id='s-rpc-no-peer-id', unit=U, what='response not attributed to the connection identity', expect=['Peer::do_rpc::attributes_connection_identity'],
         edits=[(PEER, '        response.extensions_mut().insert(self.peer_id());\n', '')]),
    dict(id='s-rpc-different-recv-limit', unit=U, what='caller reads with the default codec', expect=['Peer::do_rpc::same_codec_both_directions'],
         edits=[(PEER, 'FramedRead::new(recv_stream, network_message_frame_codec(&self.config));', 'FramedRead::new(recv_stream, network_message_frame_codec(&Config::default()));')]),
    dict(id='s-handler-no-peer-id', unit=U, what='request not attributed to the connection identity', expect=['do_handle::delivers_exactly_the_request_with_authenticated_sender'],
         edits=[(RH, '        request.extensions_mut().insert(self.connection.peer_id());\n', '')]),
    dict(id='s-handler-different-send-limit', unit=U, what='handler writes with the default codec', expect=['BiStreamRequestHandler::new::same_codec_both_directions', 'BiStreamRequestHandler::new::codec_from_config'],
         edits=[(RH, 'send_stream: FramedWrite::new(send_stream, network_message_frame_codec(config)),', 'send_stream: FramedWrite::new(send_stream, network_message_frame_codec(&Config::default())),')]),
    dict(id='s-handler-unwrap-request', unit=U, what='decode error unwrapped in the stream task', expect=['BiStreamRequestHandler::do_handle::body', 'do_handle::malformed_request_never_reaches_service'],
         edits=[(RH, 'let mut request = read_request(&mut self.recv_stream).await?;', 'let mut request = read_request(&mut self.recv_stream).await.unwrap();')]),
    dict(id='s-handle-propagates', unit=U, what='handle() unwraps the result of do_handle', expect=['BiStreamRequestHandler::handle::body'],
         edits=[(RH, '''        if let Err(e) = self.do_handle().await {
            trace!("handling request failed: {e}");
        }''', '''        self.do_handle().await.unwrap();''')]),
    dict(id='h-dialer-ignores-ack', unit=U, what='dialer does not require a valid acknowledgement', expect=['handshake::dialer_requires_the_acknowledgement'],
         edits=[('crates/anemo/src/network/wire.rs', '            read_version_frame(&mut recv_stream).await?;', '            let _ = read_version_frame(&mut recv_stream).await;')]),
    dict(id='h-dialer-no-ack-at-all', unit=U, what='dialer does not wait for the acknowledgement stream', expect=['handshake::dialer_requires_the_acknowledgement'],
         edits=[('crates/anemo/src/network/wire.rs', '''            let mut recv_stream = connection.accept_uni().await?;
            read_version_frame(&mut recv_stream).await?;''', '''            let _ = &connection;''')]),
    dict(id='h-listener-no-preamble', unit=U, what='listener finishes the acknowledgement stream without writing the preamble', expect=['handshake::listener_sends_exactly_the_preamble'],
         edits=[('crates/anemo/src/network/wire.rs', '            write_version_frame(&mut send_stream, Version::V1).await?;\n            send_stream.finish()?;', '            send_stream.finish()?;')]),
    dict(id='l-panic-on-cancelled-task', unit=U, what='a cancelled handler task panics the accept loop', expect=['InboundRequestHandler::start::accept_loop::body'],
         edits=[(RH, 'if e.is_cancelled() {', 'if false {')]),
    dict(id='l-drain-finished-tasks-in-arm', unit=U, what='the join arm waits for every in-flight handler before accepting again', expect=['InboundRequestHandler::start::accept_loop::arms_do_not_wait'],
         edits=[(RH, """                        Ok(()) => {
                            trace!("request handler task completed");
                        },""", """                        Ok(()) => {
                            while let Some(_other) = inflight_requests.join_next().await {}
                        },""")]),
    dict(id='l-ends-on-garbage-datagram', unit=U, what='an incoming datagram ends the accept loop', expect=['InboundRequestHandler::start::accept_loop::ends_only_on_connection_error', 'InboundRequestHandler::start::accept_loop::body'],
         edits=[(RH, 'Ok(datagram) => trace!("incoming datagram of length: {}", datagram.len()),', 'Ok(datagram) => { let e = Error::msg(); break e; }')]),
    dict(id='l-handler-for-other-limit', unit=U, what='handlers are built with the default configuration', expect=['InboundRequestHandler::start::accept_loop::handler_uses_configured_limit'],
         edits=[(RH, 'BiStreamRequestHandler::new(&self.config, self.connection.clone()', 'BiStreamRequestHandler::new(&Config::default(), self.connection.clone()')]),
    dict(id='p-call-no-peer-tag', unit=U, what='outgoing requests are not tagged with the connection identity', expect=['Peer::call::tags_request_with_connection_identity'],
         edits=[(PEER, '        request.extensions_mut().insert(self.peer_id());\n        request.extensions_mut().insert(crate::Direction::Outbound);', '        request.extensions_mut().insert(crate::Direction::Outbound);')]),
    dict(id='p-call-other-layer', unit=U, what='an RPC bypasses the network outbound layer stack', expect=['Peer::call::through_the_network_outbound_layer'],
         edits=[(PEER, 'let mut service = self.outbound_request_layer.layer(inner);', 'let mut service = LayeredService { layer: OutboundRequestLayer { id: 0 }, inner };')]),
    dict(id='p-call-drops-headers', unit=U, what='outgoing request loses its headers on the way to the layer stack', expect=['Peer::call::request_unchanged'],
         edits=[(PEER, 'let peer = self.clone();', 'request.head.headers = HeaderMap::new(); let peer = self.clone();')]),
]
