CM = 'crates/anemo/src/network/connection_manager.rs'
U = 'active_peers'
CANARIES = [
    dict(id='ap-tiebreak-invert', unit=U, what='tie-break comparison inverted on one arm', expect=['tie_break::mixed_origin'],
         edits=[(CM, '=> remote_peer_id < own_peer_id,', '=> own_peer_id < remote_peer_id,')]),
    dict(id='ap-tiebreak-le', unit=U, what='tie-break uses <= on one arm', expect=['tie_break::mixed_origin'],
         edits=[(CM, '=> own_peer_id < remote_peer_id,', '=> own_peer_id <= remote_peer_id,')]),
    dict(id='ap-tiebreak-arrival-order', unit=U, what='tie-break always keeps the newer connection', expect=['tie_break::mixed_origin'],
         edits=[(CM, '=> remote_peer_id < own_peer_id,', '=> true,')]),
    dict(id='ap-remove-by-peer', unit=U, what='remove_with_stable_id ignores the stable id', expect=['ActivePeersInner::remove_with_stable_id::transition'],
         edits=[(CM, 'if entry.get().stable_id() == stable_id {', 'if true {')]),
    dict(id='ap-add-no-lost-event', unit=U, what='replacement does not announce LostPeer', expect=['ActivePeersInner::add::transition'],
         edits=[(CM, 'self.send_event(PeerEvent::LostPeer(peer_id, DisconnectReason::Requested));', '')]),
    dict(id='ap-add-close-wrong', unit=U, what='replacement closes the new connection instead of the old', expect=['ActivePeersInner::add::transition'],
         edits=[(CM, 'old_connection.close();', 'new_connection.close();')]),
    dict(id='ap-add-lost-wrong-reason', unit=U, what='replacement announces LostPeer with another reason', expect=['ActivePeersInner::add::transition'],
         edits=[(CM, 'self.send_event(PeerEvent::LostPeer(peer_id, DisconnectReason::Requested));', 'self.send_event(PeerEvent::LostPeer(peer_id, DisconnectReason::Reset));')]),
    dict(id='ap-add-newpeer-on-reject', unit=U, what='a rejected connection is still announced and returned', expect=['ActivePeersInner::add::transition'],
         edits=[(CM, '                    return None;\n', '')]),
    dict(id='ap-add-no-newpeer', unit=U, what='add sends no NewPeer', expect=['ActivePeersInner::add::transition'],
         edits=[(CM, '        self.send_event(PeerEvent::NewPeer(peer_id));\n', '')]),
    dict(id='ap-add-reject-not-closed', unit=U, what='rejected connection is not closed', expect=['ActivePeersInner::add::transition'],
         edits=[(CM, '                    new_connection.close();\n', '')]),
    dict(id='ap-remove-no-close', unit=U, what='explicit remove does not close the connection', expect=['ActivePeersInner::remove::transition'],
         edits=[(CM, '''        if let Some(connection) = self.connections.remove(peer_id) {
            // maybe actually provide reason to other side?
            connection.close();
''', '''        if let Some(connection) = self.connections.remove(peer_id) {
''')]),
    dict(id='ap-remove-wrong-reason', unit=U, what='explicit remove announces a fixed reason', expect=['ActivePeersInner::remove::transition'],
         edits=[(CM, 'self.send_event(PeerEvent::LostPeer(*peer_id, reason));', 'self.send_event(PeerEvent::LostPeer(*peer_id, DisconnectReason::Reset));')]),
    dict(id='ap-rmsid-event-always', unit=U, what='remove_with_stable_id announces LostPeer even when the id does not match',
         expect=['ActivePeersInner::remove_with_stable_id::transition'],
         edits=[(CM, '''                    self.send_event(PeerEvent::LostPeer(peer_id, reason));
                }
            }''', '''                }
                self.send_event(PeerEvent::LostPeer(peer_id, reason));
            }''')]),
    dict(id='ap-send-event-twice', unit=U, what='send_event sends twice', expect=['ActivePeersInner::send_event::appends'],
         edits=[(CM, 'let _ = self.peer_event_sender.send(event);', 'let _ = self.peer_event_sender.send(event.clone()); let _ = self.peer_event_sender.send(event);')]),
    dict(id='ap-len-off', unit=U, what='len counts one less', expect=['ActivePeersInner::len::is_listing_size', 'ActivePeersInner::len::body'],
         edits=[(CM, '        self.connections.len()\n    }\n\n    fn get', '        self.connections.len().saturating_sub(1)\n    }\n\n    fn get')]),
    dict(id='ap-contains-negated', unit=U, what='contains negated', expect=['ActivePeersInner::contains::is_view_membership'],
         edits=[(CM, '        self.connections.contains_key(peer_id)\n', '        !self.connections.contains_key(peer_id)\n')]),
    dict(id='ap-handler-tail-remove-by-peer', unit=U, what='handler exit removes whatever connection the peer has now', expect=['InboundRequestHandler::start::tail::removes_own_entry_only', 'InboundRequestHandler::start::tail::reports_loss_before_teardown'],
         edits=[('crates/anemo/src/network/request_handler.rs', """        self.active_peers.remove_with_stable_id(
            self.connection.peer_id(),
            self.connection.stable_id(),
            crate::types::DisconnectReason::from_quinn_error(&close_reason),
        );""", """        self.active_peers.remove(
            &self.connection.peer_id(),
            crate::types::DisconnectReason::from_quinn_error(&close_reason),
        );""")]),
    dict(id='ap-wrapper-rmsid-to-remove', unit=U, what='locked wrapper of remove_with_stable_id delegates to remove', expect=['ActivePeers::remove_with_stable_id::delegates'],
         edits=[(CM, """        self.inner_mut()
            .remove_with_stable_id(peer_id, stable_id, reason)""", """        self.inner_mut().remove(&peer_id, reason)""")]),
    dict(id='ap-quinn-reason-swapped', unit=U, what='TimedOut reported as Reset', expect=['DisconnectReason::from_quinn_error::mapping'],
         edits=[('crates/anemo/src/types/mod.rs', 'ConnectionError::TimedOut => DisconnectReason::TimedOut,', 'ConnectionError::TimedOut => DisconnectReason::Reset,')]),
    dict(id='ap-add-wrapper-swapped-own', unit=U, what='wrapper passes the remote id as own id', expect=['ActivePeers::add::delegates_mixed'],
         edits=[(CM, 'self.inner_mut().add(own_peer_id, new_connection)', 'self.inner_mut().add(&new_connection.peer_id(), new_connection)')]),
    dict(id='ap-peers-empty-listing', unit=U, what='the connected-peer listing is always empty', expect=['ActivePeersInner::peers::listing_is_the_connected_set'],
         edits=[(CM, 'self.connections.keys().copied().collect()', 'let _keys: Vec<PeerId> = self.connections.keys().copied().collect();\n        Vec::new()')]),
    dict(id='ap-peers-two-lock-acquisitions', unit=U, what='peers() takes the lock twice', expect=['ActivePeers::peers::one_critical_section'],
         edits=[(CM, """    pub fn peers(&self) -> Vec<PeerId> {
        self.inner().peers()""", """    pub fn peers(&self) -> Vec<PeerId> {
        let _n = self.inner().len();
        self.inner().peers()""")]),
    dict(id='ap-shutdown-try-send', unit=U, what='the shutdown request is dropped when the manager\'s mailbox is full', expect=['NetworkInner::shutdown::request_always_reaches_the_manager'],
         edits=[('crates/anemo/src/network/mod.rs', """            .send(ConnectionManagerRequest::Shutdown(sender))
            .await
            .map_err""", """            .try_send(ConnectionManagerRequest::Shutdown(sender))
            .map_err""")]),
    dict(id='ap-connect-drops-expected-identity', unit=U, what='a dial naming an identity reaches the manager without it', expect=['NetworkInner::connect::request_reaches_the_manager_unchanged'],
         edits=[('crates/anemo/src/network/mod.rs', """                addr, peer_id, sender,""", """                addr, None, sender,""")]),
    dict(id='ap-is-closed-never', unit=U, what='a network never reports closed', expect=['NetworkInner::is_closed::mailbox_closed'],
         edits=[('crates/anemo/src/network/mod.rs', """        self.connection_manager_handle.is_closed()""", """        self.connection_manager_handle.is_closed() && false""")]),
    dict(id='ap-public-dial-forgets-identity', unit=U, what='the public dial-with-identity call does not pass the identity on', expect=['Network::connect_with_peer_id::asks_for_exactly_that_identity'],
         edits=[('crates/anemo/src/network/mod.rs', "        self.0.connect(addr.into(), Some(peer_id)).await", "        let _ = peer_id;\n        self.0.connect(addr.into(), None).await")]),
    dict(id='ap-public-listing-empty', unit=U, what='the public listing is always empty', expect=['Network::peers::is_the_connected_set'],
         edits=[('crates/anemo/src/network/mod.rs', """    pub fn peers(&self) -> Vec<PeerId> {
        self.0.peers()""", """    pub fn peers(&self) -> Vec<PeerId> {
        let _ = self.0.peers();
        Vec::new()""")]),
    dict(id='ap-inner-listing-of-a-dead-network', unit=U, what='a network that is gone still lists a peer', expect=['NetworkInner::peers::closed_network_lists_nobody'],
         edits=[('crates/anemo/src/network/mod.rs', "            .unwrap_or_default()\n    }\n\n    fn known_peers", "            .unwrap_or(vec![PeerId([0; 32])])\n    }\n\n    fn known_peers")]),
]
