RPC = 'crates/anemo/src/rpc/mod.rs'
U = 'typed_rpc'
CANARIES = [
    dict(id='t-non-success-reply-decoded-as-message', unit=U, what='the typed client decodes the payload of a non-success reply as a message', expect=['client::Rpc::unary::typed_call'],
         edits=[(RPC, """            if !status_code.is_success() {
                return Err(Status::from_response(response));
            }""", """            let _ = status_code;""")]),
    dict(id='t-content-type-not-set', unit=U, what='the typed client does not announce the codec', expect=['client::Rpc::unary::typed_call'],
         edits=[(RPC, """                parts.headers.insert(
                    crate::types::header::CONTENT_TYPE.to_owned(),
                    codec.format_name().to_owned(),
                );""", """                let _ = codec.format_name();""")]),
    dict(id='t-handler-status-reduced-to-its-code', unit=U, what='the server sends only the code of the handler\'s error status', expect=['server::Rpc::map_response::message_or_status', 'server::Rpc::unary::typed_handling'],
         edits=[(RPC, """                Err(status) => return status.into_response(),
            };

            let (mut parts, body) = response.into_parts();""", """                Err(status) => return status.status().into_response(),
            };

            let (mut parts, body) = response.into_parts();""")]),
    dict(id='t-status-message-dropped', unit=U, what='a status loses its message on the way out', expect=['Status::into_response::message_travels_as_its_header'],
         edits=[(RPC, """        if let Some(message) = self.message {
            response
                .headers_mut()
                .insert(crate::types::header::STATUS_MESSAGE.to_owned(), message);
        }""", """        let _ = self.message;""")]),
    dict(id='t-handler-headers-replaced', unit=U, what='the server replaces the handler\'s response headers by the content type alone', expect=['server::Rpc::map_response::message_or_status', 'server::Rpc::unary::typed_handling'],
         edits=[(RPC, """            // Set the content type
            parts.headers.insert(
                crate::types::header::CONTENT_TYPE.to_owned(),
                self.response_codec.format_name().to_owned(),
            );

            let mut encoder = self.response_codec.encoder();""", """            parts.headers = Default::default();
            parts.headers.insert(
                crate::types::header::CONTENT_TYPE.to_owned(),
                self.response_codec.format_name().to_owned(),
            );

            let mut encoder = self.response_codec.encoder();""")]),
    dict(id='t-request-header-not-forwarded', unit=U, what='the typed handler gets a fresh request header instead of the caller\'s', expect=['server::Rpc::map_request::decodes_or_refuses', 'server::Rpc::unary::typed_handling'],
         edits=[(RPC, """            let req = Request::from_parts(parts, message);

            Ok(req)""", """            let mut fresh = parts;
            fresh.headers = Default::default();
            let req = Request::from_parts(fresh, message);

            Ok(req)""")]),
]
