W = 'crates/anemo/src/network/wire.rs'
REQ = 'crates/anemo/src/types/request.rs'
RESP = 'crates/anemo/src/types/response.rs'
TY = 'crates/anemo/src/types/mod.rs'
U = 'wire'
K = 'kani_wire'
CANARIES = [
    dict(id='w-req-frames-swapped', unit=U, what='write_request sends the body before the header', expect=['write_request::layout'],
         edits=[(W, '''    send_stream.send(buf.freeze()).await?;

    // Write Body
    send_stream.send(body).await?;

    Ok(())
}

pub(crate) async fn write_response''', '''    send_stream.send(body).await?;
    send_stream.send(buf.freeze()).await?;

    Ok(())
}

pub(crate) async fn write_response''')]),
    dict(id='w-req-no-preamble', unit=U, what='write_request omits the version preamble', expect=['write_request::layout'],
         edits=[(W, '    write_version_frame(send_stream.get_mut(), request.version()).await?;\n', '')]),
    dict(id='w-resp-status-constant', unit=U, what='response header always says the default status', expect=['RawResponseHeader::from_header::fields'],
         edits=[(RESP, 'status: header.status.to_u16(),', 'status: StatusCode::Success.to_u16(),')]),
    dict(id='w-resp-unknown-status-accepted', unit=U, what='unknown status codes decode as Unknown', expect=['ResponseHeader::from_raw::unknown_status_rejected', 'ResponseHeader::from_raw::fields'],
         edits=[(RESP, 'status: StatusCode::new(raw_header.status)?,', 'status: StatusCode::new(raw_header.status).unwrap_or(StatusCode::Unknown),')]),
    dict(id='w-codec-little-endian', unit=U, what='length prefix little-endian', expect=['network_message_frame_codec::length_field'],
         edits=[(W, 'builder.length_field_length(4).big_endian().new_codec()', 'builder.length_field_length(4).little_endian().new_codec()')]),
    dict(id='w-codec-2-byte-length', unit=U, what='2-byte length prefix', expect=['network_message_frame_codec::length_field'],
         edits=[(W, 'builder.length_field_length(4)', 'builder.length_field_length(2)')]),
    dict(id='w-codec-limit-off-by-one', unit=U, what='configured limit applied minus one', expect=['network_message_frame_codec::configured_limit'],
         edits=[(W, 'builder.max_frame_length(max_frame_size);', 'builder.max_frame_length(max_frame_size.saturating_sub(1));')]),
    dict(id='w-codec-limit-ignored', unit=U, what='configured limit ignored', expect=['network_message_frame_codec::configured_limit'],
         edits=[(W, 'builder.max_frame_length(max_frame_size);', 'let _ = max_frame_size;')]),
    dict(id='w-read-req-route-from-elsewhere', unit=U, what='decoded request gets the default route', expect=['RequestHeader::from_raw::fields', 'read_request::fields'],
         edits=[(REQ, '''        Self {
            route: raw_header.route,
            version,''', '''        Self {
            route: "/".into(),
            version,''')]),
    dict(id='w-read-resp-skip-version', unit=U, what='read_response does not read the preamble', expect=['read_response::accepts_exactly_valid_messages', 'read_response::body', 'read_response::fields'],
         edits=[(W, '''    let version = read_version_frame(recv_stream.get_mut()).await?;

    // Read Request Header
    let header_buf = recv_stream
        .next()
        .await
        .ok_or_else(|| anyhow!("unexpected EOF"))??;
    let raw_header: RawResponseHeader''', '''    let version = Version::V1;

    // Read Request Header
    let header_buf = recv_stream
        .next()
        .await
        .ok_or_else(|| anyhow!("unexpected EOF"))??;
    let raw_header: RawResponseHeader''')]),
    dict(id='w-read-req-unwrap', unit=U, what='read_request unwraps the body frame', expect=['read_request::body', 'read_request::accepts_exactly_valid_messages'],
         edits=[(W, '''        .ok_or_else(|| anyhow!("unexpected EOF"))??;

    let request = Request::from_parts''', '''        .unwrap()?;

    let request = Request::from_parts''')]),
    dict(id='w-req-from-header-drops-headers', unit=U, what='wire header drops the header map', expect=['RawRequestHeader::from_header::fields'],
         edits=[(REQ, '''        Self {
            route: header.route,
            headers: header.headers,
        }''', '''        Self {
            route: header.route,
            headers: Default::default(),
        }''')]),
    # kani side
    dict(id='k-read-version-reserved-ignored', unit=K, what='reserved byte not checked', expect=['kani_wire::read_version_total_and_exact'],
         edits=[(W, 'if &buf[0..=4] != ANEMO || buf[7] != 0 {', 'if &buf[0..=4] != ANEMO {')]),
    dict(id='k-write-version-little-endian', unit=K, what='version written little-endian', expect=['kani_wire::write_version_layout_and_roundtrip'],
         edits=[(W, 'buf[5..=6].copy_from_slice(&version.to_u16().to_be_bytes());', 'buf[5..=6].copy_from_slice(&version.to_u16().to_le_bytes());')]),
    dict(id='k-version-symmetric-le', unit=K, what='version little-endian on both reader and writer (symmetric)', expect=['kani_wire::write_version_layout_and_roundtrip', 'kani_wire::read_version_total_and_exact'],
         edits=[(W, 'buf[5..=6].copy_from_slice(&version.to_u16().to_be_bytes());', 'buf[5..=6].copy_from_slice(&version.to_u16().to_le_bytes());'),
                (W, 'let version = u16::from_be_bytes(version_be_bytes);', 'let version = u16::from_le_bytes(version_be_bytes);')]),
    dict(id='k-version-accept-any', unit=K, what='unknown versions accepted', expect=['kani_wire::version_closed_set'],
         edits=[(TY, '            _ => Err(anyhow::anyhow!("invalid version {}", version)),', '            _ => Ok(Version::V1),')]),
    dict(id='k-status-extra-code', unit=K, what='an undocumented status code accepted', expect=['kani_wire::status_closed_set'],
         edits=[(RESP, '            520 => Unknown,', '            520 | 599 => Unknown,')]),
    dict(id='k-read-version-short-index', unit=K, what='reader indexes before checking length', expect=['kani_wire::read_version_total_and_exact'],
         edits=[(W, '    recv_stream.read_exact(&mut buf).await?;\n    if &buf', '    let _ = recv_stream.read_exact(&mut buf).await;\n    if &buf')]),
]
