RT = 'crates/anemo/src/routing/mod.rs'
ROUTE = 'crates/anemo/src/routing/route.rs'
NF = 'crates/anemo/src/routing/not_found.rs'
CANARIES = [
    dict(id='r-trailing-slash-served-by-first-route', unit='routing', what='a route string the trie does not match (trailing-slash variants) is served by some registered route instead of the fallback',
         expect=['Router::call::unmatched_goes_to_the_fallback', 'Router::call::body'],
         edits=[(RT, """            Err(MatchError::MissingTrailingSlash)
            | Err(MatchError::ExtraTrailingSlash)
            | Err(MatchError::NotFound) => self.fallback.oneshot_inner(req),""", """            Err(MatchError::MissingTrailingSlash) | Err(MatchError::ExtraTrailingSlash) => match self.routes.get(&RouteId(0)) {
                Some(route) => route.oneshot_inner(req),
                None => self.fallback.oneshot_inner(req),
            },
            Err(MatchError::NotFound) => self.fallback.oneshot_inner(req),""")]),
    dict(id='r-matched-goes-to-fallback', unit='routing', what='a matched request is answered by the fallback', expect=['Router::call::dispatches_to_the_matched_routes_service'],
         edits=[(RT, """                route.oneshot_inner(req)
            }""", """                let _ = route;
                self.fallback.oneshot_inner(req)
            }""")]),
    dict(id='r-not-found-answers-success', unit='routing', what='the fallback answers Success', expect=['NotFound::call::answers_not_found'],
         edits=[(NF, 'StatusCode::NotFound.into_response()', 'StatusCode::Success.into_response()')]),
    dict(id='r-matcher-answers-for-another-path', unit='routing', what='RouteMatcher::at answers for another path', expect=['RouteMatcher::at::is_the_tries_answer', 'RouteMatcher::at::no_pattern_no_id'],
         edits=[(RT, """        self.inner.at(path)
    }""", """        let _ = path;
        self.inner.at("/")
    }""")]),
    # ---- the bounded twin (whole Router on the matchit model) ----
    dict(id='r-layer-wraps-fallback', unit='enum_router', what='route-level middleware also runs for unmatched requests', expect=['enum_router::router_histories'],
         edits=[(RT, """        Router {
            routes,
            matcher,
            fallback,
        }
    }""", """        Router {
            routes,
            matcher,
            fallback: Route::new(layer.layer(fallback)),
        }
    }""")]),
    dict(id='r-duplicate-pattern-replaces', unit='enum_router', what='registering a pattern twice silently keeps only one of the services', expect=['enum_router::router_histories'],
         edits=[(RT, """        if let Err(err) = self.matcher.insert(path, id) {
            panic!("Invalid route: {err}");
        }""", """        if self.matcher.insert(path, id).is_err() {
            return self;
        }""")]),
    dict(id='r-merge-loses-middleware', unit='enum_router', what='merging re-registers the other router\'s routes under fresh services without their middleware... (here: skips the last route)', expect=['enum_router::router_histories'],
         edits=[(RT, """        for (id, route) in routes {""", """        for (id, route) in routes.into_iter().skip(1) {""")]),
    dict(id='r-rpc-service-exact-prefix-only', unit='enum_router', what='an RPC service is registered for its bare prefix instead of everything under it', expect=['enum_router::router_histories'],
         edits=[(RT, 'let path = format!("/{}/*rest", S::SERVICE_NAME);', 'let path = format!("/{}/", S::SERVICE_NAME);')]),
]
