CR = 'crates/anemo/src/crypto.rs'
U = 'enum_certs'
CANARIES = [
    dict(id='v-client-name-check-skipped', unit=U, what='a listener accepts a dialer certificate whatever network name it is issued for', expect=['enum_certs::client_cert_verifier'],
         edits=[(CR, """        if subject_name_refs.into_iter().any(|name| {
            verified_cert
                .end_entity()
                .verify_is_valid_for_subject_name(&name)
                .is_ok()
        }) {""", """        if subject_name_refs.into_iter().any(|name| {
            let _ = verified_cert.end_entity().verify_is_valid_for_subject_name(&name);
            true
        }) {""")]),
    dict(id='v-server-requested-name-not-checked', unit=U, what='a dialer accepts a server name it is not configured for', expect=['enum_certs::server_cert_verifier'],
         edits=[(CR, """            .find(|name| name.as_str() == dns_name.as_ref())
            .ok_or(rustls::Error::UnsupportedNameType)?;""", """            .find(|name| name.as_str() == dns_name.as_ref());""")]),
    dict(id='v-trust-root-from-chain', unit=U, what='the trust root is taken from the certificates the peer sent along', expect=['enum_certs::server_cert_verifier', 'enum_certs::client_cert_verifier'],
         edits=[(CR, 'let root = webpki::anchor_from_trusted_cert(end_entity).map_err(pki_error)?;', 'let root = webpki::anchor_from_trusted_cert(intermediates.first().unwrap_or(end_entity)).map_err(pki_error)?;')]),
    dict(id='v-ecdsa-supported', unit=U, what='ECDSA certificates are accepted', expect=['enum_certs::server_cert_verifier', 'enum_certs::client_cert_verifier'],
         edits=[(CR, 'static SUPPORTED_SIG_ALGS: &[&dyn SignatureVerificationAlgorithm] = &[webpki::ring::ED25519];', 'static SUPPORTED_SIG_ALGS: &[&dyn SignatureVerificationAlgorithm] = &[webpki::ring::ED25519, webpki::ring::ECDSA_P256_SHA256];')]),
    dict(id='v-server-name-validity-not-checked', unit=U, what='a dialer does not check that the certificate is valid for the requested name', expect=['enum_certs::server_cert_verifier'],
         edits=[(CR, """        verified_cert
            .end_entity()
            .verify_is_valid_for_subject_name(server_name)
            .map_err(pki_error)
            .map(|_| ServerCertVerified::assertion())""", """        let _ = verified_cert.end_entity();
        Ok(ServerCertVerified::assertion())""")]),
    dict(id='v-client-validation-error-ignored', unit=U, what='a listener ignores a failed webpki validation of the dialer certificate', expect=['enum_certs::client_cert_verifier'],
         edits=[(CR, """                webpki::KeyUsage::client_auth(),
                None,
                None,
            )
            .map_err(pki_error)?;""", """                webpki::KeyUsage::client_auth(),
                None,
                None,
            )
            .map_err(pki_error);
        let verified_cert = match verified_cert { Ok(v) => v, Err(_) => return Ok(ClientCertVerified::assertion()) };""")]),
    dict(id='v-handshake-signature-assumed-for-tls12', unit=U, what='the listener accepts any TLS 1.2 handshake signature', expect=['enum_certs::handshake_signature_history'],
         edits=[(CR, """        rustls::crypto::verify_tls12_signature(message, cert, dss, &SUPPORTED_ALGORITHMS)
    }""", """        let _ = (message, cert, dss);
        Ok(rustls::client::danger::HandshakeSignatureValid::assertion())
    }""", (1, 3))]),
    dict(id='v-handshake-signature-only-first-time', unit=U, what='a certificate whose handshake signature verified once is not checked again', expect=['enum_certs::handshake_signature_history'],
         edits=[(CR, """        rustls::crypto::verify_tls13_signature(message, cert, dss, &SUPPORTED_ALGORITHMS)
    }""", """        static SEEN: std::sync::Mutex<Vec<Vec<u8>>> = std::sync::Mutex::new(Vec::new());
        if SEEN.lock().unwrap().iter().any(|c| c.as_slice() == cert.as_ref()) {
            return Ok(rustls::client::danger::HandshakeSignatureValid::assertion());
        }
        let ok = rustls::crypto::verify_tls13_signature(message, cert, dss, &SUPPORTED_ALGORITHMS)?;
        SEEN.lock().unwrap().push(cert.as_ref().to_vec());
        Ok(ok)
    }""", (2, 3))]),
]
