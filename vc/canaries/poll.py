INB = 'crates/anemo/src/middleware/timeout/inbound.rs'
OUTB = 'crates/anemo/src/middleware/timeout/outbound.rs'
AUTHF = 'crates/anemo-tower/src/auth/future.rs'
U = 'kani_poll'
CANARIES = [
    dict(id='p-inbound-timeout-status', unit=U, what='timed-out handler answered with InternalServerError', expect=['kani_poll::inbound_poll'],
         edits=[(INB, 'with_status(StatusCode::RequestTimeout)', 'with_status(StatusCode::InternalServerError)')]),
    dict(id='p-inbound-sleep-first', unit=U, what='deadline checked before the handler result', expect=['kani_poll::inbound_poll'],
         edits=[(INB, '''        if let Poll::Ready(result) = this.inner.poll(cx) {
            return Poll::Ready(result);
        }

        if let Some(sleep) = this.sleep.as_pin_mut() {
            futures::ready!(sleep.poll(cx));
            let response = Response::new(Bytes::new()).with_status(StatusCode::RequestTimeout);
            return Poll::Ready(Ok(response));
        }
''', '''        if let Some(sleep) = this.sleep.as_pin_mut() {
            if sleep.poll(cx).is_ready() {
                let response = Response::new(Bytes::new()).with_status(StatusCode::RequestTimeout);
                return Poll::Ready(Ok(response));
            }
        }

        if let Poll::Ready(result) = this.inner.poll(cx) {
            return Poll::Ready(result);
        }
''')]),
    dict(id='p-outbound-timeout-swallowed', unit=U, what='calling side keeps waiting after the deadline', expect=['kani_poll::outbound_poll'],
         edits=[(OUTB, '            return Poll::Ready(Err(TimeoutExpired(()).into()));\n', '            let _ = TimeoutExpired(());\n')]),
    dict(id='p-auth-poll-drops-response', unit=U, what='refusal future yields a default response', expect=['kani_poll::auth_poll'],
         edits=[(AUTHF, 'let response = response.take().unwrap();', 'let response = { let _ = response.take(); Response::new(Bytes::new()) };')]),
]
