CFG = 'crates/anemo/src/config.rs'
EP = 'crates/anemo/src/endpoint.rs'
U = 'tls_config'
CANARIES = [
    dict(id='t-pinned-dial-uses-default-config', unit=U, what='a dial naming an identity goes out with the unpinned configuration', expect=['Endpoint::connect_with_expected_peer_id::dials_with_the_pin'],
         edits=[(EP, """        let config = self
            .config
            .client_config_with_expected_server_identity(peer_id);""", """        let _ = peer_id;
        let config = self.config.client_config().clone();""")]),
    dict(id='t-pin-on-own-identity', unit=U, what='the pinned configuration pins the node\'s own identity instead of the requested one', expect=['EndpointConfig::client_config_with_expected_server_identity::pins_exactly_the_given_identity'],
         edits=[(CFG, """            },
            peer_id,
        );""", """            },
            self.peer_id,
        );""")]),
    dict(id='t-pinned-config-base-verifier', unit=U, what='the configuration for a pinned dial installs the plain verifier', expect=['EndpointConfig::client_config_with_expected_server_identity::pins_exactly_the_given_identity'],
         edits=[(CFG, '.with_custom_certificate_verifier(Arc::new(server_cert_verifier))', '.with_custom_certificate_verifier(Arc::new(server_cert_verifier.0))')]),
    dict(id='t-client-config-other-verifier', unit=U, what='client configuration installs another verifier than the one given', expect=['EndpointConfigBuilder::client_config::installs_the_given_verifier'],
         edits=[(CFG, '.with_custom_certificate_verifier(cert_verifier)', '.with_custom_certificate_verifier(Arc::new(CertVerifier { server_names: Vec::new() }))')]),
    dict(id='t-server-config-other-verifier', unit=U, what='server configuration verifies dialers with another verifier', expect=['EndpointConfigBuilder::server_config::installs_the_given_client_verifier'],
         edits=[(CFG, '.with_client_cert_verifier(cert_verifier)', '.with_client_cert_verifier(Arc::new(CertVerifier { server_names: Vec::new() }))')]),
    dict(id='t-client-config-tls12-too', unit=U, what='client configuration also offers TLS 1.2', expect=['EndpointConfigBuilder::client_config::tls13_only'],
         edits=[(CFG, """        .with_protocol_versions(&[&rustls::version::TLS13])?
        .dangerous()""", """        .with_safe_default_protocol_versions()?
        .dangerous()""")]),
    dict(id='t-own-identity-constant', unit=U, what='the node\'s own PeerId is not derived from its certificate', expect=['EndpointConfigBuilder::build::own_identity_is_own_key'],
         edits=[(CFG, 'let peer_id = crate::crypto::peer_id_from_certificate(&primary_certificate).unwrap();', 'let peer_id = PeerId([0; 32]);')]),
    dict(id='t-own-cert-other-name', unit=U, what='the presented certificate is issued for the alternate name', expect=['EndpointConfigBuilder::build::own_certificate_from_own_key', 'EndpointConfigBuilder::build::body'],
         edits=[(CFG, 'let (primary_certificate, pkcs8_der) = Self::generate_cert(&keypair, &primary_server_name);', 'let (primary_certificate, pkcs8_der) = Self::generate_cert(&keypair, "other");')]),
    dict(id='t-dial-asks-other-name', unit=U, what='dials ask for another server name', expect=['Endpoint::connect_with_client_config::dials_with_the_given_configuration'],
         edits=[(EP, '.connect_with(config, address, self.config.server_name())', '.connect_with(config, address, "other")')]),
    dict(id='t-dial-ignores-config', unit=U, what='connect_with_client_config dials with the default configuration', expect=['Endpoint::connect_with_client_config::dials_with_the_given_configuration', 'Endpoint::connect_with_expected_peer_id::dials_with_the_pin'],
         edits=[(EP, '.connect_with(config, address, self.config.server_name())', '.connect_with({ let _ = config; self.config.client_config().clone() }, address, self.config.server_name())')]),
    dict(id='t-outbound-marked-inbound', unit=U, what='a dialed connection is recorded as Inbound', expect=['Connecting::new_outbound::origin'],
         edits=[(EP, 'Self::new(inner, ConnectionOrigin::Outbound)', 'Self::new(inner, ConnectionOrigin::Inbound)')]),
    dict(id='t-listener-single-certificate', unit=U, what='the listener presents one certificate whatever name the hello asks for', expect=['EndpointConfigBuilder::server_config::certificate_only_for_a_known_name'],
         edits=[(CFG, '.with_cert_resolver(Arc::new(server_cert_resolver));', '.with_single_cert(Vec::new(), pkcs8_der.clone_key())?;')]),
    dict(id='k-pinned-dial-default-transport', unit='tls_config', what='a dial that names an identity runs with quinn\'s default transport parameters', expect=['EndpointConfig::client_config_with_expected_server_identity::keeps_the_transport_configuration'],
         edits=[('crates/anemo/src/config.rs', """        client.transport_config(self.transport_config.clone());
        client
    }

    #[cfg(test)]""", """        client
    }

    #[cfg(test)]""")]),
    dict(id='k-idle-timeout-not-applied', unit='tls_config', what='the configured idle timeout never reaches quinn', expect=['QuicConfig::transport_config::idle_timeout_is_the_configured_one'],
         edits=[('crates/anemo/src/config.rs', "            config.max_idle_timeout(Some(max));", "            let _ = max;")]),
    dict(id='k-keep-alive-in-seconds', unit='tls_config', what='the keep-alive interval is read as seconds', expect=['QuicConfig::transport_config::keep_alive_is_the_configured_one', 'QuicConfig::transport_config::body'],
         edits=[('crates/anemo/src/config.rs', "self.keep_alive_interval_ms.map(Duration::from_millis)", "self.keep_alive_interval_ms.map(|ms| Duration::from_millis(ms * 1000))")]),
]
