IL = 'crates/anemo-tower/src/inflight_limit.rs'
RL = 'crates/anemo-tower/src/rate_limit.rs'
CANARIES = [
    dict(id='i-layer-builds-a-fresh-table', unit='limits', what='every service built by the layer gets a table of its own', expect=['InflightLimitLayer::layer::shares_the_layers_table'],
         edits=[(IL, """            inner,
            inflight: self.inflight.clone(),""", """            inner,
            inflight: Arc::new(DashMap::new()),""")]),
    dict(id='i-layer-forgets-the-mode', unit='limits', what='services built by the layer always block', expect=['InflightLimitLayer::layer::keeps_limit_and_mode'],
         edits=[(IL, "            wait_mode: self.wait_mode,", "            wait_mode: WaitMode::Block,")]),
    # ---- the bounded twin (the real call under every schedule) ----
    dict(id='i-permit-dropped-at-once', unit='enum_limits', what='the permit is not held while the wrapped service runs', expect=['enum_limits::inflight_schedules'],
         edits=[(IL, "            let _permit = match wait_mode {", "            let _ = match wait_mode {")]),
    dict(id='i-one-semaphore-for-everybody', unit='enum_limits', what='all peers share one semaphore', expect=['enum_limits::inflight_schedules'],
         edits=[(IL, "                    .entry(*peer_id)", "                    .entry(anemo::PeerId([0; 32]))")]),
    dict(id='i-no-permits-is-an-internal-error', unit='enum_limits', what='a request over the limit is refused with InternalServerError', expect=['enum_limits::inflight_schedules'],
         edits=[(IL, """                    tokio::sync::TryAcquireError::NoPermits => {
                        anemo::rpc::Status::new(StatusCode::TooManyRequests)
                    }""", """                    tokio::sync::TryAcquireError::NoPermits => {
                        anemo::rpc::Status::new(StatusCode::InternalServerError)
                    }""")]),
    dict(id='i-permit-forgotten-on-error', unit='enum_limits', what='the slot of a finished request is never given back', expect=['enum_limits::inflight_schedules'],
         edits=[(IL, """            debug!("acquired inflight limiter permit for peer {peer_id:?}");
            inner.call(req).await""", """            debug!("acquired inflight limiter permit for peer {peer_id:?}");
            let res = inner.call(req).await;
            _permit.forget();
            res""")]),
    dict(id='i-return-error-mode-blocks', unit='enum_limits', what='ReturnError mode waits instead of refusing', expect=['enum_limits::inflight_schedules'],
         edits=[(IL, """                WaitMode::ReturnError => semaphore.try_acquire().map_err(|e| match e {""", """                WaitMode::ReturnError => semaphore.acquire().await.map_err(|_| tokio::sync::TryAcquireError::Closed).map_err(|e| match e {""")]),
    dict(id='q-layer-builds-a-fresh-limiter', unit='limits', what='every service built by the rate-limit layer gets a limiter of its own', expect=['RateLimitLayer::layer::shares_the_layers_limiter'],
         edits=[(RL, """            inner,
            limiter: self.limiter.clone(),""", """            inner,
            limiter: Arc::new(RateLimiter::dashmap_with_clock(governor::Quota { burst: 1 }, &self.clock)),""")]),
    # ---- rate limiter (bounded twin on the governor model) ----
    dict(id='q-one-quota-for-everybody', unit='enum_limits', what='all peers share one quota', expect=['enum_limits::rate_limit_histories'],
         edits=[(RL, "if let Err(e) = limiter.check_key(peer_id) {", "if let Err(e) = limiter.check() {")]),
    dict(id='q-refusal-without-hint', unit='enum_limits', what='a refusal carries no wait hint', expect=['enum_limits::rate_limit_histories'],
         edits=[(RL, """                        )
                        .with_header(WAIT_NANOS_HEADER, format!("{}", wait_time.as_nanos())));""", """                        ));""")]),
    dict(id='q-refused-request-still-served', unit='enum_limits', what='a request over quota is passed on anyway', expect=['enum_limits::rate_limit_histories'],
         edits=[(RL, """                        return Err(anemo::rpc::Status::new(""", """                        let _refusal: Result<(), _> = Err(anemo::rpc::Status::new(""")]),
    dict(id='q-block-mode-does-not-wait', unit='enum_limits', what='Block mode checks the quota once and goes on', expect=['enum_limits::rate_limit_histories'],
         edits=[(RL, "WaitMode::Block => limiter.until_key_ready(peer_id).await,", "WaitMode::Block => { let _ = limiter.check_key(peer_id); }")]),
    # ---- the lifted call blocks under Verus contract (unit limits) ----
    dict(id='vi-one-semaphore-for-everybody', unit='limits', what='all peers share one semaphore', expect=['InflightLimit::call::served_holding_a_permit_of_its_own_peer', 'InflightLimit::call::only_own_peers_entry_touched'],
         edits=[(IL, "                    .entry(*peer_id)", "                    .entry(anemo::PeerId([0; 32]))")]),
    dict(id='vi-no-permits-is-an-internal-error', unit='limits', what='a request over the limit is refused with InternalServerError', expect=['InflightLimit::call::block::body'],
         edits=[(IL, """                    tokio::sync::TryAcquireError::NoPermits => {
                        anemo::rpc::Status::new(StatusCode::TooManyRequests)
                    }""", """                    tokio::sync::TryAcquireError::NoPermits => {
                        anemo::rpc::Status::new(StatusCode::InternalServerError)
                    }""")]),
    dict(id='vi-semaphore-recreated-every-call', unit='limits', what='a fresh semaphore replaces the peer\'s on every request', expect=['InflightLimit::call::existing_semaphore_is_kept', 'InflightLimit::call::block::body'],
         edits=[(IL, """                let semaphore_entry = inflight
                    .entry(*peer_id)
                    .or_insert_with(|| Arc::new(Semaphore::new(max_inflight)));
                semaphore_entry.value().clone()""", """                inflight.insert(*peer_id, Arc::new(Semaphore::new(max_inflight)));
                let semaphore_entry = inflight
                    .entry(*peer_id)
                    .or_insert_with(|| Arc::new(Semaphore::new(max_inflight)));
                semaphore_entry.value().clone()""")]),
    dict(id='vi-no-identity-served', unit='limits', what='a request without identity is served unlimited', expect=['InflightLimit::call::no_identity_is_refused', 'InflightLimit::call::block::body'],
         edits=[(IL, """            let peer_id = req.peer_id().ok_or_else(|| {
                anemo::rpc::Status::internal("inflight limiter missing request PeerId")
            })?;""", """            let peer_id = match req.peer_id() { Some(p) => p, None => return inner.call(req).await };""")]),
    dict(id='vq-refusal-without-hint', unit='limits', what='the refusal carries no wait-nanos hint', expect=['RateLimit::call::refusal_carries_positive_wait_hint'],
         edits=[(RL, """                        )
                        .with_header(WAIT_NANOS_HEADER, format!("{}", wait_time.as_nanos())));""", """                        ));""")]),
    dict(id='vq-refused-request-still-served', unit='limits', what='a refused request is served all the same', expect=['RateLimit::call::over_quota_is_refused_outside_the_service', 'RateLimit::call::served_only_after_charged_to_own_peer'],
         edits=[(RL, """                        return Err(anemo::rpc::Status::new(""", """                        let _ = Err::<(), _>(anemo::rpc::Status::new(""")]),
    dict(id='vq-one-quota-for-everybody', unit='limits', what='every peer is charged to one key', expect=['RateLimit::call::served_only_after_charged_to_own_peer'],
         edits=[(RL, "                    if let Err(e) = limiter.check_key(peer_id) {", "                    if let Err(e) = limiter.check_key(&anemo::PeerId([0; 32])) {")]),
    dict(id='vq-block-mode-does-not-wait', unit='limits', what='Block mode serves without asking the limiter', expect=['RateLimit::call::served_only_after_charged_to_own_peer'],
         edits=[(RL, "                WaitMode::Block => limiter.until_key_ready(peer_id).await,", "                WaitMode::Block => (),")]),
]
