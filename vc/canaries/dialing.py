CM = 'crates/anemo/src/network/connection_manager.rs'
NET = 'crates/anemo/src/network/mod.rs'
CFG = 'crates/anemo/src/config.rs'
U = 'active_peers'
CANARIES = [
    dict(id='d-limit-gt', unit=U, what='admission uses > instead of >=', expect=['admission::decision'],
         edits=[(CM, 'if active_peers.len() >= limit {', 'if active_peers.len() > limit {')]),
    dict(id='d-allowed-not-bypassing', unit=U, what='Allowed peers are subject to the limit', expect=['admission::decision'],
         edits=[(CM, 'affinity: PeerAffinity::High | PeerAffinity::Allowed,', 'affinity: PeerAffinity::High,')]),
    dict(id='d-never-admitted', unit=U, what='Never peers fall through to the limit check', expect=['admission::decision'],
         edits=[(CM, '''                    return Err(anyhow::anyhow!(
                        "rejecting connection from peer {} due to having PeerAffinity::Never",
                        connection.peer_id()
                    ));''', '''                    tracing::debug!("peer {} has PeerAffinity::Never", connection.peer_id());''')]),
    dict(id='d-dial-ignores-pin', unit=U, what='a dial with an expected identity uses the unpinned connect', expect=['dial::pins_identity_and_ignores_limit'],
         edits=[(CM, 'endpoint.connect_with_expected_peer_id(socket_addr, peer_id)', 'endpoint.connect(socket_addr)')]),
    dict(id='d-backoff-ignores-cap', unit=U, what='backoff not capped', expect=['DialBackoffState::update::wait_is_min_max_k_step'],
         edits=[(CM, '''        let backoff_duration = std::cmp::min(
            max_backoff,
            backoff_step.saturating_mul(self.attempts.try_into().unwrap_or(u32::MAX)),
        );''', '''        let backoff_duration = backoff_step.saturating_mul(self.attempts.try_into().unwrap_or(u32::MAX));''')]),
    dict(id='d-backoff-unwrap-or-0', unit=U, what='huge failure counts wrap to zero wait', expect=['DialBackoffState::update::wait_is_min_max_k_step'],
         edits=[(CM, 'self.attempts.try_into().unwrap_or(u32::MAX)', 'self.attempts.try_into().unwrap_or(0)')]),
    dict(id='d-backoff-no-count', unit=U, what='failures are not counted', expect=['DialBackoffState::update::counts_failure'],
         edits=[(CM, '        self.attempts += 1;\n', '        self.attempts = 1;\n')]),
    dict(id='d-eligible-ge', unit=U, what='back-off comparison not strict', expect=['connectivity_check::eligible::exact'],
         edits=[(CM, '.map(|state| now > state.backoff)', '.map(|state| now >= state.backoff)')]),
    dict(id='d-eligible-allowed', unit=U, what='Allowed peers are background-dialed', expect=['connectivity_check::eligible::exact'],
         edits=[(CM, 'matches!(peer_info.affinity, PeerAffinity::High)', 'matches!(peer_info.affinity, PeerAffinity::High | PeerAffinity::Allowed)')]),
    dict(id='d-eligible-no-pending-check', unit=U, what='peers already being dialed are dialed again', expect=['connectivity_check::eligible::exact'],
         edits=[(CM, '                    && !self.pending_dials.contains_key(&peer_info.peer_id) // There is no pending dial to this node.\n', '')]),
    dict(id='d-rotation-always-first', unit=U, what='always dials the first address', expect=['connectivity_check::dial_one::rotates_addresses'],
         edits=[(CM, '                % peer.address.len();', '                % 1;')]),
    dict(id='d-dial-no-pending-mark', unit=U, what='dialed peer not marked pending', expect=['connectivity_check::dial_one::marks_pending'],
         edits=[(CM, '            self.pending_dials.insert(peer.peer_id, receiver);\n', '            drop(receiver);\n')]),
    dict(id='d-cap-ignores-pending', unit=U, what='cap ignores connections being established', expect=['connectivity_check::number_to_dial::cap'],
         edits=[(CM, '                .saturating_sub(self.pending_connections.len()),', '                .saturating_sub(0),')]),
    dict(id='d-result-before-register', unit=U, what='dial result sent before the connection is registered', expect=['handle_connecting_result::answers_with_authenticated_id_after_registering'],
         edits=[(CM, '''                self.add_peer(new_connection);
                if let Some(oneshot) = maybe_oneshot {
                    let _ = oneshot.send(Ok(peer_id));
                }''', '''                if let Some(oneshot) = maybe_oneshot {
                    let _ = oneshot.send(Ok(peer_id));
                }
                self.add_peer(new_connection);''')]),
    dict(id='d-result-target-id', unit=U, what='dial result echoes the requested id instead of the authenticated one', expect=['handle_connecting_result::answers_with_authenticated_id_after_registering'],
         edits=[(CM, 'let peer_id = new_connection.peer_id();\n                debug!', 'let peer_id = target_peer_id.unwrap_or(new_connection.peer_id());\n                debug!')]),
    dict(id='d-addpeer-handler-for-rejected', unit=U, what='a rejected connection still gets a request handler', expect=['ConnectionManager::add_peer::registers_and_spawns', 'ConnectionManager::add_peer::body'],
         edits=[(CM, '''        if let Some(new_connection) = self
            .active_peers
            .add(&self.endpoint.peer_id(), new_connection)
        {''', '''        let kept = self.active_peers.add(&self.endpoint.peer_id(), new_connection.clone());
        let _ = kept;
        {''')]),
    dict(id='n-disconnect-wrong-reason', unit=U, what='explicit disconnect announces another reason', expect=['NetworkInner::disconnect::removes_at_once_with_requested'],
         edits=[(NET, 'active_peers.remove(&peer_id, DisconnectReason::Requested);', 'active_peers.remove(&peer_id, DisconnectReason::LocallyClosed);')]),
    dict(id='n-disconnect-noop', unit=U, what='explicit disconnect does nothing', expect=['NetworkInner::disconnect::removes_at_once_with_requested', 'NetworkInner::disconnect::one_critical_section'],
         edits=[(NET, '        active_peers.remove(&peer_id, DisconnectReason::Requested);\n', '        let _ = (active_peers, peer_id);\n')]),
    dict(id='c-max-outstanding-default', unit=U, what='default cap changed', expect=['Config::max_outstanding::default_100'],
         edits=[(CFG, 'const MAX_CONCURRENT_OUTSTANDING_CONNECTING_CONNECTIONS: usize = 100;', 'const MAX_CONCURRENT_OUTSTANDING_CONNECTING_CONNECTIONS: usize = 1000;')]),
    dict(id='d-drain-success-keeps-failures', unit='active_peers', what='a successful dial no longer clears the recorded failures', expect=['connectivity_check::drain_one::success_clears_failures'],
         edits=[('crates/anemo/src/network/connection_manager.rs', '                    self.dial_backoff_states.remove(peer_id);\n                    false', '                    false')]),
    dict(id='d-drain-in-flight-dropped', unit='active_peers', what='a dial still in flight is dropped from the pending set', expect=['connectivity_check::drain_one::in_flight_stays'],
         edits=[('crates/anemo/src/network/connection_manager.rs', 'Err(oneshot::error::TryRecvError::Empty) => true,', 'Err(oneshot::error::TryRecvError::Empty) => false,')]),
    dict(id='d-drain-failure-restarts-count', unit='active_peers', what='every failure restarts the failure count at one', expect=['connectivity_check::drain_one::failure_counts_one'],
         edits=[('crates/anemo/src/network/connection_manager.rs', """                            entry.get_mut().update(
                                now,
                                self.config.connection_backoff(),
                                self.config.max_connection_backoff(),
                            );""", """                            *entry.get_mut() = DialBackoffState::new(
                                now,
                                self.config.connection_backoff(),
                                self.config.max_connection_backoff(),
                            );""")]),
    dict(id='d-known-peer-stored-under-another-id', unit=U, what='a known peer is registered under a constant id', expect=['KnownPeers::insert::registers_exactly_that_entry'],
         edits=[(CM, 'self.inner_mut().insert(peer_info.peer_id, peer_info)', 'self.inner_mut().insert(PeerId([0; 32]), peer_info)')]),
    dict(id='d-known-peer-never-forgotten', unit=U, what='removing a known peer only looks it up', expect=['KnownPeers::remove::forgets_exactly_that_entry'],
         edits=[(CM, """    pub fn remove(&self, peer_id: &PeerId) -> Option<PeerInfo> {
        self.inner_mut().remove(peer_id)""", """    pub fn remove(&self, peer_id: &PeerId) -> Option<PeerInfo> {
        self.inner_mut().get(peer_id).cloned()""")]),
]
