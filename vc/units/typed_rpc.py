"""Unit typed_rpc (Verus): the hand-written half of every generated typed client and server (C17): rpc/mod.rs
client::Rpc::unary, server::Rpc::{unary, map_request, map_response}, Status::{from_error, new_with_message, internal} -- on top of everything unit
rpc_status puts under contract (Status::from_response / into_response, Response::{into_parts, from_parts, ...}).

A codec is a pair of uninterpreted functions (encode: message -> bytes or refusal; decode: bytes -> message or refusal); the wrapped tower service
is a ghost call log plus an uninterpreted reply.  X12-style shape rule: `<svc>.call(<req>).await` (calling a tower service and awaiting its future, which
Verus cannot do for an opaque associated future type) is rendered as `call_and_await(&mut <svc>, <req>).await`, an assumed async function that appends
the request to the service's call log and returns the service's reply for it.
NOT covered here: the generator (anemo-build) -- see the bounded check codegen_routes; `IntoRequest`, `ready()`."""
import re
import prelude as P
import rpc_status

NAME = 'typed_rpc'
BACKEND = 'verus'
RPC = 'crates/anemo/src/rpc/mod.rs'
REQ = 'crates/anemo/src/types/request.rs'
RESP = 'crates/anemo/src/types/response.rs'

STANDINS = r'''
// ---------- codecs: two uninterpreted functions each ----------
pub trait Encoder {
    type Item; type Error: Into<BoxError>;
    spec fn enc(item: Self::Item) -> Option<Seq<u8>>;          // None: the encoder refuses this message
    fn encode(&mut self, item: Self::Item) -> (r: core::result::Result<Bytes, Self::Error>)
        ensures r is Ok <==> Self::enc(item) is Some, r is Ok ==> r->Ok_0.v@ == Self::enc(item)->Some_0;
}
pub trait Decoder {
    type Item; type Error: Into<BoxError>;
    spec fn dec(b: Seq<u8>) -> Option<Self::Item>;              // None: these bytes are not a message
    fn decode(&mut self, src: Bytes) -> (r: core::result::Result<Self::Item, Self::Error>)
        ensures r is Ok <==> Self::dec(src.v@) is Some, r is Ok ==> r->Ok_0 == Self::dec(src.v@)->Some_0;
}
pub trait Codec {
    type Encode; type Decode;
    type Encoder: Encoder<Item = Self::Encode>;
    type Decoder: Decoder<Item = Self::Decode>;
    spec fn name(&self) -> Seq<char>;
    fn encoder(&mut self) -> (r: Self::Encoder) ensures final(self).name() == old(self).name();
    fn decoder(&mut self) -> (r: Self::Decoder) ensures final(self).name() == old(self).name();
    fn format_name(&self) -> (r: &'static str) ensures r@ == self.name();
}
// ---------- the wrapped service: a call log and an uninterpreted reply ----------
pub trait Service<Req> {
    type Response; type Error: Into<BoxError>;
    spec fn calls(&self) -> Seq<Req>;
    spec fn reply(&self, req: Req) -> core::result::Result<Self::Response, Self::Error>;
}
#[verifier::external_body]
pub async fn call_and_await<Req, S: Service<Req>>(s: &mut S, req: Req) -> (r: core::result::Result<S::Response, S::Error>)
    ensures final(s).calls() == old(s).calls().push(req), r == old(s).reply(req) { unimplemented!() }
// a typed handler (server side): message in, message or status out
pub trait UnaryService<R> {
    type Response;
    spec fn calls(&self) -> Seq<Request<R>>;
    spec fn reply(&self, req: Request<R>) -> core::result::Result<Response<Self::Response>, Status>;
}
#[verifier::external_body]
pub async fn unary_call_and_await<R, S: UnaryService<R>>(s: &mut S, req: Request<R>) -> (r: core::result::Result<Response<S::Response>, Status>)
    ensures final(s).calls() == old(s).calls().push(req), r == old(s).reply(req) { unimplemented!() }
impl StatusCode { #[verifier::external_body] pub fn is_success(self) -> (r: bool) ensures r == (self is Success) { unimplemented!() } }   // (200..=299 holds only Success: kani_wire::status_closed_set)
// what a status made from a local error looks like (Status::from_error: code Unknown, names nobody)
pub open spec fn local_error_status(s: Status) -> bool { s.status is Unknown && s.peer_id is None && s.headers.m@ == Map::<Seq<char>, Seq<char>>::empty() }
// a handler's error status as a reply: code, message (as the status-message header) and every header intact, nothing added, no identity attached
pub open spec fn status_travels(status: Status, r: Response<Bytes>) -> bool {
    &&& r.head.status == status.status
    &&& r.head.extensions.peer is None
    &&& (forall|k: Seq<char>| #[trigger] r.head.headers.m@.contains_key(k) ==> k == header::STATUS_MESSAGE@ || status.headers.m@.contains_key(k))
    &&& (forall|k: Seq<char>| #[trigger] status.headers.m@.contains_key(k) && k != header::STATUS_MESSAGE@ ==> r.head.headers.m@.contains_key(k) && r.head.headers.m@[k] == status.headers.m@[k])
    &&& (status.message is Some ==> r.head.headers.m@.contains_key(header::STATUS_MESSAGE@) && r.head.headers.m@[header::STATUS_MESSAGE@] == status.message->Some_0@)
}
pub uninterp spec fn fmt_opaque_spec() -> Seq<char>;
#[verifier::external_body] pub fn fmt_opaque() -> (r: String) { unimplemented!() }
impl core::fmt::Debug for Status { #[verifier::external_body] fn fmt(&self, f: &mut core::fmt::Formatter<'_>) -> core::fmt::Result { unimplemented!() } }
'''


def eta(e):
    """X11: function paths handed to map_err are eta-expanded with the contract their target carries"""
    t = e.text
    t, k1 = re.subn(r'\.map_err\(Into::into\)', '.map_err(|e| -> (o: BoxError) { e.into() })', t)
    t, k2 = re.subn(r'\.map_err\(Status::from_error\)', '.map_err(|e: BoxError| -> (s: Status) ensures local_error_status(s) { Status::from_error(e) })', t)
    t, k3 = re.subn(r'\.map_err\(\|err\| Status::internal\(format!\("Error encoding: \{err\}"\)\)\)', '.map_err(|err: BoxError| -> (s: Status) ensures s.status is InternalServerError && s.peer_id is None && s.headers.m@ == Map::<Seq<char>, Seq<char>>::empty() { Status::internal(fmt_opaque()) })', t)
    if k1 or k2 or k3:
        e.text = t
        e.log('X11', 'function paths / closures handed to map_err annotated (x%d)' % (k1 + k2 + k3))


def tower_call(e):
    """X12: `<svc>.call(<req>).await` -> `call_and_await(&mut <svc>, <req>).await` (shape-checked: exactly one `.call(` followed by `.await`)"""
    t = e.text
    t2, k = re.subn(r'\bself\s*\.\s*inner\s*\.\s*call\(\s*(\w+)\s*\)\s*\.\s*await', r'call_and_await(&mut self.inner, \1).await', t)
    t3, k2 = re.subn(r'\bservice\s*\.\s*call\(\s*(\w+)\s*\)\s*\.\s*await', r'unary_call_and_await(&mut service, \1).await', t2)
    if k + k2:
        e.text = t3
        e.log('X12', '`.call(req).await` on a tower service rendered as the assumed async function call_and_await (x%d)' % (k + k2))


def build(ctx):
    C = ctx
    t = P.HEADER + P.STD_SPECS
    t += rpc_status.build_body(C)
    t += C.item(REQ, 'struct RequestHeader', derives=False)
    t += C.item(REQ, 'struct Request', derives=False)
    t += 'impl<T> Request<T> {\n'
    t += C.fn(REQ, 'impl <T> Request<T> :: fn from_parts', 'Request::from_parts', ['C17'], ret='r', spec='''
    ensures
        r.head == parts && r.body == body, // @OBL Request::from_parts::keeps_parts [C17] a request rebuilt from parts carries exactly those parts
''')
    t += C.fn(REQ, 'impl <T> Request<T> :: fn into_parts', 'Request::into_parts', ['C17'], ret='r', spec='''
    ensures
        r.0 == self.head && r.1 == self.body, // @OBL Request::into_parts::splits_unchanged [C17] taking a request apart yields its header and body unchanged
''')
    t += '}\n'
    t += STANDINS
    t += 'impl Status {\n'
    t += C.fn(RPC, 'impl Status :: fn new_with_message', 'Status::new_with_message', ['C17'], ret='r', rewrites=[dict(rule='X5', pattern='<M: Into<String>>', repl=''), dict(rule='X5', pattern='message: M', repl='message: String'), dict(rule='X5', pattern='message.into()', repl='message')], spec='''
    ensures
        r.status == status && r.message == Some(message) && r.peer_id is None && r.headers.m@ == Map::<Seq<char>, Seq<char>>::empty(), // @OBL Status::new_with_message::fields [C17] a status made from a code and a message carries exactly those, names nobody, has no headers
''')
    t += C.fn(RPC, 'impl Status :: fn internal', 'Status::internal', ['C17'], ret='r', rewrites=[dict(rule='X5', pattern='<M: Into<String>>', repl=''), dict(rule='X5', pattern='message: M', repl='message: String')], spec='''
    ensures
        r.status is InternalServerError && r.peer_id is None && r.headers.m@ == Map::<Seq<char>, Seq<char>>::empty(), // @OBL Status::internal::code [C17] Status::internal is InternalServerError
''')
    t += C.fn(RPC, 'impl Status :: fn from_error', 'Status::from_error', ['C17'], ret='r', rewrites=[dict(rule='X5', pattern='format!("unknown error: {error}")', repl='fmt_opaque()'), dict(rule='X5', pattern='status.source = Some(error);', repl='')], spec='''
    ensures
        local_error_status(r), // @OBL Status::from_error::unknown_and_local [C17] an error that is not a reply (codec failure, transport failure) becomes a status with code Unknown that names no peer
''')
    t += '}\n'
    # ---- client --------------------------------------------------------------------------------------------
    t += 'pub mod client {\n    use super::*;\n'
    t += C.item(RPC, 'mod client :: struct Rpc', derives=False)
    t += 'impl<T> Rpc<T> {\n'
    t += C.fn(RPC, 'mod client :: impl <T> Rpc<T> :: fn unary', 'client::Rpc::unary', ['C17'], ret='r', transforms=[eta, tower_call], param_names=('codec',),
              sig_rewrites=[(re.compile(r'where\b.*$', re.S), 'where T: Service<Request<Bytes>, Response = Response<Bytes>>, C: Codec<Encode = M1, Decode = M2>\n')], spec='''
    ensures
        ({
            let sent_head = RequestHeader { route: request.head.route, version: request.head.version, extensions: request.head.extensions,
                                            headers: HeaderMap { m: Ghost(request.head.headers.m@.insert(header::CONTENT_TYPE@, codec.name())) } };
            match <C::Encoder as Encoder>::enc(request.body) {
                None => r is Err && local_error_status(r->Err_0) && final(self).inner.calls() == old(self).inner.calls(),
                Some(bytes) => {
                    &&& final(self).inner.calls().len() == old(self).inner.calls().len() + 1
                    &&& final(self).inner.calls().last().head.route == request.head.route
                    &&& final(self).inner.calls().last().head.headers.m@ == sent_head.headers.m@
                    &&& final(self).inner.calls().last().body.v@ == bytes
                    &&& match old(self).inner.reply(final(self).inner.calls().last()) {
                        Err(_) => r is Err && local_error_status(r->Err_0),
                        Ok(resp) => if !(resp.head.status is Success) {
                            r is Err && r->Err_0.status == resp.head.status && r->Err_0.headers == resp.head.headers && r->Err_0.peer_id == resp.head.extensions.peer
                                && opt_view(r->Err_0.message) == (if resp.head.headers.m@.contains_key(header::STATUS_MESSAGE@) { Some(resp.head.headers.m@[header::STATUS_MESSAGE@]) } else { None::<Seq<char>> })
                        } else {
                            match <C::Decoder as Decoder>::dec(resp.body.v@) {
                                None => r is Err && local_error_status(r->Err_0),
                                Some(m) => r is Ok && r->Ok_0.head == resp.head && r->Ok_0.body == m,
                            }
                        },
                    }
                },
            }
        }), // @OBL client::Rpc::unary::typed_call [C17] a typed call sends ONE request: the caller's route and headers plus the codec's content type, the encoded message as body (nothing is sent if encoding fails); a non-success reply surfaces as an error status with the reply's code, status-message, headers and sender intact; a success reply whose payload does not decode, or a transport error, surfaces as an error status (code Unknown, local); otherwise the decoded message with the reply's header unchanged. Never a wrong-typed success, never a panic
''')
    t += '}\n}\n'
    # ---- server --------------------------------------------------------------------------------------------
    t += 'pub mod server {\n    use super::*;\n'
    t += C.item(RPC, 'mod server :: struct Rpc', derives=False)
    t += 'impl<T1: Codec, T2: Codec> Rpc<T1, T2> {\n'
    t += C.fn(RPC, 'mod server :: impl <T1, T2> Rpc<T1, T2> .* :: fn map_request', 'server::Rpc::map_request', ['C17'], ret='r', transforms=[eta], spec='''
    ensures
        match <T1::Decoder as Decoder>::dec(request.body.v@) {
            None => r is Err && local_error_status(r->Err_0),
            Some(m) => r is Ok && r->Ok_0.head == request.head && r->Ok_0.body == m,
        }, // @OBL server::Rpc::map_request::decodes_or_refuses [C17] the typed handler receives exactly the request's header and the decoded message; an undecodable payload becomes an error status, never a panic
        final(self).response_codec.name() == old(self).response_codec.name(), // @OBL server::Rpc::map_request::response_codec_untouched [C17] decoding a request leaves the response codec alone
''')
    t += C.fn(RPC, 'mod server :: impl <T1, T2> Rpc<T1, T2> .* :: fn map_response', 'server::Rpc::map_response', ['C17'], ret='r', transforms=[eta], spec='''
    ensures
        match response {
            Err(status) => status_travels(status, r),
            Ok(resp) => match <T2::Encoder as Encoder>::enc(resp.body) {
                None => r.head.status is InternalServerError,
                Some(bytes) => r.head.status == resp.head.status && r.head.extensions == resp.head.extensions && r.body.v@ == bytes
                    && r.head.headers.m@ == resp.head.headers.m@.insert(header::CONTENT_TYPE@, old(self).response_codec.name()),
            },
        }, // @OBL server::Rpc::map_response::message_or_status [C17] the handler's message goes out encoded, with the handler's status and headers plus the codec's content type; the handler's error status goes out with its code and headers (plus status-message); an encoding failure is InternalServerError
''')
    t += C.fn(RPC, 'mod server :: impl <T1, T2> Rpc<T1, T2> .* :: fn unary', 'server::Rpc::unary', ['C17'], ret='r', transforms=[tower_call], param_names=('service',),
              sig_rewrites=[(re.compile(r'where\b.*$', re.S), 'where S: UnaryService<T1::Decode, Response = T2::Encode>\n')], spec='''
    ensures
        match <T1::Decoder as Decoder>::dec(request.body.v@) {
            None => r.head.status is Unknown && r.head.extensions.peer is None,
            Some(m) => match service.reply(Request { head: request.head, body: m }) {
                Err(status) => status_travels(status, r),
                Ok(resp) => match <T2::Encoder as Encoder>::enc(resp.body) {
                    None => r.head.status is InternalServerError,
                    Some(bytes) => r.head.status == resp.head.status && r.body.v@ == bytes
                        && r.head.headers.m@ == resp.head.headers.m@.insert(header::CONTENT_TYPE@, old(self).response_codec.name()),
                },
            },
        }, // @OBL server::Rpc::unary::typed_handling [C17] the handler is given exactly the request's header and decoded message, and its answer goes out as map_response says (message encoded with the handler's status and headers; error status with code, status-message and headers); a request whose payload does not decode is answered with an error status (Unknown) without reaching a wrong-typed handler call; never a panic
''')
    t += '}\n}\n'
    t += C.helpers_here()
    t += P.FOOTER
    return t
