"""Unit enum_certs (BOUNDED exhaustive enumeration, native execution): anemo's two certificate verifiers around webpki
(crypto.rs CertVerifier::verify_server_cert, CertVerifier::verify_client_cert, prepare_for_self_signed, pki_error and the real static
SUPPORTED_SIG_ALGS) run on an executable model of webpki over a small space of certificates.  These functions are iterator / closure
pipelines over &str that Verus rejects; here the extracted text is compiled as it is.

The model of webpki (trusted, stated): a certificate has a subject key, the key its signature verifies under, a signature algorithm, a
validity state, an extended-key-usage set and a set of DNS names; `verify_for_usage` accepts iff the certificate chains to one of the
GIVEN trust anchors with a supported algorithm, is within its validity and permits the usage; intermediates are never CAs (rcgen's
self-signed certificates are not); `verify_is_valid_for_subject_name` accepts iff the name is among the certificate's names."""
import prelude as P

NAME = 'enum_certs'
BACKEND = 'enum'
CR = 'crates/anemo/src/crypto.rs'
COVER = {'server_cert_verifier': [0, 1], 'client_cert_verifier': [0, 1], 'pinned_server_cert_verifier': [0, 1], 'handshake_signature_history': [0, 1, 2, 3]}

PRELUDE = r'''// GENERATED on every run by /verif/vc from /repo's working tree -- do not edit
#![allow(dead_code, unused, non_upper_case_globals, non_camel_case_types)]
use std::sync::Arc;
use std::marker::PhantomData;
#[derive(Debug)]
pub struct Error;
impl Error { pub fn msg() -> Self { Error } }
#[derive(Debug)] pub struct AsStdError(pub Error);
impl From<Error> for AsStdError { fn from(e: Error) -> Self { AsStdError(e) } }
#[derive(Debug, Clone, Copy, PartialEq, Eq)] pub enum AlgId { Ed25519, EcdsaP256 }
// ---- the certificate model -------------------------------------------------------------------------------------------
pub const NAMES: [&str; 3] = ["net", "alt", "other"];
#[derive(Clone, Debug, PartialEq)]
#[repr(C)]
pub struct CertificateDer<'a> {
    pub key: u8,            // subject public key
    pub signed_by: u8,      // the key its signature verifies under (== key: self-signed)
    pub alg: AlgId,         // signature algorithm
    pub well_formed: bool,
    pub validity: u8,       // 0 valid now, 1 expired, 2 not yet valid
    pub eku: u8,            // 0: no extended-key-usage extension (any usage); else bit 0 = server auth, bit 1 = client auth
    pub names: u8,          // bit i: valid for NAMES[i]
    pub p: PhantomData<&'a ()>,
}
// the certificate's bytes: the seven one-byte fields above, in declaration order (repr(C), no padding)
impl<'a> AsRef<[u8]> for CertificateDer<'a> { fn as_ref(&self) -> &[u8] { unsafe { std::slice::from_raw_parts(self as *const Self as *const u8, 7) } } }
impl<'a> std::ops::Deref for CertificateDer<'a> { type Target = [u8]; fn deref(&self) -> &[u8] { self.as_ref() } }
#[derive(Clone, Copy, Debug)] pub struct UnixTime;
pub struct DnsName<'a>(pub &'a str);
impl<'a> AsRef<str> for DnsName<'a> { fn as_ref(&self) -> &str { self.0 } }
pub enum ServerName<'a> { DnsName(DnsName<'a>), IpAddress(u32) }
impl<'a> TryFrom<&'a str> for ServerName<'a> {
    type Error = ();
    fn try_from(s: &'a str) -> Result<Self, ()> { if s.is_empty() || s.contains(' ') { Err(()) } else { Ok(ServerName::DnsName(DnsName(s))) } }
}
pub trait SignatureVerificationAlgorithm: Sync { fn id(&self) -> AlgId; }
pub struct AlgObj(pub AlgId);
impl SignatureVerificationAlgorithm for AlgObj { fn id(&self) -> AlgId { self.0 } }
pub struct TrustAnchor<'a> { pub key: u8, pub p: PhantomData<&'a ()> }
#[derive(Debug)] pub struct ServerCertVerified(());
impl ServerCertVerified { pub fn assertion() -> Self { ServerCertVerified(()) } }
#[derive(Debug)] pub struct ClientCertVerified(());
impl ClientCertVerified { pub fn assertion() -> Self { ClientCertVerified(()) } }
pub mod rustls {
    use super::*;
    #[derive(Debug)] pub struct OtherError(pub Arc<AsStdError>);
    #[derive(Debug)] pub enum CertificateError { BadEncoding, BadSignature, Other(OtherError) }
    #[derive(Debug)] pub enum Error { InvalidCertificate(CertificateError), UnsupportedNameType, General(String), PeerMisbehaved }
    // ---- handshake signatures (CertificateVerify): `signer` is the private key that made the signature, `over` the transcript it was made over
    #[derive(Clone, Copy, PartialEq, Eq, Debug)] pub enum SignatureScheme { ED25519, ECDSA_NISTP256_SHA256 }
    #[derive(Clone, Debug)] pub struct DigitallySignedStruct { pub scheme: SignatureScheme, pub signer: u8, pub over: u8, pub sig: [u8; 2] }
    impl DigitallySignedStruct { pub fn new(scheme: SignatureScheme, signer: u8, over: u8) -> Self { DigitallySignedStruct { scheme, signer, over, sig: [signer, over] } } pub fn signature(&self) -> &[u8] { &self.sig } }
    #[derive(Clone, Debug)] pub struct DistinguishedName;
    pub mod client { pub mod danger { #[derive(Debug)] pub struct HandshakeSignatureValid(()); impl HandshakeSignatureValid { pub fn assertion() -> Self { HandshakeSignatureValid(()) } }
        pub use super::super::super::{ServerCertVerified, ServerCertVerifier}; } }
    pub mod server { pub mod danger { pub use super::super::super::{ClientCertVerified, ClientCertVerifier}; } }
    pub mod pki_types { pub use super::super::{CertificateDer, ServerName, UnixTime, TrustAnchor, SignatureVerificationAlgorithm}; }
    pub mod crypto {
        use super::*; use super::client::danger::HandshakeSignatureValid;
        pub struct WebPkiSupportedAlgorithms { pub all: &'static [&'static dyn SignatureVerificationAlgorithm], pub mapping: &'static [(SignatureScheme, &'static [&'static dyn SignatureVerificationAlgorithm])] }
        impl WebPkiSupportedAlgorithms { pub fn supported_schemes(&self) -> Vec<SignatureScheme> { self.mapping.iter().map(|m| m.0).collect() } }
        // the model of rustls' check: the scheme must be one the caller's table maps to an algorithm fitting the certificate's key, and the signature must
        // have been made by the certificate's private key over exactly this handshake's transcript
        fn verify(message: &[u8], cert: &CertificateDer, dss: &DigitallySignedStruct, algs: &WebPkiSupportedAlgorithms) -> Result<HandshakeSignatureValid, Error> {
            unsafe { SIG_CALLS += 1; }
            if !cert.well_formed { return Err(Error::InvalidCertificate(CertificateError::BadEncoding)); }
            let possible = algs.mapping.iter().find(|m| m.0 == dss.scheme).ok_or(Error::PeerMisbehaved)?.1;
            let scheme_alg = match dss.scheme { SignatureScheme::ED25519 => AlgId::Ed25519, SignatureScheme::ECDSA_NISTP256_SHA256 => AlgId::EcdsaP256 };
            if !possible.iter().any(|a| a.id() == cert.alg && a.id() == scheme_alg) { return Err(Error::InvalidCertificate(CertificateError::BadSignature)); }
            if dss.signer != cert.key || message.first() != Some(&dss.over) { return Err(Error::InvalidCertificate(CertificateError::BadSignature)); }
            Ok(HandshakeSignatureValid::assertion())
        }
        pub fn verify_tls12_signature(message: &[u8], cert: &CertificateDer, dss: &DigitallySignedStruct, algs: &WebPkiSupportedAlgorithms) -> Result<HandshakeSignatureValid, Error> { verify(message, cert, dss, algs) }
        pub fn verify_tls13_signature(message: &[u8], cert: &CertificateDer, dss: &DigitallySignedStruct, algs: &WebPkiSupportedAlgorithms) -> Result<HandshakeSignatureValid, Error> { verify(message, cert, dss, algs) }
    }
}
pub use rustls::crypto::WebPkiSupportedAlgorithms;
// ring, for edits that check signatures themselves: a signature is (the key that made it, the transcript it was made over)
pub mod ring { pub mod signature {
    pub struct Alg; pub static ED25519: Alg = Alg;
    #[derive(Debug)] pub struct Unspecified;
    pub struct UnparsedPublicKey<B> { pub key: B }
    impl<B: AsRef<[u8]>> UnparsedPublicKey<B> {
        pub fn new(_alg: &'static Alg, key: B) -> Self { UnparsedPublicKey { key } }
        pub fn verify(&self, message: &[u8], signature: &[u8]) -> Result<(), Unspecified> { if signature.len() == 2 && self.key.as_ref().first() == Some(&signature[0]) && message.first() == Some(&signature[1]) { Ok(()) } else { Err(Unspecified) } }
    }
} }
pub static mut SIG_CALLS: u32 = 0;
pub mod webpki {
    use super::*;
    pub mod ring { use super::super::*; pub static ED25519: &dyn SignatureVerificationAlgorithm = &AlgObj(AlgId::Ed25519); pub static ECDSA_P256_SHA256: &dyn SignatureVerificationAlgorithm = &AlgObj(AlgId::EcdsaP256); }
    #[derive(Debug, Clone, Copy, PartialEq)]
    pub enum Error { BadDer, BadDerTime, InvalidSignatureForPublicKey, UnsupportedSignatureAlgorithm, UnsupportedSignatureAlgorithmForPublicKey,
                     CertExpired, CertNotValidYet, CertNotValidForName, UnknownIssuer, RequiredEkuNotFound }
    impl std::fmt::Display for Error { fn fmt(&self, f: &mut std::fmt::Formatter<'_>) -> std::fmt::Result { write!(f, "{:?}", self) } }
    #[derive(Clone, Copy, PartialEq)] pub enum KeyUsage { Server, Client }
    impl KeyUsage { pub fn server_auth() -> Self { KeyUsage::Server } pub fn client_auth() -> Self { KeyUsage::Client } }
    pub struct EndEntityCert<'a> { pub c: CertificateDer<'a> }
    impl<'a> TryFrom<&'a CertificateDer<'a>> for EndEntityCert<'a> {
        type Error = Error;
        fn try_from(c: &'a CertificateDer<'a>) -> Result<Self, Error> { if c.well_formed { Ok(EndEntityCert { c: c.clone() }) } else { Err(Error::BadDer) } }
    }
    pub fn anchor_from_trusted_cert<'a>(c: &'a CertificateDer<'a>) -> Result<TrustAnchor<'a>, Error> { if c.well_formed { Ok(TrustAnchor { key: c.key, p: PhantomData }) } else { Err(Error::BadDer) } }
    pub struct VerifiedPath<'a> { pub ee: EndEntityCert<'a> }
    impl<'a> VerifiedPath<'a> { pub fn end_entity(&self) -> &EndEntityCert<'a> { &self.ee } }
    impl<'a> EndEntityCert<'a> {
        pub fn verify_for_usage(&self, algs: &[&dyn SignatureVerificationAlgorithm], anchors: &[TrustAnchor<'_>], _intermediates: &[CertificateDer<'_>], _now: UnixTime,
                                usage: KeyUsage, _revocation: Option<()>, _verify_path: Option<()>) -> Result<VerifiedPath<'a>, Error> {
            unsafe { VERIFY_CALLS += 1; }
            let c = &self.c;
            let bit = if usage == KeyUsage::Server { 1 } else { 2 };
            if c.eku != 0 && c.eku & bit == 0 { return Err(Error::RequiredEkuNotFound); }
            if c.validity == 1 { return Err(Error::CertExpired); }
            if c.validity == 2 { return Err(Error::CertNotValidYet); }
            // path building: the issuer must be one of the GIVEN trust anchors (intermediates are never CAs here)
            if !anchors.iter().any(|a| a.key == c.signed_by) { return Err(Error::UnknownIssuer); }
            if !algs.iter().any(|a| a.id() == c.alg) { return Err(Error::UnsupportedSignatureAlgorithm); }
            Ok(VerifiedPath { ee: EndEntityCert { c: c.clone() } })
        }
        pub fn verify_is_valid_for_subject_name(&self, name: &ServerName<'_>) -> Result<(), Error> {
            unsafe { NAME_CHECKS += 1; }
            match name {
                ServerName::DnsName(d) => match NAMES.iter().position(|n| *n == d.0) { Some(i) if self.c.names & (1 << i) != 0 => Ok(()), _ => Err(Error::CertNotValidForName) },
                _ => Err(Error::CertNotValidForName),
            }
        }
    }
}
pub static mut VERIFY_CALLS: u32 = 0;
pub static mut NAME_CHECKS: u32 = 0;
// stand-in for x509 + pkcs8 parsing (unit crypto): the certificate's subject key, or an error for a malformed certificate
pub fn peer_id_from_certificate(certificate: &CertificateDer) -> Result<PeerId, rustls::Error> {
    if certificate.well_formed { Ok(PeerId([certificate.key; 32])) } else { Err(rustls::Error::InvalidCertificate(rustls::CertificateError::BadEncoding)) }
}
pub trait ServerCertVerifier {
    fn verify_server_cert(&self, end_entity: &CertificateDer<'_>, intermediates: &[CertificateDer<'_>], server_name: &ServerName, ocsp_response: &[u8], now: UnixTime) -> Result<ServerCertVerified, rustls::Error>;
    fn verify_tls12_signature(&self, message: &[u8], cert: &CertificateDer<'_>, dss: &rustls::DigitallySignedStruct) -> Result<rustls::client::danger::HandshakeSignatureValid, rustls::Error>;
    fn verify_tls13_signature(&self, message: &[u8], cert: &CertificateDer<'_>, dss: &rustls::DigitallySignedStruct) -> Result<rustls::client::danger::HandshakeSignatureValid, rustls::Error>;
    fn supported_verify_schemes(&self) -> Vec<rustls::SignatureScheme>;
}
pub trait ClientCertVerifier {
    fn verify_client_cert(&self, end_entity: &CertificateDer, intermediates: &[CertificateDer], now: UnixTime) -> Result<ClientCertVerified, rustls::Error>;
    fn verify_tls12_signature(&self, message: &[u8], cert: &CertificateDer<'_>, dss: &rustls::DigitallySignedStruct) -> Result<rustls::client::danger::HandshakeSignatureValid, rustls::Error>;
    fn verify_tls13_signature(&self, message: &[u8], cert: &CertificateDer<'_>, dss: &rustls::DigitallySignedStruct) -> Result<rustls::client::danger::HandshakeSignatureValid, rustls::Error>;
    fn supported_verify_schemes(&self) -> Vec<rustls::SignatureScheme>;
}
'''

HARNESS = r'''
pub static mut COVER: [u64; 8] = [0; 8];
pub fn cover(i: usize) { unsafe { COVER[i] += 1; } }
pub struct Chooser { pub path: Vec<(u32, u32)>, pub pos: usize }
impl Chooser {
    pub fn below(&mut self, n: u32) -> u32 { if self.pos == self.path.len() { self.path.push((0, n)); } let c = self.path[self.pos].0; self.pos += 1; c }
    pub fn any_bool(&mut self) -> bool { self.below(2) == 1 }
}
fn run_all(name: &str, f: fn(&mut Chooser)) {
    let mut path: Vec<(u32, u32)> = Vec::new();
    let (mut runs, mut failures, mut first): (u64, u64, Option<(Vec<u32>, String)>) = (0, 0, None);
    loop {
        let mut ch = Chooser { path: path.clone(), pos: 0 };
        let res = std::panic::catch_unwind(std::panic::AssertUnwindSafe(|| f(&mut ch)));
        runs += 1;
        path = ch.path;
        if let Err(e) = res {
            failures += 1;
            if first.is_none() {
                let msg = e.downcast_ref::<String>().cloned().or_else(|| e.downcast_ref::<&str>().map(|s| s.to_string())).unwrap_or_default();
                first = Some((path.iter().map(|c| c.0).collect(), msg));
            }
        }
        while let Some((c, n)) = path.pop() { if c + 1 < n { path.push((c + 1, n)); break; } }
        if path.is_empty() { break; }
    }
    let (p, m) = first.unwrap_or_default();
    let cov = unsafe { let c = COVER; COVER = [0; 8]; c };
    println!("{{\"harness\": \"{}\", \"runs\": {}, \"failures\": {}, \"first_failing_choices\": {:?}, \"message\": {:?}, \"cover\": {:?}}}", name, runs, failures, p, m, cov);
}
pub fn main() {
    let args: Vec<String> = std::env::args().collect();
    if args.len() == 4 && args[1] == "--replay" {
        let choices: Vec<(u32, u32)> = args[3].split(',').filter(|s| !s.is_empty()).map(|s| (s.trim().parse().unwrap(), u32::MAX)).collect();
        let mut ch = Chooser { path: choices, pos: 0 };
        match args[2].as_str() { "client_cert_verifier" => harness::client_cert_verifier(&mut ch), "pinned_server_cert_verifier" => harness::pinned_server_cert_verifier(&mut ch), "handshake_signature_history" => harness::handshake_signature_history(&mut ch), _ => harness::server_cert_verifier(&mut ch) }
        println!("no assertion failed for this choice sequence");
        return;
    }
    std::panic::set_hook(Box::new(|_| {}));
    run_all("server_cert_verifier", harness::server_cert_verifier);
    run_all("client_cert_verifier", harness::client_cert_verifier);
    run_all("pinned_server_cert_verifier", harness::pinned_server_cert_verifier);
    run_all("handshake_signature_history", harness::handshake_signature_history);
}
pub mod harness {
    use super::*;
    fn any_cert(ch: &mut Chooser) -> CertificateDer<'static> {
        CertificateDer { key: 1 + ch.below(2) as u8, signed_by: 1 + ch.below(2) as u8, alg: if ch.any_bool() { AlgId::Ed25519 } else { AlgId::EcdsaP256 }, well_formed: ch.any_bool(),
                         validity: ch.below(3) as u8, eku: ch.below(4) as u8, names: ch.below(8) as u8, p: PhantomData }
    }
    fn names_of(ch: &mut Chooser) -> Vec<String> { if ch.any_bool() { vec!["net".to_owned()] } else { vec!["net".to_owned(), "alt".to_owned()] } }
    // what the statements of C01 / C14 ask of a certificate before any name is looked at: a well-formed, currently valid Ed25519 certificate that is
    // SELF-signed (its signature verifies under its own key: the trust root is the certificate itself, never anything else the peer sent)
    fn acceptable(c: &CertificateDer, usage_bit: u8) -> bool {
        c.well_formed && c.signed_by == c.key && c.alg == AlgId::Ed25519 && c.validity == 0 && (c.eku == 0 || c.eku & usage_bit != 0)
    }
    fn valid_for(c: &CertificateDer, name: &str) -> bool { match NAMES.iter().position(|n| *n == name) { Some(i) => c.names & (1 << i) != 0, None => false } }
    pub fn server_cert_verifier(ch: &mut Chooser) { // @EOBL [C14,C01] @BOUNDED CertVerifier::verify_server_cert (what a dialer runs on the listener's certificate) for every certificate of the model (2 keys x signed by either x Ed25519 / ECDSA x well-formed or not x valid / expired / not yet valid x 4 extended-key-usage sets x every subset of 3 names), with and without an extra certificate in the chain, verifier configured for [net] or [net, alt], requested name net / alt / other / an IP address: accepted iff the certificate is a well-formed, currently valid, SELF-signed Ed25519 certificate permitting server authentication, the requested name is one the verifier is configured for AND the certificate is valid for that name; never a panic
        let v = mk_verifier(names_of(ch));
        let cert = any_cert(ch);
        let extra = if ch.any_bool() { let k = cert.signed_by; vec![CertificateDer { key: k, signed_by: k, alg: AlgId::Ed25519, well_formed: true, validity: 0, eku: 0, names: 7, p: PhantomData }] } else { Vec::new() };
        let req = ch.below(4);
        let server_name = match req { 0 => ServerName::DnsName(DnsName("net")), 1 => ServerName::DnsName(DnsName("alt")), 2 => ServerName::DnsName(DnsName("other")), _ => ServerName::IpAddress(1) };
        let want = match req {
            3 => false,
            _ => { let n = NAMES[req as usize]; acceptable(&cert, 1) && v.server_names.iter().any(|s| s == n) && valid_for(&cert, n) }
        };
        if want { cover(0); }
        if !extra.is_empty() && cert.signed_by != cert.key && cert.well_formed { cover(1); }       // signed by the key of the extra certificate the peer sent along
        let r = v.verify_server_cert(&cert, &extra, &server_name, &[], UnixTime);
        assert!(r.is_ok() == want, "verify_server_cert accepted a certificate the statement refuses, or refused one it accepts");
    }
    pub fn pinned_server_cert_verifier(ch: &mut Chooser) { // @EOBL [C14,C03,C01] @BOUNDED ExpectedCertVerifier::verify_server_cert (what a dial naming an identity runs on the listener's certificate) over the same certificate model, verifier configured for [net] or [net, alt], expected identity key 1, requested name net / alt / other / an IP address: accepted iff the certificate's own key IS the expected identity AND everything the unpinned verifier demands holds too (well-formed, valid, self-signed Ed25519, server authentication permitted, requested name configured, certificate valid for that name)
        let v = ExpectedCertVerifier(mk_verifier(names_of(ch)), PeerId([1; 32]));
        let cert = any_cert(ch);
        let extra = if ch.any_bool() { let k = cert.signed_by; vec![CertificateDer { key: k, signed_by: k, alg: AlgId::Ed25519, well_formed: true, validity: 0, eku: 0, names: 7, p: PhantomData }] } else { Vec::new() };
        let req = ch.below(4);
        let server_name = match req { 0 => ServerName::DnsName(DnsName("net")), 1 => ServerName::DnsName(DnsName("alt")), 2 => ServerName::DnsName(DnsName("other")), _ => ServerName::IpAddress(1) };
        let want = match req {
            3 => false,
            _ => { let n = NAMES[req as usize]; cert.key == 1 && acceptable(&cert, 1) && v.0.server_names.iter().any(|s| s == n) && valid_for(&cert, n) }
        };
        if want { cover(0); }
        if cert.key == 1 && acceptable(&cert, 1) && !want { cover(1); }      // the right key, refused only because of a name
        let r = v.verify_server_cert(&cert, &extra, &server_name, &[], UnixTime);
        assert!(r.is_ok() == want, "the pinning verifier accepted a certificate the statement refuses, or refused one it accepts");
    }
    pub const SIG_HISTORY_STEPS: usize = 2;
    pub fn handshake_signature_history(ch: &mut Chooser) { // @EOBL [C01,C03] @BOUNDED the six real verify_tls1{2,3}_signature impls and supported_verify_schemes (listener-side CertVerifier, dialer-side CertVerifier, pinning ExpectedCertVerifier) on the model of rustls' handshake-signature check, for every HISTORY of SIG_HISTORY_STEPS verifications in one process (the thorough tier: 3, by one verifier), each with any certificate (key 1|2, Ed25519|ECDSA, well-formed or not) and any signature (scheme ED25519|ECDSA, made by key 1|2|3, over this handshake's transcript or another): a verification succeeds iff the certificate is a well-formed Ed25519 certificate, the scheme is ED25519 and the signature was made by the certificate's OWN private key over THIS handshake's transcript -- whatever was verified before and whatever other handshake's Certificate message the shared verifier processed in between (no certificate is ever remembered as already proved, no key is remembered across messages); the schemes offered are exactly [ED25519]; never a panic
        let same = SIG_HISTORY_STEPS > 2;
        let cv = mk_verifier(vec!["net".to_owned()]);
        let pinned = ExpectedCertVerifier(mk_verifier(vec!["net".to_owned()]), PeerId([1; 32]));
        let mut which = ch.below(3);
        let mut seen: Vec<(u8, bool)> = Vec::new();
        for step in 0..SIG_HISTORY_STEPS {
            if step > 0 && !same { which = ch.below(3); }
            let tls13 = ch.any_bool();
            let cert = CertificateDer { key: 1 + ch.below(2) as u8, signed_by: 0, alg: if ch.any_bool() { AlgId::Ed25519 } else { AlgId::EcdsaP256 }, well_formed: ch.any_bool(), validity: 0, eku: 0, names: 1, p: PhantomData };
            let cert = CertificateDer { signed_by: cert.key, ..cert };
            let transcript = [7u8 + step as u8, 0, 0];
            let dss = rustls::DigitallySignedStruct::new(if ch.any_bool() { rustls::SignatureScheme::ED25519 } else { rustls::SignatureScheme::ECDSA_NISTP256_SHA256 },
                                                         1 + ch.below(3) as u8, if ch.any_bool() { transcript[0] } else { 99 });
            let want = cert.well_formed && cert.alg == AlgId::Ed25519 && dss.scheme == rustls::SignatureScheme::ED25519 && dss.signer == cert.key && dss.over == transcript[0];
            // the verifier is ONE object shared by every handshake of the endpoint: between this handshake's Certificate message and its CertificateVerify,
            // the Certificate message of ANOTHER handshake may be processed (a well-formed certificate of key 3)
            let this = CertificateDer { names: 1, ..cert.clone() };
            let _ = match which { 0 => cv.verify_client_cert(&this, &[], UnixTime).map(|_| ()), 1 => ServerCertVerifier::verify_server_cert(&cv, &this, &[], &ServerName::DnsName(DnsName("net")), &[], UnixTime).map(|_| ()), _ => pinned.verify_server_cert(&this, &[], &ServerName::DnsName(DnsName("net")), &[], UnixTime).map(|_| ()) };
            if ch.any_bool() {
                let other = CertificateDer { key: 3, signed_by: 3, alg: AlgId::Ed25519, well_formed: true, validity: 0, eku: 0, names: 1, p: PhantomData };
                let _ = match which { 0 => cv.verify_client_cert(&other, &[], UnixTime).map(|_| ()), _ => ServerCertVerifier::verify_server_cert(&cv, &other, &[], &ServerName::DnsName(DnsName("net")), &[], UnixTime).map(|_| ()) };
                cover(3);
            }
            let (r, schemes) = match (which, tls13) {
                (0, false) => (ClientCertVerifier::verify_tls12_signature(&cv, &transcript, &cert, &dss), ClientCertVerifier::supported_verify_schemes(&cv)),
                (0, true) => (ClientCertVerifier::verify_tls13_signature(&cv, &transcript, &cert, &dss), ClientCertVerifier::supported_verify_schemes(&cv)),
                (1, false) => (ServerCertVerifier::verify_tls12_signature(&cv, &transcript, &cert, &dss), ServerCertVerifier::supported_verify_schemes(&cv)),
                (1, true) => (ServerCertVerifier::verify_tls13_signature(&cv, &transcript, &cert, &dss), ServerCertVerifier::supported_verify_schemes(&cv)),
                (_, false) => (pinned.verify_tls12_signature(&transcript, &cert, &dss), pinned.supported_verify_schemes()),
                (_, true) => (pinned.verify_tls13_signature(&transcript, &cert, &dss), pinned.supported_verify_schemes()),
            };
            if want { cover(0); }
            if !want && seen.contains(&(cert.key, true)) && cert.well_formed && cert.alg == AlgId::Ed25519 { cover(1); }   // this certificate was proved earlier in the history; now the proof is missing
            if step > 0 && want { cover(2); }
            assert!(schemes == vec![rustls::SignatureScheme::ED25519], "the signature schemes offered to the peer are not exactly [ED25519]");
            assert!(r.is_ok() == want, "a handshake signature was accepted without proof of the certificate's private key for this handshake, or a genuine one was refused");
            seen.push((cert.key, r.is_ok()));
        }
    }
    pub fn client_cert_verifier(ch: &mut Chooser) { // @EOBL [C14,C01] @BOUNDED CertVerifier::verify_client_cert (what a listener runs on a dialer's certificate) over the same certificate model, with and without an extra certificate in the chain, listener configured for [net] or [net, alt]: accepted iff the certificate is a well-formed, currently valid, SELF-signed Ed25519 certificate permitting client authentication that is valid for at least one of the names the listener accepts; never a panic
        let v = mk_verifier(names_of(ch));
        let cert = any_cert(ch);
        let extra = if ch.any_bool() { let k = cert.signed_by; vec![CertificateDer { key: k, signed_by: k, alg: AlgId::Ed25519, well_formed: true, validity: 0, eku: 0, names: 7, p: PhantomData }] } else { Vec::new() };
        let want = acceptable(&cert, 2) && v.server_names.iter().any(|s| valid_for(&cert, s));
        if want { cover(0); }
        if !extra.is_empty() && cert.signed_by != cert.key && cert.well_formed { cover(1); }
        let r = v.verify_client_cert(&cert, &extra, UnixTime);
        assert!(r.is_ok() == want, "verify_client_cert accepted a certificate the statement refuses, or refused one it accepts");
    }
}
'''


def build(ctx):
    C = ctx
    C.helper_rewrites = [dict(rule='X5', pattern='anyhow::Error', repl='Error'), dict(rule='X5', pattern=r"\bCertificateDer<'\w+>", repl='CertificateDer', regex=True)] if False else [dict(rule='X5', pattern='anyhow::Error', repl='Error')]
    t = PRELUDE

    def sigs(impl, label):
        return ''.join(C.fn(CR, '%s :: fn %s' % (impl, f), '%s::%s' % (label, f), ['C01', 'C03'], probe=False, pub=False)
                       for f in ('verify_tls12_signature', 'verify_tls13_signature', 'supported_verify_schemes'))
    t += P.peer_types(C).replace('#[derive(Copy, Clone, Hash, PartialEq, Eq, PartialOrd, Ord)]\npub struct PeerId', '#[derive(Copy, Clone, Hash, PartialEq, Eq, PartialOrd, Ord, Debug)]\npub struct PeerId')
    t += C.item(CR, 'static SUPPORTED_SIG_ALGS')
    t += C.item(CR, 'static SUPPORTED_ALGORITHMS')
    cv_item = C.item(CR, 'struct CertVerifier', derives=False)
    t += cv_item
    import re as _re
    fields = _re.findall(r'pub\s+(\w+)\s*:', cv_item.split('struct CertVerifier', 1)[1].split('}', 1)[0])
    extra = ''.join(' %s: Default::default(),' % f for f in fields if f != 'server_names')
    t += '// every field an edit adds to the verifier starts from its default\npub fn mk_verifier(server_names: Vec<String>) -> CertVerifier { CertVerifier { server_names,%s } }\n' % extra
    t += C.item(CR, 'type CertChainAndRoots')
    t += C.fn(CR, 'fn prepare_for_self_signed', 'prepare_for_self_signed', ['C14', 'C01'], probe=False)
    t += C.fn(CR, 'fn pki_error', 'pki_error', ['C14'], probe=False)
    t += 'impl ClientCertVerifier for CertVerifier {\n'
    t += C.fn(CR, 'impl ClientCertVerifier for CertVerifier :: fn verify_client_cert', 'CertVerifier::verify_client_cert', ['C14', 'C01'], probe=False, pub=False)
    t += sigs('impl ClientCertVerifier for CertVerifier', 'CertVerifier(client)')
    t += '}\nimpl ServerCertVerifier for CertVerifier {\n'
    t += C.fn(CR, 'impl ServerCertVerifier for CertVerifier :: fn verify_server_cert', 'CertVerifier::verify_server_cert', ['C14', 'C01'], probe=False, pub=False)
    t += sigs('impl ServerCertVerifier for CertVerifier', 'CertVerifier(server)')
    t += '}\n'
    t += C.item(CR, 'struct ExpectedCertVerifier', derives=False)
    t += 'impl ServerCertVerifier for ExpectedCertVerifier {\n'
    t += C.fn(CR, 'impl ServerCertVerifier for ExpectedCertVerifier :: fn verify_server_cert', 'ExpectedCertVerifier::verify_server_cert', ['C14', 'C03', 'C01'], probe=False, pub=False)
    t += sigs('impl ServerCertVerifier for ExpectedCertVerifier', 'ExpectedCertVerifier')
    t += '}\n'
    t += C.helpers_here()
    h = HARNESS
    if getattr(C, 'tier', 'quick') == 'thorough':
        h = h.replace('pub const SIG_HISTORY_STEPS: usize = 2;', 'pub const SIG_HISTORY_STEPS: usize = 3;')
    t += h
    return t
