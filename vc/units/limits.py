"""Unit limits (Verus): the constructors and the layer of anemo-tower's per-peer in-flight limiter (C18): inflight_limit.rs InflightLimitLayer::{new, layer},
InflightLimit::{new, layer, into_inner}; and of the per-peer rate limiter (C19): rate_limit.rs RateLimitLayer::{new, layer}, RateLimit::{new, into_inner}.  What they have to get right for the limit to be PER PEER ACROSS every service the layer builds: all
services built by one layer share the layer's one per-peer table, with the layer's limit and wait mode.
NOT under contract: `impl Service for InflightLimit`::call (an async block around tokio's Semaphore, boxed): run under every schedule by the bounded unit
enum_limits.  Assumed: DashMap as an opaque table with an identity (ghost id); Arc::clone yields the same table."""
import re
import prelude as P

NAME = 'limits'
BACKEND = 'verus'
IL = 'crates/anemo-tower/src/inflight_limit.rs'
RL = 'crates/anemo-tower/src/rate_limit.rs'

STANDINS = r'''
use std::sync::Arc;
// the per-peer table: only WHICH table it is matters here
pub struct DashMap<K, V> { pub id: Ghost<int>, pub p: Ghost<Option<(K, V)>> }
impl<K, V> DashMap<K, V> { #[verifier::external_body] pub fn new() -> (r: Self) { unimplemented!() } }
pub struct Semaphore;
'''


def build(ctx):
    C = ctx
    t = P.HEADER + P.STD_SPECS
    t += P.peer_types(C)
    t += STANDINS
    t += C.item(IL, 'enum WaitMode', extra_derive=['Structural', 'PartialEq', 'Eq'])
    t += C.item(IL, 'struct InflightLimitLayer', derives=False)
    t += C.item(IL, 'struct InflightLimit', derives=False)
    t += 'impl InflightLimitLayer {\n'
    t += C.fn(IL, 'impl InflightLimitLayer :: fn new', 'InflightLimitLayer::new', ['C18'], ret='r', spec='''
    ensures
        r.max_inflight == max_inflight && r.wait_mode == wait_mode, // @OBL InflightLimitLayer::new::keeps_limit_and_mode [C18] the layer stores the configured maximum and wait mode
''')
    t += C.fn(IL, 'impl <S> Layer<S> for InflightLimitLayer :: fn layer', 'InflightLimitLayer::layer', ['C18'], ret='r', sig_rewrites=[('fn layer(', 'fn layer<S>('), ('Self::Service', 'InflightLimit<S>')], spec='''
    ensures
        r.inflight.id@ == self.inflight.id@, // @OBL InflightLimitLayer::layer::shares_the_layers_table [C18] every service built by one layer counts a peer's requests in the layer's ONE per-peer table (so the limit holds per peer across all of them)
        r.max_inflight == self.max_inflight && r.wait_mode == self.wait_mode && r.inner == inner, // @OBL InflightLimitLayer::layer::keeps_limit_and_mode [C18] with the layer's maximum and wait mode, around exactly the given service
''')
    t += '}\nimpl<S> InflightLimit<S> {\n'
    t += C.fn(IL, 'impl <S> InflightLimit<S> :: fn new', 'InflightLimit::new', ['C18'], ret='r', spec='''
    ensures
        r.max_inflight == max_inflight && r.wait_mode == wait_mode && r.inner == inner, // @OBL InflightLimit::new::keeps_limit_and_mode [C18] a directly constructed limiter stores the configured maximum and wait mode around the given service
''')
    t += C.fn(IL, 'impl <S> InflightLimit<S> :: fn layer', 'InflightLimit::layer', ['C18'], ret='r', spec='''
    ensures
        r.max_inflight == max_inflight && r.wait_mode == wait_mode, // @OBL InflightLimit::layer::keeps_limit_and_mode [C18] InflightLimit::layer is a layer with the given maximum and wait mode
''')
    t += C.fn(IL, 'impl <S> InflightLimit<S> :: fn into_inner', 'InflightLimit::into_inner', ['C18'], ret='r', spec='''
    ensures
        r == self.inner, // @OBL InflightLimit::into_inner::is_the_wrapped_service [C18] into_inner returns the wrapped service
''')
    t += '}\n'
    # ---- rate limiter: the same question (do all services of a layer share ONE limiter?) ----
    t += '''
    // governor's keyed limiter: only WHICH limiter it is matters here
    pub struct Limiter { pub id: Ghost<int> }
    pub type SharedRateLimiter = Arc<Limiter>;
    #[derive(Clone, Copy)] pub struct DefaultClock;
    impl DefaultClock { #[verifier::external_body] pub fn default() -> (r: DefaultClock) { unimplemented!() } #[verifier::external_body] pub fn clone(&self) -> (r: DefaultClock) { unimplemented!() } }
    pub mod governor { pub struct Quota { pub burst: u32 } }
    pub struct RateLimiter;
    impl RateLimiter {
        #[verifier::external_body] pub fn keyed(quota: governor::Quota) -> (r: Limiter) { unimplemented!() }
        #[verifier::external_body] pub fn dashmap_with_clock(quota: governor::Quota, clock: &DefaultClock) -> (r: Limiter) { unimplemented!() }
    }
'''
    RN = [dict(rule='X5', pattern=r'\bWaitMode\b', repl='RateWaitMode', regex=True, optional=True)]      # (the file has a WaitMode of its own: renamed here, both live in one verus! block)
    t += C.item(RL, 'enum WaitMode', extra_derive=['Structural', 'PartialEq', 'Eq'], rewrites=RN)
    t += C.item(RL, 'struct RateLimitLayer', derives=False, rewrites=RN)
    t += C.item(RL, 'struct RateLimit', derives=False, rewrites=RN)
    t += 'impl RateLimitLayer {\n'
    t += C.fn(RL, 'impl RateLimitLayer :: fn new', 'RateLimitLayer::new', ['C19'], ret='r', rewrites=RN, spec='''
    ensures
        r.wait_mode == wait_mode, // @OBL RateLimitLayer::new::keeps_mode [C19] the layer stores the configured wait mode
''')
    t += C.fn(RL, 'impl <S> Layer<S> for RateLimitLayer :: fn layer', 'RateLimitLayer::layer', ['C19'], ret='r', sig_rewrites=[('fn layer(', 'fn layer<S>('), ('Self::Service', 'RateLimit<S>')], spec='''
    ensures
        r.limiter.id@ == self.limiter.id@, // @OBL RateLimitLayer::layer::shares_the_layers_limiter [C19] every service built by one layer charges a peer's requests to the layer's ONE keyed limiter (so the quota holds per peer across all of them)
        r.wait_mode == self.wait_mode && r.inner == inner, // @OBL RateLimitLayer::layer::keeps_mode [C19] with the layer's wait mode, around exactly the given service
''')
    t += '}\nimpl<S> RateLimit<S> {\n'
    t += C.fn(RL, 'impl <S> RateLimit<S> :: fn new', 'RateLimit::new', ['C19'], ret='r', rewrites=RN, spec='''
    ensures
        r.wait_mode == wait_mode && r.inner == inner, // @OBL RateLimit::new::keeps_mode [C19] a directly constructed limiter stores the configured wait mode around the given service
''')
    t += C.fn(RL, 'impl <S> RateLimit<S> :: fn into_inner', 'RateLimit::into_inner', ['C19'], ret='r', spec='''
    ensures
        r == self.inner, // @OBL RateLimit::into_inner::is_the_wrapped_service [C19] into_inner returns the wrapped service
''')
    t += '}\n'
    t += C.helpers_here()
    t += P.FOOTER
    return t
