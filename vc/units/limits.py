"""Unit limits (Verus): the constructors and the layer of anemo-tower's per-peer in-flight limiter (C18): inflight_limit.rs InflightLimitLayer::{new, layer},
InflightLimit::{new, layer, into_inner}; and of the per-peer rate limiter (C19): rate_limit.rs RateLimitLayer::{new, layer}, RateLimit::{new, into_inner}.  What they have to get right for the limit to be PER PEER ACROSS every service the layer builds: all
services built by one layer share the layer's one per-peer table, with the layer's limit and wait mode.
The async blocks of the two `call` functions are LIFTED (rule X10) into async functions over the values they capture and put under contract: which
semaphore / which limiter key a request is charged to (its own authenticated peer's, in the shared table), that the wrapped service is reached only after
that, what a request without identity or over its limit gets, and that nothing else in the per-peer table changes.  The bound itself (how many permits
a semaphore hands out, how many cells governor grants) is tokio's / governor's: assumed contracts here, models in the bounded unit enum_limits, which
also decides everything about WHEN a slot is given back (drop order).  On top of unit rpc_status (Status, Response, HeaderMap).
Assumed: DashMap as a ghost map with an identity; tokio's Semaphore as "a permit names the semaphore it came from"; governor's keyed limiter as a
ghost log of the keys it admitted; `<svc>.call(<req>).await` as call_and_await (call log + uninterpreted reply, as in unit typed_rpc)."""
import re
import prelude as P
import rpc_status

NAME = 'limits'
BACKEND = 'verus'
REQ = 'crates/anemo/src/types/request.rs'
RPC = 'crates/anemo/src/rpc/mod.rs'
IL = 'crates/anemo-tower/src/inflight_limit.rs'
RL = 'crates/anemo-tower/src/rate_limit.rs'

STANDINS = r'''
use std::sync::Arc;
// the per-peer table: only WHICH table it is matters here
pub struct DashMap<K, V> { pub id: Ghost<int>, pub m: Ghost<Map<K, V>> }
impl<K, V> DashMap<K, V> { #[verifier::external_body] pub fn new() -> (r: Self) ensures r.m@ == Map::<K, V>::empty() { unimplemented!() } }
// entry(k).or_insert_with(f): an existing value is kept (and f not called); otherwise f's value is stored under k; nothing else changes
pub struct DashEntry<'a, K, V> { pub map: &'a mut DashMap<K, V>, pub k: K }
pub struct DashRefMut<V> { pub v: V }
impl<V> DashRefMut<V> { #[verifier::external_body] pub fn value(&self) -> (r: &V) ensures *r == self.v { unimplemented!() } }
impl<K, V> DashMap<K, V> {
    #[verifier::external_body]
    pub fn entry(&mut self, k: K) -> (r: DashEntry<'_, K, V>) ensures r.k == k, *r.map == *old(self), *final(r.map) == *final(self) { unimplemented!() }
}
impl<K, V> DashMap<K, V> {
    #[verifier::external_body]
    pub fn insert(&mut self, k: K, v: V) -> (r: Option<V>) ensures final(self).id == old(self).id, final(self).m@ == old(self).m@.insert(k, v) { unimplemented!() }
}
pub mod anemo { pub use super::PeerId; }
impl<'a, K, V> DashEntry<'a, K, V> {
    #[verifier::external_body]
    pub fn or_insert_with<F: FnOnce() -> V>(self, f: F) -> (r: DashRefMut<V>)
        requires call_requires(f, ()),
        ensures final(self.map).id == old(self.map).id,
                old(self.map).m@.contains_key(self.k) ==> final(self.map).m@ == old(self.map).m@ && r.v == old(self.map).m@[self.k],
                !old(self.map).m@.contains_key(self.k) ==> call_ensures(f, (), r.v) && final(self.map).m@ == old(self.map).m@.insert(self.k, r.v) { unimplemented!() }
}
// tokio::sync::Semaphore: HOW MANY permits it hands out at a time is tokio's business; a permit names the semaphore it was taken from
pub struct Semaphore { pub id: Ghost<int>, pub limit: Ghost<nat> }
pub struct SemaphorePermit { pub sem: Ghost<int> }
pub struct AcquireError;
impl core::fmt::Debug for AcquireError { #[verifier::external_body] fn fmt(&self, f: &mut core::fmt::Formatter<'_>) -> core::fmt::Result { unimplemented!() } }
pub mod tokio { pub mod sync { pub enum TryAcquireError { Closed, NoPermits } } }
impl Semaphore {
    #[verifier::external_body] pub fn new(permits: usize) -> (r: Semaphore) ensures r.limit@ == permits { unimplemented!() }
    #[verifier::external_body] pub async fn acquire(&self) -> (r: core::result::Result<SemaphorePermit, AcquireError>) ensures r is Ok ==> r->Ok_0.sem@ == self.id@ { unimplemented!() }
    #[verifier::external_body] pub fn try_acquire(&self) -> (r: core::result::Result<SemaphorePermit, tokio::sync::TryAcquireError>) ensures r is Ok ==> r->Ok_0.sem@ == self.id@ { unimplemented!() }
}
// ---------- the wrapped service: a call log and an uninterpreted reply (as in unit typed_rpc) ----------
pub trait Service<Req> {
    type Response; type Error;
    spec fn calls(&self) -> Seq<Req>;
    spec fn reply(&self, req: Req) -> core::result::Result<Self::Response, Self::Error>;
}
#[verifier::external_body]
pub async fn call_and_await<Req, S: Service<Req>>(s: &mut S, req: Req) -> (r: core::result::Result<S::Response, S::Error>)
    ensures final(s).calls() == old(s).calls().push(req), r == old(s).reply(req) { unimplemented!() }
#[verifier::external_body] pub fn str_into(s: &str) -> (r: String) ensures r@ == s@ { unimplemented!() }       // `"..".into()` / a &str handed to `impl Into<String>`
pub uninterp spec fn display_u128(x: u128) -> Seq<char>;                                                           // `format!("{}", x)` for an integer
#[verifier::external_body] pub fn fmt_display_u128(x: u128) -> (r: String) ensures r@ == display_u128(x) { unimplemented!() }
#[verifier::external_body] pub fn fmt_opaque() -> (r: String) { unimplemented!() }                                // any other format!(..): text not tracked
'''


def own_mut_self(e):
    """X9(b) for `mut self`: `fn f(mut self, ..) { .. self .. }` -> `fn f(self, ..) { let mut self_ = self; .. self_ .. }` (Verus has no `mut self`)"""
    if re.search(r'\(\s*mut\s+self\b', e.text):
        head, brace, body = e.text.partition('{')
        head = re.sub(r'\(\s*mut\s+self\b', '(self', head, count=1)
        body = re.sub(r'\bself\b', 'self_', body)
        e.text = head + '{\n        let mut self_ = self;' + body
        e.log('X9', '`mut self` rebound as a local (`let mut self_ = self;`), the body refers to it')


def rate_block(e):
    """rules applied to the lifted async block of RateLimit::call"""
    t = e.text
    t = re.sub(r'\banemo::rpc::Status\b', 'Status', t)
    t = re.sub(r'\banemo::types::response::StatusCode\b', 'StatusCode', t)
    t = re.sub(r'\bWaitMode::', 'RateWaitMode::', t)
    t, k0 = re.subn(r'Status::internal\(\s*("[^"]*")\s*\)', r'Status::internal(str_into(\1))', t)
    t, k1 = re.subn(r'format!\(\s*"\{\}"\s*,\s*([^()]*\([^()]*\))\s*\)', r'fmt_display_u128(\1)', t)
    t, k2 = re.subn(r'\binner\s*\.\s*call\(\s*(\w+)\s*\)\s*\.\s*await', r'call_and_await(inner, \1).await', t)
    t, k3 = re.subn(r'\.ok_or_else\(\s*\|\|\s*\{', '.ok_or_else(|| -> (s: Status) ensures s.status is InternalServerError {', t)
    e.text = t
    e.log('X5', 'paths shortened (anemo::rpc::Status, StatusCode, WaitMode); &str literal handed to `impl Into<String>` wrapped in str_into (x%d)' % k0)
    if k1:
        e.log('X4', '`format!("{}", <integer>)` -> fmt_display_u128(<integer>) (uninterpreted text of the number) (x%d)' % k1)
    if k2:
        e.log('X12', '`inner.call(req).await` rendered as the assumed async function call_and_await (x%d)' % k2)
    if k3:
        e.log('X6', 'closure handed to ok_or_else annotated with the contract the statement gives it (InternalServerError) (x%d)' % k3)


def _balanced(t, i):
    """t[i] is an opening bracket: index of its partner"""
    pairs = {'(': ')', '{': '}', '[': ']'}
    depth = 0
    for j in range(i, len(t)):
        if t[j] in pairs:
            depth += 1
        elif t[j] in pairs.values():
            depth -= 1
            if depth == 0:
                return j
    return -1


def inflight_block(e):
    """rules applied to the lifted async block of InflightLimit::call"""
    t = e.text
    t = re.sub(r'\banemo::rpc::Status\b', 'Status', t)
    t, k0 = re.subn(r'Status::internal\(\s*("[^"]*")\s*\)', r'Status::internal(str_into(\1))', t)
    # any other format!(..): text not tracked
    k1 = 0
    while True:
        m = re.search(r'\bformat!\s*\(', t)
        if not m:
            break
        j = _balanced(t, m.end() - 1)
        if j < 0:
            break
        t = t[:m.start()] + 'fmt_opaque()' + t[j + 1:]
        k1 += 1
    t, k2 = re.subn(r'\binner\s*\.\s*call\(\s*(\w+)\s*\)\s*\.\s*await', r'call_and_await(inner, \1).await', t)
    t, k3 = re.subn(r'\.ok_or_else\(\s*\|\|\s*\{', '.ok_or_else(|| -> (s: Status) ensures s.status is InternalServerError {', t)
    # the closure that creates a peer's semaphore: contract by shape
    t, k4 = re.subn(r'\.or_insert_with\(\s*\|\|\s*Arc::new\(\s*Semaphore::new\(\s*(\w+)\s*\)\s*\)\s*\)',
                    r'.or_insert_with(|| -> (a: Arc<Semaphore>) ensures a.limit@ == \1 { Arc::new(Semaphore::new(\1)) })', t)
    # the closure that turns a failed try_acquire into a status: `|e| match e {..}` gets the contract the STATEMENT gives it
    m = re.search(r'try_acquire\(\)\s*\.\s*map_err\(\s*\|(\w+)\|\s*match\s+\1\s*\{', t)
    k5 = 0
    if m:
        j = _balanced(t, m.end() - 1)
        if j > 0:
            v = m.group(1)
            body = t[t.index('match', m.start()):j + 1]
            t = (t[:t.index('|', m.start())] + '|%s: tokio::sync::TryAcquireError| -> (s: Status) ensures (%s is NoPermits ==> s.status is TooManyRequests), (%s is Closed ==> s.status is InternalServerError) { %s }' % (v, v, v, body) + t[j + 1:])
            k5 = 1
    e.text = t
    e.log('X5', 'paths shortened (anemo::rpc::Status); &str literal handed to `impl Into<String>` wrapped in str_into (x%d); other format!(..) -> fmt_opaque() (x%d)' % (k0, k1))
    if k2:
        e.log('X12', '`inner.call(req).await` rendered as the assumed async function call_and_await (x%d)' % k2)
    e.log('X6', 'closures annotated with the contract their shape / the statement gives them: ok_or_else x%d, or_insert_with x%d, try_acquire().map_err x%d' % (k3, k4, k5))


def build(ctx):
    C = ctx
    t = P.HEADER + P.STD_SPECS
    t += rpc_status.build_body(C)
    t += C.item(REQ, 'struct RequestHeader', derives=False)
    t += C.item(REQ, 'struct Request', derives=False)
    t += 'impl<T> Request<T> {\n'
    t += C.fn(REQ, 'impl <T> Request<T> :: fn extensions', 'Request::extensions', ['C18', 'C19', 'C20'], ret='r', spec='''
    ensures
        *r == self.head.extensions, // @OBL Request::extensions::is_header_extensions [C18,C19] extensions() is the local metadata of this request
''')
    t += C.fn(REQ, 'impl <T> Request<T> :: fn peer_id', 'Request::peer_id', ['C18', 'C19', 'C20'], ret='r', spec='''
    ensures
        r is Some <==> self.head.extensions.peer is Some, // @OBL Request::peer_id::present_iff_attached [C18,C19] a request names a sender exactly when the network attached one
        r is Some ==> *r->Some_0 == self.head.extensions.peer->Some_0, // @OBL Request::peer_id::reads_the_attached_identity [C18,C19] Request::peer_id() is the PeerId entry of the request's local extensions (the authenticated identity of the connection it arrived on): no header takes part
''')
    t += '}\n'
    t += STANDINS
    GEN = [dict(rule='X5', pattern='<M: Into<String>>', repl=''), dict(rule='X5', pattern='message: M', repl='message: String')]
    t += 'impl Status {\n'
    t += C.fn(RPC, 'impl Status :: fn new_with_message', 'Status::new_with_message', ['C18', 'C19'], ret='r', rewrites=GEN + [dict(rule='X5', pattern='message.into()', repl='message')], spec='''
    ensures
        r.status == status && r.message == Some(message) && r.peer_id is None && r.headers.m@ == Map::<Seq<char>, Seq<char>>::empty(), // @OBL Status::new_with_message::fields [C18,C19] a status made from a code and a message carries exactly those
''')
    t += C.fn(RPC, 'impl Status :: fn internal', 'Status::internal', ['C18', 'C19'], ret='r', rewrites=GEN, spec='''
    ensures
        r.status is InternalServerError && r.peer_id is None && r.headers.m@ == Map::<Seq<char>, Seq<char>>::empty(), // @OBL Status::internal::code [C18,C19] Status::internal is InternalServerError
''')
    t += C.fn(RPC, 'impl Status :: fn headers_mut', 'Status::headers_mut', ['C19'], ret='r', spec='''
    ensures
        *r == old(self).headers && final(self).headers == *final(r) && final(self).status == old(self).status && final(self).peer_id == old(self).peer_id && final(self).message == old(self).message, // @OBL Status::headers_mut::only_headers [C19] headers_mut() gives access to the headers and nothing else of the status
''')
    t += C.fn(RPC, 'impl Status :: fn with_header', 'Status::with_header', ['C19'], ret='r', transforms=[own_mut_self],
              rewrites=[dict(rule='X5', pattern='<K: Into<String>, V: Into<String>>', repl=''), dict(rule='X5', pattern='key: K, value: V', repl="key: &'static str, value: String"),
                        dict(rule='X5', pattern='key.into()', repl='str_into(key)'), dict(rule='X5', pattern='value.into()', repl='value')], spec='''
    ensures
        r.status == self.status && r.peer_id == self.peer_id && r.message == self.message && r.headers.m@ == self.headers.m@.insert(key@, value@), // @OBL Status::with_header::adds_exactly_that_header [C19] with_header adds exactly that header to the status and changes nothing else
''')
    t += '}\n'
    t += C.item(IL, 'enum WaitMode', extra_derive=['Structural', 'PartialEq', 'Eq'])
    t += C.item(IL, 'struct InflightLimitLayer', derives=False)
    t += C.item(IL, 'struct InflightLimit', derives=False)
    t += 'impl InflightLimitLayer {\n'
    t += C.fn(IL, 'impl InflightLimitLayer :: fn new', 'InflightLimitLayer::new', ['C18'], ret='r', spec='''
    ensures
        r.max_inflight == max_inflight && r.wait_mode == wait_mode, // @OBL InflightLimitLayer::new::keeps_limit_and_mode [C18] the layer stores the configured maximum and wait mode
''')
    t += C.fn(IL, 'impl <S> Layer<S> for InflightLimitLayer :: fn layer', 'InflightLimitLayer::layer', ['C18'], ret='r', sig_rewrites=[('fn layer(', 'fn layer<S>('), ('Self::Service', 'InflightLimit<S>')], spec='''
    ensures
        r.inflight.id@ == self.inflight.id@, // @OBL InflightLimitLayer::layer::shares_the_layers_table [C18] every service built by one layer counts a peer's requests in the layer's ONE per-peer table (so the limit holds per peer across all of them)
        r.max_inflight == self.max_inflight && r.wait_mode == self.wait_mode && r.inner == inner, // @OBL InflightLimitLayer::layer::keeps_limit_and_mode [C18] with the layer's maximum and wait mode, around exactly the given service
''')
    t += '}\nimpl<S> InflightLimit<S> {\n'
    t += C.fn(IL, 'impl <S> InflightLimit<S> :: fn new', 'InflightLimit::new', ['C18'], ret='r', spec='''
    ensures
        r.max_inflight == max_inflight && r.wait_mode == wait_mode && r.inner == inner, // @OBL InflightLimit::new::keeps_limit_and_mode [C18] a directly constructed limiter stores the configured maximum and wait mode around the given service
''')
    t += C.fn(IL, 'impl <S> InflightLimit<S> :: fn layer', 'InflightLimit::layer', ['C18'], ret='r', spec='''
    ensures
        r.max_inflight == max_inflight && r.wait_mode == wait_mode, // @OBL InflightLimit::layer::keeps_limit_and_mode [C18] InflightLimit::layer is a layer with the given maximum and wait mode
''')
    t += C.fn(IL, 'impl <S> InflightLimit<S> :: fn into_inner', 'InflightLimit::into_inner', ['C18'], ret='r', spec='''
    ensures
        r == self.inner, // @OBL InflightLimit::into_inner::is_the_wrapped_service [C18] into_inner returns the wrapped service
''')
    t += '}\n'
    t += C.lifted(IL, 'impl <ResBody, ReqBody, S> Service<Request<ReqBody>> for InflightLimit<S> .* :: fn call', 'InflightLimit::call::block', ['C18'],
                  anchor='let fut = async move', kind='block', name='inflight_limit_call_block<S: Service<Request<Bytes>, Response = Response<Bytes>, Error = Status>>', is_async=True,
                  params='req: Request<Bytes>, inflight: &mut DashMap<PeerId, Arc<Semaphore>>, max_inflight: usize, wait_mode: WaitMode, inner: &mut S',
                  ret_ty='core::result::Result<Response<Bytes>, Status>', ret='r', transforms=[inflight_block],
                  inserts=[('X6', 'call_and_await(inner, req).await', '''proof {
                assert(inflight.m@.contains_key(*peer_id) && _permit.sem@ == inflight.m@[*peer_id].id@); // @OBL InflightLimit::call::served_holding_a_permit_of_its_own_peer [C18] at the moment the wrapped service is called the request holds a permit taken from the semaphore stored for ITS OWN authenticated peer (the full PeerId) in the shared table: one peer's load never consumes another peer's slots
            }
            ''', 'before', False)],
                  spec='''
    ensures
        req.head.extensions.peer is None ==> r is Err && r->Err_0.status is InternalServerError && final(inner).calls() == old(inner).calls() && final(inflight).m@ == old(inflight).m@, // @OBL InflightLimit::call::no_identity_is_refused [C18] a request without an authenticated sender is answered InternalServerError: it reaches neither the per-peer table nor the wrapped service
        final(inner).calls() != old(inner).calls() ==> final(inner).calls() == old(inner).calls().push(req) && r == old(inner).reply(req), // @OBL InflightLimit::call::admitted_request_is_served_unchanged [C18] a request that reaches the wrapped service reaches it once, unchanged, and the caller gets the service's own answer
        req.head.extensions.peer is Some ==> final(inflight).m@.contains_key(req.head.extensions.peer->Some_0) && final(inflight).m@.remove(req.head.extensions.peer->Some_0) == old(inflight).m@.remove(req.head.extensions.peer->Some_0), // @OBL InflightLimit::call::only_own_peers_entry_touched [C18] only the entry of the request's own peer is looked up or created: every other peer's semaphore is left alone
        req.head.extensions.peer is Some && old(inflight).m@.contains_key(req.head.extensions.peer->Some_0) ==> final(inflight).m@[req.head.extensions.peer->Some_0] == old(inflight).m@[req.head.extensions.peer->Some_0], // @OBL InflightLimit::call::existing_semaphore_is_kept [C18] a peer's semaphore, once created, is never replaced (its permits in use stay accounted for)
        req.head.extensions.peer is Some && !old(inflight).m@.contains_key(req.head.extensions.peer->Some_0) ==> final(inflight).m@[req.head.extensions.peer->Some_0].limit@ == max_inflight, // @OBL InflightLimit::call::new_semaphore_has_the_configured_limit [C18] a peer's semaphore is created with exactly the configured maximum of permits
        wait_mode is ReturnError && req.head.extensions.peer is Some && final(inner).calls().len() == old(inner).calls().len() ==> r is Err && (r->Err_0.status is TooManyRequests || r->Err_0.status is InternalServerError), // @OBL InflightLimit::call::return_error_refuses_outside_the_service [C18] in ReturnError mode a request that gets no permit is answered with an error status (TooManyRequests when the peer is at its limit) without reaching the wrapped service
''')
    # ---- rate limiter: the same question (do all services of a layer share ONE limiter?) ----
    t += '''
    // governor's keyed limiter: only WHICH limiter it is matters here
    pub struct Limiter { pub id: Ghost<int>, pub admitted: Ghost<Seq<PeerId>> }     // `admitted`: the keys a cell was granted to, in order
    pub struct NotUntil;
    pub struct QuantaInstant;
    pub struct StdDuration { pub nanos: Ghost<nat> }
    impl StdDuration { #[verifier::external_body] pub fn as_nanos(&self) -> (r: u128) ensures r == self.nanos@ { unimplemented!() } }
    impl NotUntil { #[verifier::external_body] pub fn wait_time_from(&self, from: QuantaInstant) -> (r: StdDuration) ensures r.nanos@ > 0 { unimplemented!() } }   // governor: the earliest time a cell is available lies in the future
    impl DefaultClock { #[verifier::external_body] pub fn now(&self) -> (r: QuantaInstant) { unimplemented!() } }
    impl Limiter {
        #[verifier::external_body] pub fn check_key(&mut self, k: &PeerId) -> (r: core::result::Result<(), NotUntil>)
            ensures final(self).id == old(self).id, r is Ok ==> final(self).admitted@ == old(self).admitted@.push(*k), r is Err ==> final(self).admitted@ == old(self).admitted@ { unimplemented!() }
        #[verifier::external_body] pub async fn until_key_ready(&mut self, k: &PeerId) -> (r: ())
            ensures final(self).id == old(self).id, final(self).admitted@ == old(self).admitted@.push(*k) { unimplemented!() }
    }
    pub type SharedRateLimiter = Arc<Limiter>;
    #[derive(Clone, Copy)] pub struct DefaultClock;
    impl DefaultClock { #[verifier::external_body] pub fn default() -> (r: DefaultClock) { unimplemented!() } #[verifier::external_body] pub fn clone(&self) -> (r: DefaultClock) { unimplemented!() } }
    pub mod governor { pub struct Quota { pub burst: u32 } }
    pub struct RateLimiter;
    impl RateLimiter {
        #[verifier::external_body] pub fn keyed(quota: governor::Quota) -> (r: Limiter) { unimplemented!() }
        #[verifier::external_body] pub fn dashmap_with_clock(quota: governor::Quota, clock: &DefaultClock) -> (r: Limiter) { unimplemented!() }
    }
'''
    RN = [dict(rule='X5', pattern=r'\bWaitMode\b', repl='RateWaitMode', regex=True, optional=True)]      # (the file has a WaitMode of its own: renamed here, both live in one verus! block)
    t += C.item(RL, 'enum WaitMode', extra_derive=['Structural', 'PartialEq', 'Eq'], rewrites=RN)
    t += C.item(RL, 'struct RateLimitLayer', derives=False, rewrites=RN)
    t += C.item(RL, 'struct RateLimit', derives=False, rewrites=RN)
    t += 'impl RateLimitLayer {\n'
    t += C.fn(RL, 'impl RateLimitLayer :: fn new', 'RateLimitLayer::new', ['C19'], ret='r', rewrites=RN, spec='''
    ensures
        r.wait_mode == wait_mode, // @OBL RateLimitLayer::new::keeps_mode [C19] the layer stores the configured wait mode
''')
    t += C.fn(RL, 'impl <S> Layer<S> for RateLimitLayer :: fn layer', 'RateLimitLayer::layer', ['C19'], ret='r', sig_rewrites=[('fn layer(', 'fn layer<S>('), ('Self::Service', 'RateLimit<S>')], spec='''
    ensures
        r.limiter.id@ == self.limiter.id@, // @OBL RateLimitLayer::layer::shares_the_layers_limiter [C19] every service built by one layer charges a peer's requests to the layer's ONE keyed limiter (so the quota holds per peer across all of them)
        r.wait_mode == self.wait_mode && r.inner == inner, // @OBL RateLimitLayer::layer::keeps_mode [C19] with the layer's wait mode, around exactly the given service
''')
    t += '}\nimpl<S> RateLimit<S> {\n'
    t += C.fn(RL, 'impl <S> RateLimit<S> :: fn new', 'RateLimit::new', ['C19'], ret='r', rewrites=RN, spec='''
    ensures
        r.wait_mode == wait_mode && r.inner == inner, // @OBL RateLimit::new::keeps_mode [C19] a directly constructed limiter stores the configured wait mode around the given service
''')
    t += C.fn(RL, 'impl <S> RateLimit<S> :: fn into_inner', 'RateLimit::into_inner', ['C19'], ret='r', spec='''
    ensures
        r == self.inner, // @OBL RateLimit::into_inner::is_the_wrapped_service [C19] into_inner returns the wrapped service
''')
    t += '}\n'
    t += C.item(RL, 'const WAIT_NANOS_HEADER', rewrites=[('X9c', '&str', "&'static str", None)])
    t += C.lifted(RL, 'impl <ResBody, ReqBody, S> Service<Request<ReqBody>> for RateLimit<S> .* :: fn call', 'RateLimit::call::block', ['C19'],
                  anchor='let fut = async move', kind='block', name='rate_limit_call_block<S: Service<Request<Bytes>, Response = Response<Bytes>, Error = Status>>', is_async=True,
                  params='req: Request<Bytes>, limiter: &mut Limiter, clock: DefaultClock, wait_mode: RateWaitMode, inner: &mut S',
                  ret_ty='core::result::Result<Response<Bytes>, Status>', ret='r', transforms=[rate_block],
                  attrs='', spec='''
    ensures
        req.head.extensions.peer is None ==> r is Err && r->Err_0.status is InternalServerError && final(inner).calls() == old(inner).calls() && final(limiter).admitted@ == old(limiter).admitted@, // @OBL RateLimit::call::no_identity_is_refused [C19] a request without an authenticated sender is answered InternalServerError: it reaches neither the limiter nor the wrapped service
        final(inner).calls() != old(inner).calls() ==> final(inner).calls() == old(inner).calls().push(req) && r == old(inner).reply(req), // @OBL RateLimit::call::admitted_request_is_served_unchanged [C19] a request that reaches the wrapped service reaches it once, unchanged, and the caller gets the service's own answer
        final(inner).calls() != old(inner).calls() ==> final(limiter).admitted@ == old(limiter).admitted@.push(req.head.extensions.peer->Some_0), // @OBL RateLimit::call::served_only_after_charged_to_own_peer [C19] the wrapped service is reached only by a request for which the limiter granted exactly one cell, under the key of the request's OWN authenticated peer (the full PeerId): quotas are per peer, no request is served uncharged
        req.head.extensions.peer is Some && final(limiter).admitted@.len() == old(limiter).admitted@.len() ==> final(inner).calls() == old(inner).calls() && r is Err && r->Err_0.status is TooManyRequests, // @OBL RateLimit::call::over_quota_is_refused_outside_the_service [C19] a request the limiter does not admit never reaches the wrapped service and is answered TooManyRequests
        req.head.extensions.peer is Some && final(limiter).admitted@.len() == old(limiter).admitted@.len() ==> r is Err && r->Err_0.headers.m@.contains_key(WAIT_NANOS_HEADER@)
            && (exists|n: u128| n > 0 && r->Err_0.headers.m@[WAIT_NANOS_HEADER@] == display_u128(n)), // @OBL RateLimit::call::refusal_carries_positive_wait_hint [C19] the refusal carries the wait-nanos header: the decimal text of a positive number of nanoseconds
        wait_mode is Block && req.head.extensions.peer is Some ==> final(inner).calls() == old(inner).calls().push(req), // @OBL RateLimit::call::block_mode_waits_then_serves [C19] in Block mode a request is never refused: it waits for the limiter and is then served
''')
    t += C.helpers_here()
    t += P.FOOTER
    return t
