"""Unit limits (Verus): the constructors and the layer of anemo-tower's per-peer in-flight limiter (C18): inflight_limit.rs InflightLimitLayer::{new, layer},
InflightLimit::{new, layer, inner_ref, into_inner}.  What they have to get right for the limit to be PER PEER ACROSS every service the layer builds: all
services built by one layer share the layer's one per-peer table, with the layer's limit and wait mode.
NOT under contract: `impl Service for InflightLimit`::call (an async block around tokio's Semaphore, boxed): run under every schedule by the bounded unit
enum_limits.  Assumed: DashMap as an opaque table with an identity (ghost id); Arc::clone yields the same table."""
import re
import prelude as P

NAME = 'limits'
BACKEND = 'verus'
IL = 'crates/anemo-tower/src/inflight_limit.rs'

STANDINS = r'''
use std::sync::Arc;
// the per-peer table: only WHICH table it is matters here
pub struct DashMap<K, V> { pub id: Ghost<int>, pub p: Ghost<Option<(K, V)>> }
impl<K, V> DashMap<K, V> { #[verifier::external_body] pub fn new() -> (r: Self) { unimplemented!() } }
pub struct Semaphore;
'''


def build(ctx):
    C = ctx
    t = P.HEADER + P.STD_SPECS
    t += P.peer_types(C)
    t += STANDINS
    t += C.item(IL, 'enum WaitMode', extra_derive=['Structural', 'PartialEq', 'Eq'])
    t += C.item(IL, 'struct InflightLimitLayer', derives=False)
    t += C.item(IL, 'struct InflightLimit', derives=False)
    t += 'impl InflightLimitLayer {\n'
    t += C.fn(IL, 'impl InflightLimitLayer :: fn new', 'InflightLimitLayer::new', ['C18'], ret='r', spec='''
    ensures
        r.max_inflight == max_inflight && r.wait_mode == wait_mode, // @OBL InflightLimitLayer::new::keeps_limit_and_mode [C18] the layer stores the configured maximum and wait mode
''')
    t += C.fn(IL, 'impl <S> Layer<S> for InflightLimitLayer :: fn layer', 'InflightLimitLayer::layer', ['C18'], ret='r', sig_rewrites=[('fn layer(', 'fn layer<S>('), ('Self::Service', 'InflightLimit<S>')], spec='''
    ensures
        r.inflight.id@ == self.inflight.id@, // @OBL InflightLimitLayer::layer::shares_the_layers_table [C18] every service built by one layer counts a peer's requests in the layer's ONE per-peer table (so the limit holds per peer across all of them)
        r.max_inflight == self.max_inflight && r.wait_mode == self.wait_mode && r.inner == inner, // @OBL InflightLimitLayer::layer::keeps_limit_and_mode [C18] with the layer's maximum and wait mode, around exactly the given service
''')
    t += '}\nimpl<S> InflightLimit<S> {\n'
    t += C.fn(IL, 'impl <S> InflightLimit<S> :: fn new', 'InflightLimit::new', ['C18'], ret='r', spec='''
    ensures
        r.max_inflight == max_inflight && r.wait_mode == wait_mode && r.inner == inner, // @OBL InflightLimit::new::keeps_limit_and_mode [C18] a directly constructed limiter stores the configured maximum and wait mode around the given service
''')
    t += C.fn(IL, 'impl <S> InflightLimit<S> :: fn layer', 'InflightLimit::layer', ['C18'], ret='r', spec='''
    ensures
        r.max_inflight == max_inflight && r.wait_mode == wait_mode, // @OBL InflightLimit::layer::keeps_limit_and_mode [C18] InflightLimit::layer is a layer with the given maximum and wait mode
''')
    t += C.fn(IL, 'impl <S> InflightLimit<S> :: fn into_inner', 'InflightLimit::into_inner', ['C18'], ret='r', spec='''
    ensures
        r == self.inner, // @OBL InflightLimit::into_inner::is_the_wrapped_service [C18] into_inner returns the wrapped service
''')
    t += '}\n'
    t += C.helpers_here()
    t += P.FOOTER
    return t
