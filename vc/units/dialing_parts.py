"""Second half of unit active_peers: the dialing / admission logic of network/connection_manager.rs (C10, C13, C03).

Functions under contract: DialBackoffState::{new, update}; Config accessors used here; and, by block lifting (X10) out of
handle_incoming_task / dial_peer_task / handle_connectivity_check / handle_connecting_result:
  admission block, dial block, eligibility filter closure, in-flight cap expression, per-peer dial body.
What is NOT lifted stays unverified and is listed: the retain pass that drains completed dials, the iterator pipeline around
the filter, the select! loop.
"""
import re
import prelude as P

CM = P.CM
CONFIG = 'crates/anemo/src/config.rs'
TYPES = P.TYPES

STANDINS = r'''
// ---------- trusted stand-ins for the dialing half ----------
#[derive(Debug)]
pub struct Error { pub tag: u8 }
impl Error { #[verifier::external_body] pub fn msg() -> (r: Error) { unimplemented!() } }
pub type Result<T, E = Error> = core::result::Result<T, E>;
#[derive(Clone)]
pub struct Address { pub a: u64 }
impl Address {
    // DNS / socket-address resolution: uninterpreted, may fail
    pub uninterp spec fn resolve_spec(&self) -> Result<SocketAddr>;
    #[verifier::external_body] pub async fn resolve(&self) -> (r: Result<SocketAddr>) ensures r == self.resolve_spec() { unimplemented!() }
}
// crate::Config: the options read by this half (accessor bodies are extracted verbatim below)
pub struct Config {
    pub max_concurrent_connections: Option<usize>,
    pub max_concurrent_outstanding_connecting_connections: Option<usize>,
    pub connection_backoff_ms: Option<u64>,
    pub max_connection_backoff_ms: Option<u64>,
    pub connect_timeout_ms: Option<u64>,
}
// the peer table handed to the network by the application: KnownPeers(Arc<RwLock<HashMap<PeerId, PeerInfo>>>) with the lock lifted (X8);
// `get` is extracted and verified below
pub struct KnownPeers(pub HashMap<PeerId, PeerInfo>);
impl KnownPeers {
    pub fn inner(&self) -> (r: &HashMap<PeerId, PeerInfo>) ensures *r == self.0 { &self.0 }
    pub fn inner_mut(&mut self) -> (r: &mut HashMap<PeerId, PeerInfo>) ensures *r == old(self).0, final(self).0 == *final(r) { &mut self.0 }
}
// an inbound / outbound QUIC+TLS handshake in progress: resolves to an authenticated connection or fails
pub struct Connecting { pub outcome: Ghost<Result<Connection>>, pub expected: Ghost<Option<PeerId>>, pub to: Ghost<u64> }
impl Connecting {
    #[verifier::external_body] pub async fn resolved(self) -> (r: Result<Connection>) ensures r == self.outcome@ { unimplemented!() }
}
pub struct Endpoint { pub own: PeerId }
impl Endpoint {
    #[verifier::external_body] pub fn peer_id(&self) -> (r: PeerId) ensures r == self.own { unimplemented!() }
    // dialing WITHOUT an expected identity accepts whoever answers; WITH one, rustls is given the pinning verifier (C03: crypto unit)
    #[verifier::external_body]
    pub fn connect(&self, address: SocketAddr) -> (r: Result<Connecting>)
        ensures r is Ok ==> r->Ok_0.expected@ == None::<PeerId> && r->Ok_0.to@ == address.a { unimplemented!() }
    #[verifier::external_body]
    pub fn connect_with_expected_peer_id(&self, address: SocketAddr, peer_id: PeerId) -> (r: Result<Connecting>)
        ensures r is Ok ==> r->Ok_0.expected@ == Some(peer_id) && r->Ok_0.to@ == address.a { unimplemented!() }
}
pub mod wire {
    use super::*;
    // the anemo acknowledgement handshake (network/wire.rs handshake): uninterpreted outcome per connection
    pub uninterp spec fn handshake_spec(c: Connection) -> Result<Connection>;
    #[verifier::external_body]
    pub async fn handshake(connection: Connection) -> (r: Result<Connection>)
        ensures r == handshake_spec(connection), r is Ok ==> r->Ok_0 == connection { unimplemented!() }
}
pub struct Mailbox;
#[verifier::external_body] pub fn explicit_panic() -> ! requires false { unimplemented!() }   // `panic!(..)`: must be unreachable
pub struct Svc;
impl Svc { #[verifier::external_body] pub fn clone(&self) -> (r: Svc) { unimplemented!() } }
impl Config { #[verifier::external_body] pub fn clone(&self) -> (r: Config) ensures r == *self { unimplemented!() } }
// the handle a request handler keeps on the shared active-peer set (Arc clone): an opaque token in this model
pub struct ActivePeersHandle;
impl ActivePeers { #[verifier::external_body] pub fn clone(&self) -> (r: ActivePeersHandle) { unimplemented!() } }
pub struct HandlerFuture { pub for_sid: usize }
pub struct InboundRequestHandler { pub connection: Connection }
impl InboundRequestHandler {
    #[verifier::external_body]
    pub fn new(config: Config, connection: Connection, service: Svc, active_peers: ActivePeersHandle) -> (r: Self) ensures r.connection == connection { unimplemented!() }
    #[verifier::external_body]
    pub fn start(self) -> (r: HandlerFuture) ensures r.for_sid == self.connection.sid { unimplemented!() }
}
// tokio::task::JoinSet: how many tasks are in it and (ghost) for which connections handlers were spawned
pub struct JoinSet<T> { pub n: usize, pub spawned_for: Ghost<Seq<usize>>, pub _t: core::marker::PhantomData<T> }
impl<T> JoinSet<T> {
    #[verifier::external_body] pub fn len(&self) -> (r: usize) ensures r == self.n { unimplemented!() }
    #[verifier::external_body] pub async fn shutdown(&mut self) { unimplemented!() }
}
impl JoinSet<()> {
    #[verifier::external_body]
    pub fn spawn(&mut self, fut: HandlerFuture) ensures final(self).spawned_for@ == old(self).spawned_for@.push(fut.for_sid) { unimplemented!() }
}
// one record per answer given to a dial request: what was answered and what the connected set was at that instant (X7 ghost log)
pub struct Notified { pub ok_peer: Option<PeerId>, pub conns: Map<PeerId, Connection> }
pub mod oneshot {
    use super::*;
    pub struct Sender<T> { pub sent: Ghost<Option<T>>, pub ch: Ghost<int> }
    pub struct Receiver<T> { pub x: Ghost<Option<T>>, pub ch: Ghost<int> }
    pub struct RecvError;
    impl<T> Sender<T> {
        #[verifier::external_body] pub fn send(self, v: T) -> (r: core::result::Result<(), T>) { unimplemented!() }
    }
    // what the receiving end of a one-shot channel sees: nothing yet, the value, or "the sender was dropped without sending"
    pub mod error { pub enum TryRecvError { Empty, Closed } }
    impl<T> Receiver<T> {
        pub uninterp spec fn closed(&self) -> bool;
        #[verifier::external_body]
        pub fn try_recv(&mut self) -> (r: core::result::Result<T, error::TryRecvError>)
            ensures old(self).closed() ==> r == Err::<T, error::TryRecvError>(error::TryRecvError::Closed),
                    !old(self).closed() && old(self).x@ is Some ==> r == Ok::<T, error::TryRecvError>(old(self).x@->Some_0),
                    !old(self).closed() && old(self).x@ is None ==> r == Err::<T, error::TryRecvError>(error::TryRecvError::Empty) { unimplemented!() }
    }
    // the two ends of one channel carry the same (ghost) channel id
    #[verifier::external_body] pub fn channel<T>() -> (r: (Sender<T>, Receiver<T>)) ensures r.0.ch@ == r.1.ch@ { unimplemented!() }
    impl<T> Receiver<T> {
        // `receiver.await` (rendered `receiver.resolved().await`, rule X5): the value the holder of the sending end sent, or an error if it dropped it unsent
        #[verifier::external_body] pub async fn resolved(self) -> (r: core::result::Result<T, RecvError>) ensures r is Ok ==> self.x@ == Some(r->Ok_0) { unimplemented!() }
    }
}
'''

SPEC = r'''
// =====================================================================================================
// Oracle written from the statements of C10 and C13
// =====================================================================================================
// C10: "Never -> never admitted; High or Allowed -> always admitted regardless of the limit; any other peer -> admitted exactly when
//       no limit is configured or the number of currently established connections is below the limit"
pub open spec fn admit(info: Option<PeerInfo>, limit: Option<usize>, established: nat) -> bool {
    match info {
        Some(i) => match i.affinity { PeerAffinity::Never => false, PeerAffinity::High => true, PeerAffinity::Allowed => true },
        None => match limit { None => true, Some(l) => established < l },
    }
}
// C13: "after k consecutive failures the next attempt comes no sooner than min(max-backoff, k x backoff-step) after the failure was noticed"
pub open spec fn backoff_after(k: nat, step: nat, max: nat) -> nat { natmin(max, step * k) }
pub open spec fn clamp32(k: nat) -> nat { if k <= u32::MAX { k } else { u32::MAX as nat } }
// C13: "never background-dials itself, peers with Allowed or Never affinity, peers without addresses, or peers already connected or
//       already being dialed"; "next attempt no sooner than ..." (strictly later than the recorded instant)
pub open spec fn eligible_spec(info: PeerInfo, own: PeerId, connected: bool, being_dialed: bool, backoff_until: Option<nat>, now: nat) -> bool {
    &&& info.affinity is High
    &&& info.peer_id != own
    &&& info.address@.len() > 0
    &&& !connected
    &&& !being_dialed
    &&& (backoff_until is None || now > backoff_until->Some_0)
}
pub proof fn lemma_backoff_linear_capped(k: nat, step: nat, max: nat) // @FNOBL lemma::backoff_linear_capped [C13] for every failure count within u32 the wait is exactly min(max-backoff, k x step): linear, then capped
    requires k <= u32::MAX, max <= dmax()
    ensures natmin(max, natmin(step * clamp32(k), dmax())) == backoff_after(k, step, max)
{
    assert(clamp32(k) == k);
}
'''


def annotate_closures(e):
    """X6 closure contracts + X9 closure parameter names for the closures of the lifted blocks"""
    t = e.text
    t, k1 = re.subn(r'\.map\(\|state\|\s*now\s*>\s*state\.backoff\)',
                    '.map(|state: &DialBackoffState| -> (b: bool) ensures b == (now.t@ > state.backoff.t@) { now > state.backoff })', t)
    t, k2 = re.subn(r'\.map\(\|state\|\s*state\.attempts\)',
                    '.map(|state: &DialBackoffState| -> (n: usize) ensures n == state.attempts { state.attempts })', t)
    if k1 or k2:
        e.log('X6', 'closure contracts inserted (what the closure body computes): %d backoff comparison(s), %d attempts projection(s)' % (k1, k2))
    e.text = t


def await_connecting(e):
    """X5: `<connecting expr>.await` on the Connecting future is modelled as an async method with an uninterpreted outcome"""
    t = e.text
    t2, k = re.subn(r'\bconnecting\.await', 'connecting.resolved().await', t)
    t3, k2 = re.subn(r'\}\?\s*\n\s*\.await\?', '}?\n            .resolved().await?', t2)
    if k or k2:
        e.text = t3
        e.log('X5', '.await on a Connecting future -> .resolved().await (x%d)' % (k + k2))


def build(C):
    t = STANDINS
    t += C.item(TYPES, 'enum PeerAffinity')
    t += C.item(TYPES, 'struct PeerInfo', derives=False)
    t += '''impl Clone for PeerInfo {   // derived Clone of a plain data type is a structural copy (trusted)
    #[verifier::external_body] fn clone(&self) -> (r: Self) ensures r == *self { unimplemented!() }
}
'''
    t += C.item(CM, 'struct DialBackoffState', rewrites=[('X5', 'std::time::Instant', 'Instant', 1)])
    t += C.item(CM, 'struct ConnectingOutput', rewrites=[('X5', 'oneshot::Sender<Result<PeerId>>', 'oneshot::Sender<Result<PeerId>>', 1)])
    t += SPEC
    # ---- configuration accessors (verbatim bodies) ------------------------------------------------------
    t += 'impl Config {\n'
    t += C.fn(CONFIG, 'impl Config :: fn max_concurrent_connections', 'Config::max_concurrent_connections', ['C10'], ret='r', spec='''
    ensures
        r == self.max_concurrent_connections, // @OBL Config::max_concurrent_connections::is_field [C10] the connection limit used for admission is the configured one (none configured: no limit)
''')
    t += C.fn(CONFIG, 'impl Config :: fn max_concurrent_outstanding_connecting_connections', 'Config::max_concurrent_outstanding_connecting_connections', ['C13'], ret='r', spec='''
    ensures
        r == (match self.max_concurrent_outstanding_connecting_connections { Some(n) => n, None => 100usize }), // @OBL Config::max_outstanding::default_100 [C13] the cap on connections being established is the configured one, 100 if unspecified
''')
    t += C.fn(CONFIG, 'impl Config :: fn connection_backoff', 'Config::connection_backoff', ['C13'], ret='r', spec='''
    ensures
        r.ns@ == (match self.connection_backoff_ms { Some(ms) => ms as nat, None => 10000nat }) * 1000000, // @OBL Config::connection_backoff::millis [C13] the backoff step is the configured number of milliseconds (10 s if unspecified)
''')
    t += C.fn(CONFIG, 'impl Config :: fn max_connection_backoff', 'Config::max_connection_backoff', ['C13'], ret='r', spec='''
    ensures
        r.ns@ == (match self.max_connection_backoff_ms { Some(ms) => ms as nat, None => 60000nat }) * 1000000, // @OBL Config::max_connection_backoff::millis [C13] the maximum backoff is the configured number of milliseconds (60 s if unspecified)
''')
    t += '}\n'
    # ---- DialBackoffState --------------------------------------------------------------------------------
    t += 'impl DialBackoffState {\n'
    tm = [('X5', 'std::time::Instant', 'Instant', None), ('X5', 'std::time::Duration', 'Duration', None)]
    t += C.fn(CM, 'impl DialBackoffState :: fn update', 'DialBackoffState::update', ['C13'], rewrites=tm + [dict(rule='X5', pattern='std::cmp::', repl='cmp::', optional=True)], spec='''
    requires
        old(self).attempts < usize::MAX,   // ASSUMED at the call sites: fewer than 2^64 consecutive failures
        max_backoff.ns@ <= dmax(),
    ensures
        final(self).attempts == old(self).attempts + 1, // @OBL DialBackoffState::update::counts_failure [C13] every failed dial increases the consecutive-failure count by exactly one
        final(self).backoff.t@ == now.t@ + natmin(max_backoff.ns@, natmin(backoff_step.ns@ * clamp32(final(self).attempts as nat), dmax())), // @OBL DialBackoffState::update::wait_is_min_max_k_step [C13] the next attempt is allowed no sooner than min(max-backoff, k x backoff-step) after `now`, k = failures so far (saturating at u32::MAX)
''')
    t += C.fn(CM, 'impl DialBackoffState :: fn new', 'DialBackoffState::new', ['C13'], ret='r', rewrites=tm, spec='''
    requires
        max_backoff.ns@ <= dmax(),
    ensures
        r.attempts == 1, // @OBL DialBackoffState::new::first_failure [C13] the first failure is failure number one
        r.backoff.t@ == now.t@ + natmin(max_backoff.ns@, natmin(backoff_step.ns@ * clamp32(1), dmax())), // @OBL DialBackoffState::new::wait_is_one_step [C13] after the first failure the wait is min(max-backoff, 1 x backoff-step)
''')
    t += '}\n'

    t += 'impl KnownPeers {\n'
    t += C.fn(CM, 'impl KnownPeers :: fn get', 'KnownPeers::get', ['C10'], ret='r', body_prefix='\n        broadcast use axiom_peer_id_key;\n', spec='''
    ensures
        r == (if self.0@.contains_key(*peer_id) { Some(self.0@[*peer_id]) } else { None::<PeerInfo> }), // @OBL KnownPeers::get::is_table_lookup [C10] the affinity used for admission is the one the application registered for exactly that peer (or none)
''')
    t += C.fn(CM, 'impl KnownPeers :: fn insert', 'KnownPeers::insert', ['C10', 'C13'], ret='r', sig_rewrites=[('&self', '&mut self')], body_prefix='\n        broadcast use axiom_peer_id_key;\n', spec='''
    ensures
        final(self).0@ == old(self).0@.insert(peer_info.peer_id, peer_info), // @OBL KnownPeers::insert::registers_exactly_that_entry [C10,C13] registering (or updating) a known peer stores exactly the given affinity and addresses under exactly that peer's id: every update takes effect, whatever it contains, and no other entry changes
        r == (if old(self).0@.contains_key(peer_info.peer_id) { Some(old(self).0@[peer_info.peer_id]) } else { None::<PeerInfo> }), // @OBL KnownPeers::insert::returns_the_previous_entry [C10] the previous entry, if any, is returned
''')
    t += C.fn(CM, 'impl KnownPeers :: fn remove', 'KnownPeers::remove', ['C10', 'C13'], ret='r', sig_rewrites=[('&self', '&mut self')], body_prefix='\n        broadcast use axiom_peer_id_key;\n', spec='''
    ensures
        final(self).0@ == old(self).0@.remove(*peer_id), // @OBL KnownPeers::remove::forgets_exactly_that_entry [C10,C13] removing a known peer removes exactly that peer's entry (it is then treated like any unknown peer) and no other
        r == (if old(self).0@.contains_key(*peer_id) { Some(old(self).0@[*peer_id]) } else { None::<PeerInfo> }), // @OBL KnownPeers::remove::returns_the_entry [C10] the removed entry, if any, is returned
''')
    t += '}\n'
    # ---- admission (C10): the `async { .. }` block of handle_incoming_task ----------------------------------
    t += C.lifted(CM, 'impl ConnectionManager :: fn handle_incoming_task', 'ConnectionManager::handle_incoming_task::admission', ['C10'],
                  anchor=re.compile(r'let\s+\w+\s*=\s*async\b'), kind='block', name='handle_incoming_task_admission', is_async=True,
                  params='connecting: Connecting, config: &Config, active_peers: &mut ActivePeers, known_peers: &KnownPeers',
                  ret_ty='Result<Connection>', ret='r', transforms=[await_connecting],
                  rewrites=[dict(rule='X5', pattern='super::wire::', repl='wire::', optional=True)],
                  spec='''
    ensures
        connecting.outcome@ is Err ==> r is Err, // @OBL admission::failed_tls_is_rejected [C10] a connection whose TLS handshake fails is never admitted
        connecting.outcome@ is Ok ==> ({
            let c = connecting.outcome@->Ok_0;
            let info = if known_peers.0@.contains_key(c.peer) { Some(known_peers.0@[c.peer]) } else { None::<PeerInfo> };
            let ok = admit(info, config.max_concurrent_connections, old(active_peers).0.connections@.dom().len());
            (ok ==> r == wire::handshake_spec(c)) && (!ok ==> r is Err)
        }), // @OBL admission::decision [C10] Never -> refused; High/Allowed -> admitted regardless of the limit; anyone else -> admitted iff no limit or established connections (inbound and outbound alike) < limit; admitted means: proceeds to the acknowledgement handshake, refused means: error, connection dropped before the acknowledgement
        final(active_peers).0 == old(active_peers).0, // @OBL admission::does_not_register [C10] the admission decision itself registers nothing
''')
    # ---- explicit / background dial (C10, C03): the `async { .. }` block of dial_peer_task --------------------
    t += C.lifted(CM, 'impl ConnectionManager :: fn dial_peer_task', 'ConnectionManager::dial_peer_task::dial', ['C10', 'C03'],
                  anchor=re.compile(r'let\s+\w+\s*=\s*async\b'), kind='block', name='dial_peer_task_dial', is_async=True,
                  params='endpoint: &Endpoint, target_address: &Address, peer_id: Option<PeerId>',
                  ret_ty='Result<Connection>', ret='r', transforms=[await_connecting],
                  rewrites=[dict(rule='X5', pattern='super::wire::', repl='wire::', optional=True)],
                  spec='''
    ensures
        r is Ok ==> exists|cg: Connecting| #![auto] cg.expected@ == peer_id && cg.outcome@ is Ok && r == wire::handshake_spec(cg.outcome@->Ok_0), // @OBL dial::pins_identity_and_ignores_limit [C03,C10] a dial succeeds only through a handshake that was started WITH the expected identity when one was named (and without one otherwise), followed by the acknowledgement; neither the connection limit nor the active-peer set is consulted (the block does not even receive them)
''')
    # ---- the connection manager itself: real struct, fields mapped to stand-ins (X5) + two ghost logs (X7) ---------
    t += C.item(CM, 'struct ConnectionManager', rewrites=[
        ('X5', 'Arc<Config>', 'Config', 1), ('X5', 'Arc<Endpoint>', 'Endpoint', 1),
        ('X5', 'mpsc::Receiver<ConnectionManagerRequest>', 'Mailbox', 1),
        ('X5', 'BoxCloneService<Request<Bytes>, Response<Bytes>, Infallible>', 'Svc', 1),
        ('X7', r'\}\s*$', '    pub dial_log: Ghost<Seq<(u64, Option<PeerId>)>>,\n    pub notified: Ghost<Seq<Notified>>,\n}', 1, True),
    ])
    t += """
impl ConnectionManager {
    // stand-in for dial_peer(): spawns dial_peer_task(endpoint, address, peer_id, oneshot, config) into pending_connections
    #[verifier::external_body]
    pub fn dial_peer(&mut self, address: Address, peer_id: Option<PeerId>, oneshot: oneshot::Sender<Result<PeerId>>)
        ensures final(self).dial_log@ == old(self).dial_log@.push((address.a, peer_id)),
                final(self).pending_dials == old(self).pending_dials, final(self).dial_backoff_states == old(self).dial_backoff_states,
                final(self).active_peers == old(self).active_peers, final(self).config == old(self).config, final(self).endpoint == old(self).endpoint,
                final(self).notified == old(self).notified,
    { unimplemented!() }
"""
    # the retain pass that drains completed dials: the body of the `.retain(|peer_id, oneshot| match oneshot.try_recv() { .. })` closure
    def wrap_match(e):
        e.text = '{\n        match oneshot.try_recv() ' + e.text + '\n    }'
        e.replace_macro('debug_assert_eq', '()')
        e.replace_macro('panic', 'explicit_panic()')
        e.log('X10', 'the closure body `match oneshot.try_recv() {..}` wrapped as the body of the lifted function; debug_assert_eq! dropped (a no-op in release builds)')
    t += C.lifted(CM, 'impl ConnectionManager :: fn handle_connectivity_check', 'ConnectionManager::handle_connectivity_check::drain_one', ['C13', 'C06'],
                  anchor=re.compile(r'oneshot\.try_recv\(\)'), kind='block', name='connectivity_check_drain_one',
                  params='&mut self, peer_id: &PeerId, oneshot: &mut oneshot::Receiver<Result<PeerId>>, now: Instant', ret_ty='bool', ret='keep',
                  transforms=[wrap_match], body_prefix='\n        broadcast use axiom_peer_id_key;\n',
                  rewrites=[dict(rule='X5', pattern='std::time::Instant', repl='Instant', optional=True)],
                  spec="""
    requires
        !old(oneshot).closed(),   // every dial the manager started is answered before its sender is dropped (handle_connecting_result::failure_is_reported / ::answers_...; exercised by enum_cm::dial_races_inbound_connect)
        old(self).dial_backoff_states@.contains_key(*peer_id) ==> old(self).dial_backoff_states@[*peer_id].attempts < usize::MAX,
        (match old(self).config.max_connection_backoff_ms { Some(ms) => ms as nat, None => 60000nat }) * 1000000 <= dmax(),
    ensures
        old(oneshot).x@ is None ==> keep && final(self).dial_backoff_states@ == old(self).dial_backoff_states@, // @OBL connectivity_check::drain_one::in_flight_stays [C13] a dial still in flight stays registered as pending and changes nothing
        old(oneshot).x@ is Some && old(oneshot).x@->Some_0 is Ok ==> !keep && final(self).dial_backoff_states@ == old(self).dial_backoff_states@.remove(*peer_id), // @OBL connectivity_check::drain_one::success_clears_failures [C13] a successful dial ends the pending state and forgets the recorded failures of exactly that peer (the count is of CONSECUTIVE failures)
        old(oneshot).x@ is Some && old(oneshot).x@->Some_0 is Err ==> !keep && final(self).dial_backoff_states@.contains_key(*peer_id)
            && final(self).dial_backoff_states@[*peer_id].attempts as nat == (if old(self).dial_backoff_states@.contains_key(*peer_id) { old(self).dial_backoff_states@[*peer_id].attempts as nat + 1 } else { 1nat })
            && final(self).dial_backoff_states@.remove(*peer_id) == old(self).dial_backoff_states@.remove(*peer_id), // @OBL connectivity_check::drain_one::failure_counts_one [C13] a failed dial ends the pending state and adds exactly one to the consecutive-failure count of exactly that peer (first failure: one); no other peer's record changes
        old(oneshot).x@ is Some && old(oneshot).x@->Some_0 is Err ==> ({
            let st = final(self).dial_backoff_states@[*peer_id];
            let step = (match old(self).config.connection_backoff_ms { Some(ms) => ms as nat, None => 10000nat }) * 1000000;
            let max = (match old(self).config.max_connection_backoff_ms { Some(ms) => ms as nat, None => 60000nat }) * 1000000;
            st.backoff.t@ == now.t@ + natmin(max, natmin(step * clamp32(st.attempts as nat), dmax()))
        }), // @OBL connectivity_check::drain_one::next_attempt_no_sooner_than_backoff [C13] and the next attempt is allowed no sooner than min(max-backoff, k x backoff-step) after the instant the failure was noticed (this check), k = consecutive failures
        final(self).pending_dials == old(self).pending_dials && final(self).active_peers == old(self).active_peers && final(self).config == old(self).config
            && final(self).endpoint == old(self).endpoint && final(self).dial_log == old(self).dial_log && final(self).notified == old(self).notified, // @OBL connectivity_check::drain_one::frame [C13] nothing else of the manager changes
""", prose='lifted closure body verifies: the `panic!` for a dial whose answer channel was closed without an answer is unreachable given that every dial is answered; no other panic')
    # eligibility: the body of the `.filter(|peer_info| ..)` closure
    t += C.lifted(CM, 'impl ConnectionManager :: fn handle_connectivity_check', 'ConnectionManager::handle_connectivity_check::eligible', ['C13'],
                  anchor='.filter(|peer_info|', kind='block', name='connectivity_check_eligible',
                  params='&self, peer_info: &PeerInfo, active_peers: &ActivePeersInner, now: Instant', ret_ty='bool', ret='r',
                  transforms=[annotate_closures], body_prefix='\n        broadcast use axiom_peer_id_key, axiom_peer_id_eq;\n',
                  spec="""
    ensures
        r == eligible_spec(*peer_info, self.endpoint.own, active_peers.connections@.contains_key(peer_info.peer_id),
                           self.pending_dials@.contains_key(peer_info.peer_id),
                           if self.dial_backoff_states@.contains_key(peer_info.peer_id) { Some(self.dial_backoff_states@[peer_info.peer_id].backoff.t@) } else { None::<nat> },
                           now.t@), // @OBL connectivity_check::eligible::exact [C13] a known peer is background-dialed at this tick iff: High affinity, not ourselves, has an address, not connected, not already being dialed, and (no recorded failure or now is strictly later than the recorded back-off instant)
""")
    # in-flight cap
    t += C.lifted(CM, 'impl ConnectionManager :: fn handle_connectivity_check', 'ConnectionManager::handle_connectivity_check::number_to_dial', ['C13'],
                  anchor='let number_to_dial =', kind='stmt', name='connectivity_check_number_to_dial',
                  params='&self, eligible: &Vec<PeerInfo>', ret_ty='usize', ret='r', tail='        number_to_dial\n',
                  rewrites=[dict(rule='X5', pattern='std::cmp::', repl='cmp::', optional=True)],
                  spec="""
    ensures
        ({
            let cap = match self.config.max_concurrent_outstanding_connecting_connections { Some(n) => n as nat, None => 100nat };
            let establishing = self.pending_connections.n as nat;
            r as nat == natmin(eligible@.len(), if cap >= establishing { (cap - establishing) as nat } else { 0nat })
        }), // @OBL connectivity_check::number_to_dial::cap [C13,C10] the number of background dials started at a tick is min(eligible, cap - connections being established): none while that number is at the configured maximum (inbound handshakes and explicit dials count too)
""")
    # the body of the `for mut peer in eligible..take(n)` loop
    t += C.lifted(CM, 'impl ConnectionManager :: fn handle_connectivity_check', 'ConnectionManager::handle_connectivity_check::dial_one', ['C13'],
                  anchor='for mut peer in', kind='block', name='connectivity_check_dial_one',
                  params='&mut self, peer: PeerInfo', transforms=[annotate_closures],
                  body_prefix='\n        broadcast use axiom_peer_id_key;\n        let mut peer = peer;\n',
                  spec="""
    requires
        peer.address@.len() > 0,        // supplied by the eligibility filter
    ensures
        ({
            let attempts = if old(self).dial_backoff_states@.contains_key(peer.peer_id) { old(self).dial_backoff_states@[peer.peer_id].attempts as nat } else { 0nat };
            final(self).dial_log@ == old(self).dial_log@.push((peer.address@[(attempts % peer.address@.len()) as int].a, Some(peer.peer_id)))
        }), // @OBL connectivity_check::dial_one::rotates_addresses [C13] the address dialed is number (failures so far) mod (number of addresses): attempts rotate through the peer's addresses in order; exactly one dial is started, naming the expected identity
        final(self).pending_dials@.contains_key(peer.peer_id), // @OBL connectivity_check::dial_one::marks_pending [C13] the peer is recorded as being dialed (so it is not dialed again while this dial is in flight)
        final(self).dial_backoff_states == old(self).dial_backoff_states, // @OBL connectivity_check::dial_one::keeps_failure_count [C13] starting a dial does not change the recorded failure count
""")
    # add_peer and handle_connecting_result (C03, C04)
    t += C.fn(CM, 'impl ConnectionManager :: fn add_peer', 'ConnectionManager::add_peer', ['C03', 'C04', 'C05', 'C09'], spec="""
    ensures
        ({
            let pre = old(self).active_peers.0.view();
            let c = new_connection;
            let post = final(self).active_peers.0.view();
            let old_sp = old(self).connection_handlers.spawned_for@;
            let sp = final(self).connection_handlers.spawned_for@;
            (post =~~= add_spec(pre, c, true).0 && sp == (if add_spec(pre, c, true).1 is Some { old_sp.push(c.sid) } else { old_sp }))
            || (post =~~= add_spec(pre, c, false).0 && sp == (if add_spec(pre, c, false).1 is Some { old_sp.push(c.sid) } else { old_sp }))
        }), // @OBL ConnectionManager::add_peer::registers_and_spawns [C03,C04,C09] a new connection goes through add() of the active-peer set, and a request handler is started for it iff it was kept: a rejected connection is never served, and EVERY listed connection has the handler whose exit reports its loss (whatever state the connection is in by then)
        ({
            let pre = old(self).active_peers.0.view();
            let c = new_connection;
            pre.conns.contains_key(c.peer) && pre.conns[c.peer].orig != c.orig ==>
                final(self).active_peers.0.connections@ =~= add_spec(pre, c, keep_new_mixed(old(self).endpoint.own, c.peer, c.orig)).0.conns
        }), // @OBL ConnectionManager::add_peer::uses_own_id [C05] the tie-break is given this node's own identity
        final(self).notified == old(self).notified && final(self).dial_log == old(self).dial_log && final(self).endpoint == old(self).endpoint, // @OBL ConnectionManager::add_peer::frame [C03] registering answers nobody and dials nobody
""")
    t += C.fn(CM, 'impl ConnectionManager :: fn handle_connecting_result', 'ConnectionManager::handle_connecting_result', ['C03'],
              transforms=[notify_log], param_names=('output',), spec="""
    ensures
        output.connecting_result is Ok ==> final(self).active_peers.0.connections@.contains_key(output.connecting_result->Ok_0.peer), // @OBL handle_connecting_result::registered [C03] after a successful dial or admission the party reached is in the connected set
        output.connecting_result is Ok && output.maybe_oneshot is Some ==> ({
            let c = output.connecting_result->Ok_0;
            final(self).notified@.len() == old(self).notified@.len() + 1
            && final(self).notified@.last().ok_peer == Some(c.peer)
            && final(self).notified@.last().conns.contains_key(c.peer)
        }), // @OBL handle_connecting_result::answers_with_authenticated_id_after_registering [C03] the dial result is exactly the authenticated identity of the new connection, and at the instant it is given that party is in the caller's connected set
        output.connecting_result is Err ==> final(self).active_peers.0 == old(self).active_peers.0, // @OBL handle_connecting_result::failure_registers_nothing [C03] a failed dial or rejected arrival registers nothing
        output.connecting_result is Err && output.maybe_oneshot is Some ==>
            final(self).notified@.len() == old(self).notified@.len() + 1 && final(self).notified@.last().ok_peer is None, // @OBL handle_connecting_result::failure_is_reported [C03,C10] a failed dial is reported to the caller as a failure (a rejected dialer sees its connect fail)
""")
    t += '}\n'
    return t


def destructure_param(e):
    """X9(b): a destructuring parameter becomes an identifier plus a leading `let`"""
    t = e.text
    m = re.search(r'(ConnectingOutput\s*\{[^}]*\})\s*:\s*ConnectingOutput\s*,?\s*\)', t)
    if not m:
        return
    pat = m.group(1)
    t = t[:m.start()] + 'output: ConnectingOutput,\n    )' + t[m.end():]
    # first `{` after the signature opens the body
    i = t.index('{', t.index('output: ConnectingOutput'))
    t = t[:i + 1] + '\n        let %s = output;' % pat + t[i + 1:]
    e.text = t
    e.log('X9b', 'destructuring parameter replaced by `output: ConnectingOutput` plus a leading let')


def notify_log(e):
    """X7: after each `oneshot.send(Ok(x))` / `oneshot.send(Err(e))` record the answer and the connected set at that instant"""
    t = e.text
    t, k1 = re.subn(r'(let _ = oneshot\.send\(Ok\((\w+)\)\);)',
                    r'\1 proof { self.notified@ = self.notified@.push(Notified { ok_peer: Some(\2), conns: self.active_peers.0.connections@ }); }', t)
    t, k2 = re.subn(r'(let _ = oneshot\.send\(Err\((\w+)\)\);)',
                    r'\1 proof { self.notified@ = self.notified@.push(Notified { ok_peer: None, conns: self.active_peers.0.connections@ }); }', t)
    if k1 or k2:
        e.text = t
        e.log('X7', 'ghost notification log appended after %d oneshot.send call(s)' % (k1 + k2))
