"""Unit timeout (Verus): request deadline selection (C11).

Functions under contract: middleware/timeout/mod.rs try_parse_timeout, duration_to_timeout; inbound.rs and outbound.rs
Timeout::call, Timeout::new, TimeoutLayer::{new, layer}; config.rs inbound_request_timeout, outbound_request_timeout;
types/request.rs Request::headers.
Oracle from the statement: deadline(header, default) = the smaller of the two, either may be absent, unparsable == absent.
Not decided here: ResponseFuture::poll (pin_project; the sleep race), Builder::start wiring.
"""
import re
import prelude as P

NAME = 'timeout'
BACKEND = 'verus'
MOD = 'crates/anemo/src/middleware/timeout/mod.rs'
INB = 'crates/anemo/src/middleware/timeout/inbound.rs'
OUTB = 'crates/anemo/src/middleware/timeout/outbound.rs'
REQ = 'crates/anemo/src/types/request.rs'
TYPES = 'crates/anemo/src/types/mod.rs'
CONFIG = 'crates/anemo/src/config.rs'
NET = 'crates/anemo/src/network/mod.rs'

STANDINS = r'''
// ---------- trusted stand-ins ----------
#[verifier::external_trait_specification]
pub trait ExFromStr: Sized { type ExternalTraitSpecificationFor: core::str::FromStr; type Err; fn from_str(s: &str) -> core::result::Result<Self, Self::Err>; }
// str::parse::<F>: an uninterpreted total function of the text (its meaning is std's; never panics)
pub uninterp spec fn parse_spec<F>(s: Seq<char>) -> Option<F>;
pub assume_specification<F: core::str::FromStr>[str::parse::<F>](s: &str) -> (r: core::result::Result<F, F::Err>)
    ensures r is Ok <==> parse_spec::<F>(s@) is Some, r is Ok ==> Some(r->Ok_0) == parse_spec::<F>(s@);
#[verifier::external_type_specification]
#[verifier::external_body]
pub struct ExParseIntError(core::num::ParseIntError);
pub assume_specification [<String as AsRef<str>>::as_ref](s: &String) -> (r: &str) ensures r@ == s@;
// u64::to_string: vstd states it through `to_string_from_display_ensures`; ASSUMED: decimal printing and parsing of u64 are inverse (std)
pub open spec fn is_u64_text(n: u64, s: String) -> bool { vstd::string::to_string_from_display_ensures::<u64>(&n, s) }
#[verifier::external_body]
pub broadcast proof fn axiom_u64_print_parse(n: u64, s: String) requires #[trigger] is_u64_text(n, s) ensures parse_spec::<u64>(s@) == Some(n) {}
pub assume_specification<T, E, F: FnOnce(E) -> T> [core::result::Result::<T, E>::unwrap_or_else] (s: core::result::Result<T, E>, f: F) -> (r: T)
    requires s is Err ==> f.requires((s->Err_0,)),
    ensures s is Ok ==> r == s->Ok_0, s is Err ==> f.ensures((s->Err_0,), r);

// crate::types::HeaderMap = HashMap<String, String>, looked up by &str
pub struct HeaderMap { pub m: Ghost<Map<Seq<char>, Seq<char>>> }
impl HeaderMap {
    #[verifier::external_body]
    pub fn get(&self, k: &str) -> (r: Option<&String>)
        ensures r is Some <==> self.m@.contains_key(k@), r is Some ==> r->Some_0@ == self.m@[k@] { unimplemented!() }
    #[verifier::external_body]
    pub fn insert(&mut self, k: String, v: String) -> (r: Option<String>) ensures final(self).m@ == old(self).m@.insert(k@, v@) { unimplemented!() }
}
#[verifier::external_body] pub fn str_into(s: &str) -> (r: String) ensures r@ == s@ { unimplemented!() }       // `<&str>.into()` where a String is wanted
pub assume_specification<T> [core::option::Option::<Option<T>>::flatten] (o: Option<Option<T>>) -> (r: Option<T>)
    ensures r == (match o { Some(x) => x, None => None::<T> });
pub struct Extensions { pub n: Ghost<nat> }
pub struct Bytes { pub v: Vec<u8> }
pub struct Response<T> { pub body: T }
#[derive(Debug)]
pub struct Error { pub tag: u8 }

// tokio::time::{sleep, Sleep}: the only thing that matters here is which duration the timer was armed with
pub struct Sleep { pub duration: Duration }
pub mod tokio { pub mod time {
    use super::super::*;
    #[verifier::external_body]
    pub fn sleep(duration: Duration) -> (r: Sleep) ensures r.duration == duration { unimplemented!() }
} }

// tower::Service as a ghost call log: `call` hands the request to the service exactly once and returns its future
pub trait Service<Req> {
    type Future;
    spec fn calls(&self) -> Seq<Req>;
    spec fn fut_of(&self, req: Req) -> Self::Future;
    fn call(&mut self, req: Req) -> (r: Self::Future)
        ensures final(self).calls() == old(self).calls().push(req), r == old(self).fut_of(req);
}
'''

WIRING_STANDINS = r'''
// ---------- tower::ServiceBuilder / BoxLayer as recorders: a stack is the sequence of its layers, OUTERMOST first (tower: the first
// layer added to a ServiceBuilder sees the request first) ----------
pub enum LayerRec { OutboundTimeout(Option<Duration>), InboundTimeout(Option<Duration>), AddExtension, User(nat) }
pub trait RecordedLayer { spec fn rec(&self) -> LayerRec; }
impl RecordedLayer for outbound::TimeoutLayer { open spec fn rec(&self) -> LayerRec { LayerRec::OutboundTimeout(self.default_timeout) } }
impl RecordedLayer for inbound::TimeoutLayer { open spec fn rec(&self) -> LayerRec { LayerRec::InboundTimeout(self.default_timeout) } }
pub struct BoxLayer { pub layers: Ghost<Seq<LayerRec>>, pub id: Ghost<nat> }
impl RecordedLayer for BoxLayer { open spec fn rec(&self) -> LayerRec { LayerRec::User(self.id@) } }   // a layer supplied by the user: opaque
pub struct WeakNetwork;
impl WeakNetwork { #[verifier::external_body] pub fn clone(&self) -> (r: Self) { unimplemented!() } }
pub struct NetworkRef(pub WeakNetwork);
pub struct AddExtensionLayer<T> { pub v: T }
impl<T> AddExtensionLayer<T> { #[verifier::external_body] pub fn new(v: T) -> (r: Self) { unimplemented!() } }
impl<T> RecordedLayer for AddExtensionLayer<T> { open spec fn rec(&self) -> LayerRec { LayerRec::AddExtension } }
pub struct LayerStack { pub layers: Ghost<Seq<LayerRec>> }
pub struct ServiceBuilder { pub layers: Ghost<Seq<LayerRec>> }
pub struct UserService { pub id: u64 }
pub struct BoxedService { pub layers: Ghost<Seq<LayerRec>>, pub inner: UserService }
impl ServiceBuilder {
    #[verifier::external_body] pub fn new() -> (r: Self) ensures r.layers@ == Seq::<LayerRec>::empty() { unimplemented!() }
    #[verifier::external_body] pub fn layer<L: RecordedLayer>(self, l: L) -> (r: Self) ensures r.layers@ == self.layers@.push(l.rec()) { unimplemented!() }
    #[verifier::external_body] pub fn into_inner(self) -> (r: LayerStack) ensures r.layers == self.layers { unimplemented!() }
    #[verifier::external_body] pub fn service(self, s: UserService) -> (r: BoxedService) ensures r.layers == self.layers, r.inner == s { unimplemented!() }
}
impl BoxedService { #[verifier::external_body] pub fn boxed_clone(self) -> (r: Self) ensures r == self { unimplemented!() } }
pub trait IntoStack { spec fn stack(&self) -> Seq<LayerRec>; }
impl IntoStack for LayerStack { open spec fn stack(&self) -> Seq<LayerRec> { self.layers@ } }
impl IntoStack for outbound::TimeoutLayer { open spec fn stack(&self) -> Seq<LayerRec> { seq![self.rec()] } }
impl IntoStack for inbound::TimeoutLayer { open spec fn stack(&self) -> Seq<LayerRec> { seq![self.rec()] } }
impl IntoStack for BoxLayer { open spec fn stack(&self) -> Seq<LayerRec> { seq![self.rec()] } }
impl BoxLayer { #[verifier::external_body] pub fn new<L: IntoStack>(s: L) -> (r: Self) ensures r.layers@ == s.stack() { unimplemented!() } }
'''

SPEC = r'''
// =====================================================================================================
// Oracle written from the statement of C11
// =====================================================================================================
pub open spec fn timeout_key() -> Seq<char> { "timeout"@ }
// the header's meaning: absent, or a u64 nanosecond count; an unparsable value counts as absent
pub open spec fn header_deadline(h: HeaderMap) -> Option<nat> {
    if !h.m@.contains_key(timeout_key()) { None }
    else { match parse_spec::<u64>(h.m@[timeout_key()]) { Some(n) => Some(n as nat), None => None } }
}
// "the smaller of the locally configured default and the timeout header (either may be absent)"
pub open spec fn deadline(header: Option<nat>, default: Option<nat>) -> Option<nat> {
    match (header, default) {
        (None, None) => None,
        (Some(a), None) => Some(a),
        (None, Some(b)) => Some(b),
        (Some(a), Some(b)) => Some(natmin(a, b)),
    }
}
pub open spec fn dur(o: Option<Duration>) -> Option<nat> { match o { Some(d) => Some(d.ns@), None => None } }
pub open spec fn sleep_dur(o: Option<Sleep>) -> Option<nat> { match o { Some(s) => Some(s.duration.ns@), None => None } }

pub proof fn lemma_remote_can_only_shorten(header: Option<nat>, default: Option<nat>) // @FNOBL lemma::remote_can_only_shorten [C11] with a local default configured the deadline always exists and never exceeds it: a remote peer can shorten but never extend or disable the local limit
    ensures default is Some ==> deadline(header, default) is Some && deadline(header, default)->Some_0 <= default->Some_0,
            header is Some ==> deadline(header, default) is Some && deadline(header, default)->Some_0 <= header->Some_0,
            header is None ==> deadline(header, default) == default,
{
}
'''


def closure_contract(e):
    """X6: the closure handed to unwrap_or_else gets a contract (`ret is None`: an unparsable header counts as absent);
    X9: `|_|` closure parameters get a name.  Applied only where such closures exist."""
    import re
    t = e.text
    t2, k = re.subn(r'\.unwrap_or_else\(\|(\w+)\|\s*\{', r'.unwrap_or_else(|\1| -> (ret: Option<Duration>) ensures ret is None {', t)
    if k:
        e.log('X6', 'closure contract `ensures ret is None` inserted on %d unwrap_or_else closure(s)' % k)
    t3, k2 = re.subn(r'\|_\|', '|_unused|', t2)
    if k2:
        e.log('X9', '`|_|` closure parameter named (x%d)' % k2)
    e.text = t3


def own_mut_self(e):
    """X9e: `fn f(mut self, ..) { .. self .. }` -> `fn f(self, ..) { let mut self_ = self; .. self_ .. }` (Verus has no `mut self`)"""
    if re.search(r'\(\s*mut\s+self\b', e.text):
        head, brace, body = e.text.partition('{')
        head = re.sub(r'\(\s*mut\s+self\b', '(self', head, count=1)
        body = re.sub(r'\bself\b', 'self_', body)
        e.text = head + '{\n        let mut self_ = self;' + body
        e.log('X9e', '`mut self` rebound as a local (`let mut self_ = self;`), the body refers to it')


def build(ctx):
    C = ctx
    C.helper_rewrites = [dict(rule='X5', pattern='std::time::', repl=''), dict(rule='X5', pattern='std::cmp::', repl='cmp::'), dict(rule='X5', pattern='super::', repl='')]
    t = P.HEADER + P.STD_SPECS + P.TIME_STANDIN + STANDINS
    t += C.item(TYPES, 'mod header', rewrites=[('X9c', '&str', "&'static str", None)])
    t += C.item(TYPES, 'enum Version', rewrites=[('X5', 'V1 = 1,', 'V1,', 1)])
    t += C.item(REQ, 'struct RequestHeader')
    t += C.item(REQ, 'struct Request')
    t += SPEC
    t += 'impl<T> Request<T> {\n'
    t += C.fn(REQ, 'impl <T> Request<T> :: fn headers', 'Request::headers', ['C11'], ret='r', spec='''
    ensures
        *r == self.head.headers, // @OBL Request::headers::is_field [C11] headers() is the request's header map
''')
    t += '}\n'
    t += C.fn(MOD, 'fn try_parse_timeout', 'try_parse_timeout', ['C11', 'C06'], ret='r', transforms=[closure_contract], spec='''
    ensures
        !headers.m@.contains_key(timeout_key()) ==> r == Ok::<Option<Duration>, &str>(None), // @OBL try_parse_timeout::absent [C11] no timeout header: Ok(None)
        headers.m@.contains_key(timeout_key()) && parse_spec::<u64>(headers.m@[timeout_key()]) is Some ==>
            r is Ok && r->Ok_0 is Some && r->Ok_0->Some_0.ns@ == parse_spec::<u64>(headers.m@[timeout_key()])->Some_0 as nat, // @OBL try_parse_timeout::parsed [C11] a header that parses as u64 n means n nanoseconds
        headers.m@.contains_key(timeout_key()) && parse_spec::<u64>(headers.m@[timeout_key()]) is None ==> r is Err, // @OBL try_parse_timeout::unparsable [C11,C06] any other header text is reported as an error (never a panic, never a made-up deadline)
''')
    t += C.fn(MOD, 'fn duration_to_timeout', 'duration_to_timeout', ['C11'], ret='r', spec='''
    requires
        duration.ns@ <= dmax(),
    ensures
        is_u64_text(if duration.ns@ <= u64::MAX as nat { duration.ns@ as u64 } else { u64::MAX }, r), // @OBL duration_to_timeout::saturating_nanos [C11] the header value is the duration in nanoseconds, saturated at u64::MAX
''')

    # ---- the caller-facing side of the header (types/request.rs): how a caller SETS the deadline a request carries, and reads it back ----
    t += 'impl<T> Request<T> {\n'
    t += C.fn(REQ, 'impl <T> Request<T> :: fn headers_mut', 'Request::headers_mut', ['C11'], ret='r', spec='''
    ensures
        *r == old(self).head.headers && final(self).head.headers == *final(r) && final(self).head.route == old(self).head.route && final(self).head.version == old(self).head.version
            && final(self).head.extensions == old(self).head.extensions && final(self).body == old(self).body, // @OBL Request::headers_mut::only_headers [C11,C02] headers_mut() gives access to the header map and to nothing else of the request
''')
    caller_rw = [dict(rule='X5', pattern='std::time::', repl='', optional=True), dict(rule='X5', pattern='crate::middleware::timeout::', repl='', optional=True), dict(rule='X5', pattern=r'super::header::(\w+)\.into\(\)', repl=r'str_into(header::\1)', regex=True, optional=True)]
    t += C.fn(REQ, 'impl <T> Request<T> :: fn set_timeout', 'Request::set_timeout', ['C11'], rewrites=caller_rw, body_prefix='\n        broadcast use axiom_u64_print_parse;\n', spec='''
    requires
        timeout.ns@ <= dmax(),
    ensures
        header_deadline(final(self).head.headers) == Some(if timeout.ns@ <= u64::MAX as nat { timeout.ns@ } else { u64::MAX as nat }), // @OBL Request::set_timeout::header_means_that_duration [C11] the deadline a caller sets IS the deadline the header carries: the serving side (and the local outbound middleware) read back exactly that many nanoseconds, saturated at u64::MAX
        final(self).head.headers.m@.remove(timeout_key()) == old(self).head.headers.m@.remove(timeout_key()) && final(self).head.route == old(self).head.route && final(self).body == old(self).body, // @OBL Request::set_timeout::nothing_else_changes [C11,C02] setting the deadline touches the timeout header and nothing else of the request
''')
    t += C.fn(REQ, 'impl <T> Request<T> :: fn with_timeout', 'Request::with_timeout', ['C11'], ret='r', transforms=[own_mut_self], rewrites=caller_rw, spec='''
    requires
        timeout.ns@ <= dmax(),
    ensures
        header_deadline(r.head.headers) == Some(if timeout.ns@ <= u64::MAX as nat { timeout.ns@ } else { u64::MAX as nat }), // @OBL Request::with_timeout::header_means_that_duration [C11] the builder form sets the same header
        r.head.headers.m@.remove(timeout_key()) == self.head.headers.m@.remove(timeout_key()) && r.head.route == self.head.route && r.body == self.body, // @OBL Request::with_timeout::nothing_else_changes [C11,C02] and touches nothing else
''')
    t += C.fn(REQ, 'impl <T> Request<T> :: fn timeout', 'Request::timeout', ['C11'], ret='r', rewrites=caller_rw, spec='''
    ensures
        dur(r) == header_deadline(self.head.headers), // @OBL Request::timeout::reads_the_header [C11] timeout() is the header's meaning: absent or unparsable counts as none, otherwise that many nanoseconds
''')
    t += '}\n'
    call_spec = '''
    ensures
        sleep_dur(r.sleep) == deadline(header_deadline(req.head.headers), dur(old(self).default_timeout)), // @OBL %(k)s::Timeout::call::deadline_is_min [C11] the timer is armed with exactly min(local default, timeout header); either may be absent; an unparsable header counts as absent
        final(self).inner.calls() == old(self).inner.calls().push(req) && r.inner == old(self).inner.fut_of(req), // @OBL %(k)s::Timeout::call::inner_called_once [C11,C02] the request is handed unchanged to the wrapped service exactly once
        final(self).default_timeout == old(self).default_timeout, // @OBL %(k)s::Timeout::call::default_unchanged [C11] serving a request never changes the configured default
'''
    for (rel, k) in ((INB, 'inbound'), (OUTB, 'outbound')):
        t += 'pub mod %s {\nuse super::*;\n' % k
        t += C.item(rel, 'struct TimeoutLayer')
        t += C.item(rel, 'struct Timeout')
        t += C.item(rel, 'pin_project! :: struct ResponseFuture')
        t += 'impl TimeoutLayer {\n'
        t += C.fn(rel, 'impl TimeoutLayer :: fn new', k + '::TimeoutLayer::new', ['C11'], ret='r', spec='''
    ensures
        r.default_timeout == default_timeout, // @OBL %s::TimeoutLayer::new::keeps_default [C11] the layer stores the configured default unchanged
''' % k)
        t += C.fn(rel, 'impl <S> Layer<S> for TimeoutLayer :: fn layer', k + '::TimeoutLayer::layer', ['C11'], ret='r',
                  sig_rewrites=[('Self::Service', 'Timeout<S>'), ('fn layer(', 'fn layer<S>(')], spec='''
    ensures
        r.default_timeout == self.default_timeout && r.inner == inner, // @OBL %s::TimeoutLayer::layer::keeps_default [C11] every service built by the layer gets the layer's default and wraps the given service
''' % k)
        t += '}\nimpl<S> Timeout<S> {\n'
        t += C.fn(rel, 'impl <S> Timeout<S> :: fn new', k + '::Timeout::new', ['C11'], ret='r', spec='''
    ensures
        r.default_timeout == default_timeout && r.inner == inner, // @OBL %s::Timeout::new::keeps_default [C11] the middleware stores the given default unchanged
''' % k)
        t += '}\nimpl<S> Timeout<S> {\n'
        hdr = 'impl <S, ReqBody> Service<Request<ReqBody>> for Timeout<S> .*'
        t += C.fn(rel, hdr + ' :: fn call', k + '::Timeout::call', ['C11', 'C06'], ret='r', transforms=[closure_contract],
                  sig_rewrites=[('Self::Future', 'ResponseFuture<S::Future> where S: Service<Request<ReqBody>>'), ('fn call(', 'fn call<ReqBody>(')],
                  rewrites=[('X5', 'super::try_parse_timeout', 'try_parse_timeout', 1), dict(rule='X5', pattern='std::cmp::', repl='cmp::', optional=True)],
                  spec=call_spec % dict(k=k))
        t += '}\n'
        t += '} // mod %s\n' % k
    # config accessors
    t += '''
pub struct Config { pub inbound_request_timeout_ms: Option<u64>, pub outbound_request_timeout_ms: Option<u64> }
impl Config {
'''
    for f in ('inbound', 'outbound'):
        t += C.fn(CONFIG, 'impl Config :: fn %s_request_timeout' % f, 'Config::%s_request_timeout' % f, ['C11'], ret='r', spec='''
    ensures
        dur(r) == (match self.%s_request_timeout_ms { Some(ms) => Some(ms as nat * 1000000), None => None }), // @OBL Config::%s_request_timeout::millis [C11] the configured %s default is the configured number of milliseconds; none configured means no default
''' % (f, f, f))
    t += '}\n'
    # ---- wiring (network/mod.rs Builder::start): which layers every request of a network passes, lifted statements --------------------
    t += WIRING_STANDINS
    t += C.lifted(NET, 'impl Builder :: fn start', 'Builder::start::outbound_layer', ['C11'], anchor='let outbound_request_layer =', kind='stmt',
                  name='builder_start_outbound_layer', params='config: &Config, this_outbound_request_layer: &mut Option<BoxLayer>', ret_ty='BoxLayer', ret='r',
                  tail='        outbound_request_layer\n',
                  rewrites=[dict(rule='X10', pattern='self.outbound_request_layer', repl='this_outbound_request_layer'), dict(rule='X5', pattern='timeout::outbound::', repl='outbound::', optional=True)],
                  spec='''
    ensures
        r.layers@.len() >= 1 && r.layers@[0] is OutboundTimeout && dur(r.layers@[0]->OutboundTimeout_0) == (match config.outbound_request_timeout_ms { Some(ms) => Some(ms as nat * 1000000), None => None }), // @OBL Builder::start::outbound_layer::timeout_outermost_with_configured_default [C11] the layer stack every outgoing RPC of a network passes starts (outermost) with the outbound timeout middleware armed with the CONFIGURED outbound default: the configured default takes effect on every RPC made through the network, whatever layer the user adds
        (*old(this_outbound_request_layer)) is Some ==> r.layers@ =~= seq![r.layers@[0], LayerRec::User((*old(this_outbound_request_layer))->Some_0.id@)], // @OBL Builder::start::outbound_layer::then_the_user_layer [C11] followed by the layer the user supplied, if any, and nothing else
        (*old(this_outbound_request_layer)) is None ==> r.layers@.len() == 1, // @OBL Builder::start::outbound_layer::nothing_else [C11] (no user layer: only the timeout middleware)
''')
    t += C.lifted(NET, 'impl Builder :: fn start', 'Builder::start::inbound_service', ['C11'], anchor='let service = ServiceBuilder::new()', kind='stmt',
                  name='builder_start_inbound_service', params='config: &Config, weak: &WeakNetwork, service: UserService', ret_ty='BoxedService', ret='r',
                  tail='        service\n',
                  rewrites=[dict(rule='X5', pattern='timeout::inbound::', repl='inbound::', optional=True)],
                  spec='''
    ensures
        r.layers@.len() >= 1 && r.layers@[0] is InboundTimeout && dur(r.layers@[0]->InboundTimeout_0) == (match config.inbound_request_timeout_ms { Some(ms) => Some(ms as nat * 1000000), None => None }), // @OBL Builder::start::inbound_service::timeout_outermost_with_configured_default [C11] every request a network serves passes first (outermost) the inbound timeout middleware armed with the CONFIGURED inbound default
        r.inner == service, // @OBL Builder::start::inbound_service::wraps_the_user_service [C11,C02] and ends at exactly the service the network was started with
''')
    t += C.helpers_here()
    t += P.FOOTER
    return t
