"""Unit enum_cm (BOUNDED exhaustive enumeration, native execution): whole functions of network/connection_manager.rs executed on small
executable stand-ins.  (A Kani version of this unit was tried first: CBMC needed > 10 min for the smallest harness because of the
heap-allocated maps; the same harnesses run natively over EVERY choice sequence in well under a second.)

What Verus cannot see (whole-function behaviour outside the lifted blocks, closures, iterator pipelines, `retain`) is run here on the
real function text: ActivePeersInner / ActivePeers (all methods), DialBackoffState, and ConnectionManager::
{handle_connectivity_check, handle_connecting_result, add_peer, dial_peer}.  The harnesses drive short histories (bounded: see each
harness) and compare against small reference models written from the property statements.  Everything here is a bounded stand-in: it
is reported under bounded_checks, never counted as proved; a failure is a concrete counterexample on the extracted real code.
"""
import re
import prelude as P

NAME = 'enum_cm'
BACKEND = 'enum'
CM = P.CM
CONFIG = 'crates/anemo/src/config.rs'
TYPES = P.TYPES
TIMEOUT = 600
# vacuity guard: cover points that must be reached: history: an add onto an existing entry; ticks: a dial, a re-dial after 1 failure, after 2
COVER = {'active_peers_history': [0, 1, 2], 'who_is_dialed': [0, 1], 'background_dialing_ticks': [0, 1, 3, 4], 'dial_races_inbound_connect': [0, 3, 5, 6], 'closed_connection_bookkeeping': [0, 1, 2], 'shutdown_after_history': [0, 1, 2], 'backoff_configurations': [0], 'known_peers_table': [0, 1], 'mutual_dial_through_manager': [0, 1], 'known_peers_change_during_dial': [0, 6, 7]}

PRELUDE = r'''// GENERATED on every run by /verif/vc from /repo's working tree -- do not edit
#![allow(dead_code, unused, non_upper_case_globals, non_camel_case_types, static_mut_refs)]
use std::sync::Arc;
use std::time::Duration;
// ---------- executable stand-ins: plain data only (no Rc / Drop), shared state lives in statics: keeps CBMC's drop glue trivial ----------
#[derive(Debug)]
pub struct Error;
impl Error { pub fn msg() -> Self { Error } }
pub type Result<T, E = Error> = std::result::Result<T, E>;

// a small association list with the part of std::collections::HashMap's API the code under test uses (same signatures)
#[derive(Debug)]
pub struct HashMap<K, V> { pub items: Vec<(K, V)> }
impl<K: PartialEq, V> Default for HashMap<K, V> { fn default() -> Self { HashMap { items: Vec::new() } } }
pub mod hash_map {
    use super::HashMap;
    pub enum Entry<'a, K, V> { Occupied(OccupiedEntry<'a, K, V>), Vacant(VacantEntry<'a, K, V>) }
    pub struct OccupiedEntry<'a, K, V> { pub map: &'a mut HashMap<K, V>, pub idx: usize }
    pub struct VacantEntry<'a, K, V> { pub map: &'a mut HashMap<K, V>, pub key: K }
    impl<'a, K: PartialEq, V> OccupiedEntry<'a, K, V> {
        pub fn get(&self) -> &V { &self.map.items[self.idx].1 }
        pub fn get_mut(&mut self) -> &mut V { &mut self.map.items[self.idx].1 }
        pub fn into_mut(self) -> &'a mut V { &mut self.map.items[self.idx].1 }
        pub fn key(&self) -> &K { &self.map.items[self.idx].0 }
        pub fn insert(&mut self, v: V) -> V { std::mem::replace(&mut self.map.items[self.idx].1, v) }
        pub fn remove(self) -> V { self.map.items.remove(self.idx).1 }
        pub fn remove_entry(self) -> (K, V) { self.map.items.remove(self.idx) }
    }
    impl<'a, K: PartialEq, V> VacantEntry<'a, K, V> {
        pub fn insert(self, v: V) -> &'a mut V { self.map.items.push((self.key, v)); let n = self.map.items.len() - 1; &mut self.map.items[n].1 }
        pub fn key(&self) -> &K { &self.key }
    }
    // (the rest of std's Entry API, for edits that reach for it)
    impl<'a, K: PartialEq, V> Entry<'a, K, V> {
        pub fn or_insert(self, default: V) -> &'a mut V { match self { Entry::Occupied(e) => e.into_mut(), Entry::Vacant(e) => e.insert(default) } }
        pub fn or_insert_with<F: FnOnce() -> V>(self, default: F) -> &'a mut V { match self { Entry::Occupied(e) => e.into_mut(), Entry::Vacant(e) => e.insert(default()) } }
        pub fn or_default(self) -> &'a mut V where V: Default { match self { Entry::Occupied(e) => e.into_mut(), Entry::Vacant(e) => e.insert(V::default()) } }
        pub fn and_modify<F: FnOnce(&mut V)>(self, f: F) -> Self { match self { Entry::Occupied(mut e) => { f(e.get_mut()); Entry::Occupied(e) } Entry::Vacant(e) => Entry::Vacant(e) } }
        pub fn key(&self) -> &K { match self { Entry::Occupied(e) => e.key(), Entry::Vacant(e) => e.key() } }
    }
}
use hash_map::Entry;
impl<K: PartialEq, V> HashMap<K, V> {
    pub fn new() -> Self { HashMap { items: Vec::new() } }
    fn pos(&self, k: &K) -> Option<usize> { let mut i = 0; while i < self.items.len() { if &self.items[i].0 == k { return Some(i); } i += 1; } None }
    pub fn get(&self, k: &K) -> Option<&V> { match self.pos(k) { Some(i) => Some(&self.items[i].1), None => None } }
    pub fn get_mut(&mut self, k: &K) -> Option<&mut V> { match self.pos(k) { Some(i) => Some(&mut self.items[i].1), None => None } }
    pub fn contains_key(&self, k: &K) -> bool { self.pos(k).is_some() }
    pub fn insert(&mut self, k: K, v: V) -> Option<V> { match self.pos(&k) { Some(i) => Some(std::mem::replace(&mut self.items[i].1, v)), None => { self.items.push((k, v)); None } } }
    pub fn remove(&mut self, k: &K) -> Option<V> { match self.pos(k) { Some(i) => Some(self.items.remove(i).1), None => None } }
    pub fn len(&self) -> usize { self.items.len() }
    pub fn is_empty(&self) -> bool { self.items.is_empty() }
    pub fn clear(&mut self) { self.items.clear() }
    pub fn iter_mut(&mut self) -> impl Iterator<Item = (&K, &mut V)> { self.items.iter_mut().map(|kv| (&kv.0, &mut kv.1)) }
    pub fn remove_entry(&mut self, k: &K) -> Option<(K, V)> { match self.pos(k) { Some(i) => Some(self.items.remove(i)), None => None } }
    pub fn keys(&self) -> impl Iterator<Item = &K> { self.items.iter().map(|kv| &kv.0) }
    pub fn values(&self) -> impl Iterator<Item = &V> { self.items.iter().map(|kv| &kv.1) }
    pub fn values_mut(&mut self) -> impl Iterator<Item = &mut V> { self.items.iter_mut().map(|kv| &mut kv.1) }
    pub fn iter(&self) -> impl Iterator<Item = (&K, &V)> { self.items.iter().map(|kv| (&kv.0, &kv.1)) }
    pub fn retain<F: FnMut(&K, &mut V) -> bool>(&mut self, mut f: F) {
        let mut i = 0;
        while i < self.items.len() { let keep = { let kv = &mut self.items[i]; f(&kv.0, &mut kv.1) }; if keep { i += 1; } else { self.items.remove(i); } }
    }
    pub fn entry(&mut self, k: K) -> Entry<'_, K, V> { match self.pos(&k) { Some(i) => Entry::Occupied(hash_map::OccupiedEntry { map: self, idx: i }), None => Entry::Vacant(hash_map::VacantEntry { map: self, key: k }) } }
    // (more of std's API, for edits that reach for it)
    pub fn drain(&mut self) -> std::vec::IntoIter<(K, V)> { std::mem::take(&mut self.items).into_iter() }
    pub fn into_keys(self) -> impl Iterator<Item = K> { self.items.into_iter().map(|kv| kv.0) }
    pub fn into_values(self) -> impl Iterator<Item = V> { self.items.into_iter().map(|kv| kv.1) }
    pub fn extend<I: IntoIterator<Item = (K, V)>>(&mut self, it: I) { for (k, v) in it { self.insert(k, v); } }
}
impl<K, V> IntoIterator for HashMap<K, V> { type Item = (K, V); type IntoIter = std::vec::IntoIter<(K, V)>; fn into_iter(self) -> Self::IntoIter { self.items.into_iter() } }
impl<'a, K, V> IntoIterator for &'a HashMap<K, V> { type Item = (&'a K, &'a V); type IntoIter = std::iter::Map<std::slice::Iter<'a, (K, V)>, fn(&'a (K, V)) -> (&'a K, &'a V)>; fn into_iter(self) -> Self::IntoIter { fn split<'b, A, B>(kv: &'b (A, B)) -> (&'b A, &'b B) { (&kv.0, &kv.1) } self.items.iter().map(split::<K, V> as fn(&'a (K, V)) -> (&'a K, &'a V)) } }
impl<'a, K, V> IntoIterator for &'a mut HashMap<K, V> { type Item = (&'a K, &'a mut V); type IntoIter = std::iter::Map<std::slice::IterMut<'a, (K, V)>, fn(&'a mut (K, V)) -> (&'a K, &'a mut V)>; fn into_iter(self) -> Self::IntoIter { fn split<'b, A, B>(kv: &'b mut (A, B)) -> (&'b A, &'b mut B) { (&kv.0, &mut kv.1) } self.items.iter_mut().map(split::<K, V> as fn(&'a mut (K, V)) -> (&'a K, &'a mut V)) } }
impl<K: PartialEq, V> FromIterator<(K, V)> for HashMap<K, V> { fn from_iter<I: IntoIterator<Item = (K, V)>>(it: I) -> Self { let mut m = HashMap::new(); for (k, v) in it { m.insert(k, v); } m } }
// std::sync::RwLock with the number of acquisitions made observable (single-threaded: a RefCell)
pub struct RwLock<T> { pub cell: std::cell::RefCell<T>, pub acquisitions: std::cell::Cell<u32> }
pub type RwLockReadGuard<'a, T> = std::cell::Ref<'a, T>;
pub type RwLockWriteGuard<'a, T> = std::cell::RefMut<'a, T>;
impl<T> RwLock<T> {
    pub fn new(t: T) -> Self { RwLock { cell: std::cell::RefCell::new(t), acquisitions: std::cell::Cell::new(0) } }
    pub fn read(&self) -> std::result::Result<std::cell::Ref<'_, T>, ()> { self.acquisitions.set(self.acquisitions.get() + 1); Ok(self.cell.borrow()) }
    pub fn write(&self) -> std::result::Result<std::cell::RefMut<'_, T>, ()> { self.acquisitions.set(self.acquisitions.get() + 1); Ok(self.cell.borrow_mut()) }
}
// tokio::sync::broadcast: ONE channel per harness; the log of everything ever sent is a static
pub static mut EVENT_LOG: [Option<PeerEvent>; 32] = [const { None }; 32];
pub static mut EVENT_LEN: usize = 0;
pub fn event_len() -> usize { unsafe { EVENT_LEN } }
pub fn event(i: usize) -> PeerEvent { unsafe { EVENT_LOG[i].clone().unwrap() } }
pub mod broadcast {
    use super::*;
    #[derive(Debug)]
    pub struct Sender<T> { pub _t: std::marker::PhantomData<T> }
    pub struct Receiver<T> { pub start: usize, pub _t: std::marker::PhantomData<T> }
    pub fn channel<T>(_capacity: usize) -> (Sender<T>, Receiver<T>) { (Sender { _t: std::marker::PhantomData }, Receiver { start: 0, _t: std::marker::PhantomData }) }
    impl Sender<PeerEvent> {
        pub fn send(&self, v: PeerEvent) -> std::result::Result<usize, ()> { unsafe { EVENT_LOG[EVENT_LEN] = Some(v); EVENT_LEN += 1; } Ok(1) }
        pub fn subscribe(&self) -> Receiver<PeerEvent> { Receiver { start: event_len(), _t: std::marker::PhantomData } }
    }
}
// tokio::sync::oneshot: slots in a static table; a channel is its slot index
pub static mut ONESHOT: [Option<std::result::Result<PeerId, ()>>; 32] = [const { None }; 32];
pub static mut ONESHOT_NEXT: usize = 0;
pub mod oneshot {
    use super::*;
    pub mod error { #[derive(Debug, PartialEq)] pub enum TryRecvError { Empty, Closed } }
    pub struct Sender<T> { pub slot: usize, pub _t: std::marker::PhantomData<T> }
    pub struct Receiver<T> { pub slot: usize, pub _t: std::marker::PhantomData<T> }
    pub fn channel<T>() -> (Sender<T>, Receiver<T>) { let s = unsafe { let s = ONESHOT_NEXT; ONESHOT_NEXT += 1; s }; (Sender { slot: s, _t: std::marker::PhantomData }, Receiver { slot: s, _t: std::marker::PhantomData }) }
    impl Sender<Result<PeerId>> {
        pub fn send(self, v: Result<PeerId>) -> std::result::Result<(), Result<PeerId>> { unsafe { ONESHOT[self.slot] = Some(match v { Ok(p) => Ok(p), Err(_) => Err(()) }); } Ok(()) }
    }
    impl Receiver<Result<PeerId>> {
        pub fn try_recv(&mut self) -> std::result::Result<Result<PeerId>, error::TryRecvError> {
            match unsafe { ONESHOT[self.slot].take() } { Some(Ok(p)) => Ok(Ok(p)), Some(Err(())) => Ok(Err(Error)), None => Err(error::TryRecvError::Empty) }
        }
    }
}
pub mod mpsc { pub struct Receiver<T> { pub _t: std::marker::PhantomData<T> } }
#[derive(Clone, Copy, Debug, PartialEq, PartialOrd)]
pub struct Instant(pub u64);      // nanoseconds
impl std::ops::Add<Duration> for Instant { type Output = Instant; fn add(self, d: Duration) -> Instant { Instant(self.0 + d.as_nanos() as u64) } }
pub static mut CLOCK_NS: u64 = 1_000_000_000_000;            // what Instant::now() / elapsed() see
pub static mut ESTABLISHED_NS: [u64; 32] = [1_000_000_000_000; 32];
impl Instant {
    pub fn now() -> Instant { Instant(unsafe { CLOCK_NS }) }
    pub fn elapsed(&self) -> Duration { Duration::from_nanos(unsafe { CLOCK_NS }.saturating_sub(self.0)) }
}
#[derive(Clone, Debug, PartialEq)]
pub struct Address(pub u8);
pub struct Endpoint { pub id: PeerId }
pub static mut ENDPOINT_CLOSED: bool = false;
pub static mut REBINDS: u32 = 0;
pub static mut IDLE_WAITS: u32 = 0;
pub mod net_standin { pub struct UdpSocket; pub fn bind_ephemeral() -> std::io::Result<UdpSocket> { Ok(UdpSocket) } }
impl Endpoint {
    pub fn peer_id(&self) -> PeerId { self.id }
    // quinn: closing the endpoint closes every connection of it (locally) and refuses new ones
    pub fn close(&self) { unsafe { ENDPOINT_CLOSED = true; let mut i = 0; while i < 32 { CLOSED[i] = true; i += 1; } } }
    pub async fn wait_idle(&self, _timeout: std::time::Duration) { unsafe { assert!(ENDPOINT_CLOSED, "waiting for the endpoint to become idle before it was closed: nothing makes it idle"); IDLE_WAITS += 1; } }
    pub fn rebind(&self, _socket: net_standin::UdpSocket) -> std::io::Result<()> { unsafe { REBINDS += 1; } Ok(()) }
}
// crate::connection::Connection: clones share the underlying connection; whether connection `sid` was closed is a static table
pub static mut CLOSED: [bool; 32] = [false; 32];
pub static mut REMOTE_CLOSED: [bool; 32] = [false; 32];      // the other side (or the transport) already ended connection `sid`
pub fn is_closed(sid: usize) -> bool { unsafe { CLOSED[sid] } }
#[derive(Clone, Debug)]
pub struct Connection { pub sid: usize, pub peer: PeerId, pub orig: ConnectionOrigin }
impl Connection {
    pub fn peer_id(&self) -> PeerId { self.peer }
    pub fn origin(&self) -> ConnectionOrigin { self.orig }
    pub fn stable_id(&self) -> usize { self.sid }
    pub fn time_established(&self) -> Instant { Instant(unsafe { ESTABLISHED_NS[self.sid] }) }
    pub fn close(&self) { unsafe { CLOSED[self.sid] = true; } }
    // observers an edit may reach for (quinn: close_reason; a derived is_closed)
    pub fn is_closed(&self) -> bool { unsafe { CLOSED[self.sid] || REMOTE_CLOSED[self.sid] } }
    pub fn close_reason(&self) -> Option<ConnectionError> { unsafe { if REMOTE_CLOSED[self.sid] { Some(ConnectionError::ConnectionClosed(())) } else if CLOSED[self.sid] { Some(ConnectionError::LocallyClosed) } else { None } } }
}
pub struct Svc;
impl Svc { pub fn clone(&self) -> Svc { Svc } }
pub struct InboundRequestHandler { pub sid: usize }
// every request handler ever created: its connection and the active-peer set it reports to (so that a model JoinSet can let it END)
thread_local! { pub static HANDLERS: std::cell::RefCell<Vec<(usize, Connection, ActivePeers)>> = std::cell::RefCell::new(Vec::new()); }
impl InboundRequestHandler {
    pub fn new(_config: Arc<Config>, connection: Connection, _service: Svc, _active_peers: ActivePeers) -> Self { HANDLERS.with(|h| h.borrow_mut().push((connection.sid, connection.clone(), _active_peers.clone()))); InboundRequestHandler { sid: connection.sid } }
    pub fn start(self) -> Task { Task::Handler(self.sid) }
}
// what gets spawned: a dial in progress (with the channel on which its result is reported) or a request handler
pub enum Task { Dial { address: Address, peer_id: Option<PeerId>, oneshot: oneshot::Sender<Result<PeerId>> }, Handler(usize) }
pub struct JoinSet<T> { pub tasks: Vec<Task>, pub _t: std::marker::PhantomData<T> }
impl<T> JoinSet<T> {
    pub fn new() -> Self { JoinSet { tasks: Vec::new(), _t: std::marker::PhantomData } }
    pub fn spawn(&mut self, t: Task) { self.tasks.push(t) }
    pub fn len(&self) -> usize { self.tasks.len() }
    pub async fn shutdown(&mut self) { self.tasks.clear(); }
    // (more of JoinSet's API, for edits that reach for it; aborting is not joining: the tasks may still be running when this returns)
    pub fn abort_all(&mut self) { self.tasks.clear(); }
    pub fn detach_all(&mut self) { self.tasks.clear(); }
    pub fn is_empty(&self) -> bool { self.tasks.is_empty() }
    // the next task to end: a request handler ends when its connection does (the REAL tail of InboundRequestHandler::start then runs)
    pub async fn join_next(&mut self) -> Option<std::result::Result<(), JoinError>> {
        if self.tasks.is_empty() { return None; }
        if let Task::Handler(sid) = self.tasks.remove(0) {
            let found = HANDLERS.with(|h| h.borrow().iter().find(|x| x.0 == sid).map(|x| (x.1.clone(), x.2.clone())));
            if let Some((conn, ap)) = found {
                assert!(conn.is_closed(), "waiting for a connection handler whose connection nobody closed: this wait never ends");
                let reason = if unsafe { REMOTE_CLOSED[sid] } { ConnectionError::ConnectionClosed(()) } else { ConnectionError::LocallyClosed };
                let mut inflight: JoinSet<()> = JoinSet::new();
                block_on(inbound_request_handler_start_tail(&ap, &conn, reason, &mut inflight));
            }
        }
        Some(Ok(()))
    }
}
#[derive(Debug)] pub struct JoinError;
// tokio: a JoinError is a cancellation or a panic; `into_panic` PANICS on a cancellation
impl JoinError {
    pub fn is_cancelled(&self) -> bool { true }
    pub fn is_panic(&self) -> bool { false }
    pub fn into_panic(self) -> Box<dyn std::any::Any + Send + 'static> { panic!("`JoinError` reason is not a panic.") }
    pub fn try_into_panic(self) -> std::result::Result<Box<dyn std::any::Any + Send + 'static>, JoinError> { Err(self) }
}
impl Config { pub fn shutdown_idle_timeout(&self) -> std::time::Duration { std::time::Duration::from_millis(1000) } }
pub struct ConnectionManagerRequest;
// quinn::ConnectionError (payloads dropped) and a one-poll executor for the async tail of the request handler
#[derive(Clone, Copy, Debug)]
pub enum ConnectionError { VersionMismatch, TransportError(()), ConnectionClosed(()), ApplicationClosed(()), Reset, TimedOut, LocallyClosed, CidsExhausted }
pub mod quinn { pub use super::ConnectionError; }
pub fn block_on<F: std::future::Future>(f: F) -> F::Output {
    let mut f = std::pin::pin!(f);
    let mut cx = std::task::Context::from_waker(std::task::Waker::noop());
    match f.as_mut().poll(&mut cx) { std::task::Poll::Ready(v) => v, std::task::Poll::Pending => panic!("stand-in futures are always ready") }
}
pub struct Config {
    pub max_concurrent_outstanding_connecting_connections: Option<usize>,
    pub connection_backoff_ms: Option<u64>,
    pub max_connection_backoff_ms: Option<u64>,
    pub max_concurrent_connections: Option<usize>,
}
'''

HARNESS = r'''
impl ConnectionManager {
    // stand-in for the async task that performs the dial: records what is being dialed and keeps the result channel
    fn dial_peer_task(_endpoint: Arc<Endpoint>, target_address: Address, peer_id: Option<PeerId>, oneshot: oneshot::Sender<Result<PeerId>>, _config: Arc<Config>) -> Task {
        Task::Dial { address: target_address, peer_id, oneshot }
    }
}
// ---------- exhaustive enumeration runtime: a harness asks for choices; the driver runs it once per choice sequence ----------
pub static mut COVER: [u64; 8] = [0; 8];
pub fn cover(i: usize) { unsafe { COVER[i] += 1; } }
pub struct Chooser { pub path: Vec<(u32, u32)>, pub pos: usize }
impl Chooser {
    pub fn below(&mut self, n: u32) -> u32 {
        if self.pos == self.path.len() { self.path.push((0, n)); }
        let c = self.path[self.pos].0; self.pos += 1; c
    }
    pub fn any_bool(&mut self) -> bool { self.below(2) == 1 }
}
fn reset_statics() {
    HANDLERS.with(|h| h.borrow_mut().clear());
    unsafe { ENDPOINT_CLOSED = false; REBINDS = 0; IDLE_WAITS = 0; EVENT_LEN = 0; ONESHOT_NEXT = 0; CLOCK_NS = 1_000_000_000_000; let mut i = 0; while i < 32 { EVENT_LOG[i] = None; ONESHOT[i] = None; CLOSED[i] = false; REMOTE_CLOSED[i] = false; ESTABLISHED_NS[i] = 1_000_000_000_000; i += 1; } }
}
fn run_all(name: &str, f: fn(&mut Chooser)) {
    let mut path: Vec<(u32, u32)> = Vec::new();
    let (mut runs, mut failures, mut first): (u64, u64, Option<(Vec<u32>, String)>) = (0, 0, None);
    loop {
        reset_statics();
        let mut ch = Chooser { path: path.clone(), pos: 0 };
        let res = std::panic::catch_unwind(std::panic::AssertUnwindSafe(|| f(&mut ch)));
        runs += 1;
        path = ch.path;
        if let Err(e) = res {
            failures += 1;
            if first.is_none() {
                let msg = e.downcast_ref::<String>().cloned().or_else(|| e.downcast_ref::<&str>().map(|s| s.to_string())).unwrap_or_default();
                first = Some((path.iter().map(|c| c.0).collect(), msg));
            }
        }
        // next choice sequence (depth-first, last choice first)
        while let Some((c, n)) = path.pop() { if c + 1 < n { path.push((c + 1, n)); break; } }
        if path.is_empty() { break; }
    }
    let (p, m) = first.unwrap_or_default();
    let cov = unsafe { let c = COVER; COVER = [0; 8]; c };
    println!("{{\"harness\": \"{}\", \"runs\": {}, \"failures\": {}, \"first_failing_choices\": {:?}, \"message\": {:?}, \"cover\": {:?}}}", name, runs, failures, p, m, cov);
}
pub fn main() {
    let args: Vec<String> = std::env::args().collect();
    if args.len() == 4 && args[1] == "--replay" {
        // re-run ONE choice sequence with the panic message visible
        let choices: Vec<(u32, u32)> = args[3].split(',').filter(|s| !s.is_empty()).map(|s| (s.trim().parse().unwrap(), u32::MAX)).collect();
        let f: fn(&mut Chooser) = match args[2].as_str() { "active_peers_history" => harness::active_peers_history, "mutual_dial_converges" => harness::mutual_dial_converges, "who_is_dialed" => harness::who_is_dialed, "dial_races_inbound_connect" => harness::dial_races_inbound_connect, "closed_connection_bookkeeping" => harness::closed_connection_bookkeeping, "shutdown_after_history" => harness::shutdown_after_history, "backoff_configurations" => harness::backoff_configurations, "known_peers_table" => harness::known_peers_table, "mutual_dial_through_manager" => harness::mutual_dial_through_manager, "known_peers_change_during_dial" => harness::known_peers_change_during_dial, _ => harness::background_dialing_ticks };
        reset_statics();
        let mut ch = Chooser { path: choices, pos: 0 };
        f(&mut ch);
        println!("no assertion failed for this choice sequence");
        return;
    }
    std::panic::set_hook(Box::new(|_| {}));
    run_all("active_peers_history", harness::active_peers_history);
    run_all("mutual_dial_converges", harness::mutual_dial_converges);
    run_all("who_is_dialed", harness::who_is_dialed);
    run_all("background_dialing_ticks", harness::background_dialing_ticks);
    run_all("dial_races_inbound_connect", harness::dial_races_inbound_connect);
    run_all("closed_connection_bookkeeping", harness::closed_connection_bookkeeping);
    run_all("shutdown_after_history", harness::shutdown_after_history);
    run_all("backoff_configurations", harness::backoff_configurations);
    run_all("known_peers_table", harness::known_peers_table);
    run_all("mutual_dial_through_manager", harness::mutual_dial_through_manager);
    run_all("known_peers_change_during_dial", harness::known_peers_change_during_dial);
}
pub mod harness {
    use super::*;
    const ME: PeerId = PeerId([9; 32]);
    const P1: PeerId = PeerId([1; 32]);
    const P2: PeerId = PeerId([2; 32]);
    const P3: PeerId = PeerId([3; 32]);
    const LOW: PeerId = PeerId([0; 32]);       // an own id SMALLER than every peer's: our dial loses a simultaneous-dial tie-break
    fn conn(sid: usize, peer: PeerId, orig: ConnectionOrigin) -> Connection { Connection { sid, peer, orig } }
    fn any_origin(ch: &mut Chooser) -> ConnectionOrigin { if ch.any_bool() { ConnectionOrigin::Inbound } else { ConnectionOrigin::Outbound } }
    fn any_affinity(ch: &mut Chooser) -> PeerAffinity { let a = ch.below(3); if a == 0 { PeerAffinity::High } else if a == 1 { PeerAffinity::Allowed } else { PeerAffinity::Never } }

    // ---------------- C04 / C05: histories over the active-peer set ----------------
    // reference: replay an event log strictly (a NewPeer of a present peer or a LostPeer of an absent one is a violation)
    fn replay(upto: usize) -> Option<(bool, bool)> {
        let (mut a, mut b) = (false, false);
        let mut i = 0;
        while i < upto {
            match &event(i) {
                PeerEvent::NewPeer(p) => { if *p == P1 { if a { return None; } a = true; } else { if b { return None; } b = true; } }
                PeerEvent::LostPeer(p, _) => { if *p == P1 { if !a { return None; } a = false; } else { if !b { return None; } b = false; } }
            }
            i += 1;
        }
        Some((a, b))
    }
    pub fn active_peers_history(ch: &mut Chooser) { // @EOBL [C04,C05,C06,C09] @BOUNDED every history of 4 operations (add / remove / remove_with_stable_id / subscribe / the remote end closing a connection before any handler notices) over 2 peers and 4 connections of either origin: after every step the listing (both the map and what peers() answers) has no duplicates, holds no closed connection, equals the strict replay of the event log (events alternate), a subscription snapshot plus later events reproduces the listing, every closed-and-unlisted connection is really closed, and each wrapper call is exactly one lock acquisition
        let ap = ActivePeers::new(8);
        let conns = [conn(0, P1, any_origin(ch)), conn(1, P1, any_origin(ch)), conn(2, P2, any_origin(ch)), conn(3, P1, any_origin(ch))];
        let mut added = [false; 4];
        let mut snapshot: Option<(usize, Vec<PeerId>)> = None;
        let mut step = 0;
        while step < 4 {
            let before = ap.0.acquisitions.get();
            let op = ch.below(5);
            let k = ch.below(4) as usize;
            if op == 4 {
                // the other side (or the transport) ends connection k: quinn marks it closed, no handler has run yet
                if added[k] { unsafe { REMOTE_CLOSED[conns[k].sid] = true; } cover(2); }
            } else if op == 0 {
                if !added[k] { added[k] = true; if ap.0.cell.borrow().connections.contains_key(&conns[k].peer) { cover(0); } let _ = ap.add(&ME, conns[k].clone()); assert!(ap.0.acquisitions.get() == before + 1); }
            } else if op == 1 {
                let p = if ch.any_bool() { P1 } else { P2 };
                ap.remove(&p, DisconnectReason::Requested); assert!(ap.0.acquisitions.get() == before + 1);
            } else if op == 2 {
                if added[k] {
                    // the handler of connection k exits (for any reason the connection can end): the REAL tail of InboundRequestHandler::start runs
                    let reasons = [ConnectionError::ConnectionClosed(()), ConnectionError::LocallyClosed, ConnectionError::TimedOut, ConnectionError::ApplicationClosed(())];
                    let reason = reasons[ch.below(4) as usize];
                    let stored_is_k = { let g = ap.0.cell.borrow(); match g.connections.get(&conns[k].peer) { Some(c) => c.sid == conns[k].sid, None => false } };
                    let (len0, ev0, closed0) = (ap.0.cell.borrow().connections.len(), event_len(), [is_closed(0), is_closed(1), is_closed(2), is_closed(3)]);
                    let mut inflight: JoinSet<()> = JoinSet::new();
                    block_on(inbound_request_handler_start_tail(&ap, &conns[k], reason, &mut inflight));
                    assert!(ap.0.acquisitions.get() == before + 1, "a handler exit must look at and update the active-peer set in ONE critical section (check-then-act across two acquisitions races with a replacement)");
                    if !stored_is_k {
                        // "the end of an older, replaced connection never removes or disturbs its replacement"
                        assert!(ap.0.cell.borrow().connections.len() == len0 && event_len() == ev0, "the exit of a connection that is not the registered one changed the listing or emitted an event");
                        assert!([is_closed(0), is_closed(1), is_closed(2), is_closed(3)] == closed0, "the exit of a connection that is not the registered one closed a connection");
                    } else { cover(1); }
                }
            } else if snapshot.is_none() {
                let (rx, peers) = ap.subscribe(); assert!(ap.0.acquisitions.get() == before + 1);
                snapshot = Some((rx.start, peers));
            }
            // ---- invariants after every step ----
            // the PUBLIC listing (what peers() answers right now) is what the change log has to reproduce, at every instant
            let listing = ap.peers();
            let inner = ap.0.cell.borrow();
            let listed1 = inner.connections.contains_key(&P1);
            let listed2 = inner.connections.contains_key(&P2);
            assert!(inner.connections.len() == (listed1 as usize) + (listed2 as usize));           // no duplicates
            let r = replay(event_len());
            assert!(r == Some((listed1, listed2)));                                              // exact change log, strictly alternating
            assert!(listing.len() == (listing.contains(&P1) as usize) + (listing.contains(&P2) as usize), "the listing names a peer twice");
            assert!(r == Some((listing.contains(&P1), listing.contains(&P2))), "the listing peers() returns differs from what the event stream says (snapshot + events must reproduce the CURRENT listing at every instant)");
            let mut i = 0;
            while i < 4 {
                let stored = match inner.connections.get(&conns[i].peer) { Some(c) => c.sid == conns[i].sid, None => false };
                if stored { assert!(!is_closed(conns[i].sid)); assert!(added[i]); }                // no listed connection is closed
                if added[i] && !stored { assert!(is_closed(conns[i].sid)); }                       // at most one live connection per peer: every admitted, unlisted one was closed
                i += 1;
            }
            if let Some((start, peers)) = &snapshot {                                            // snapshot + later events == listing
                let s = replay(*start);
                assert!(s.is_some());
                let (a0, b0) = s.unwrap();
                assert!(peers.len() == (a0 as usize) + (b0 as usize));
                assert!(peers.contains(&P1) == a0 && peers.contains(&P2) == b0);
            }
            step += 1;
        }
    }
    pub fn mutual_dial_converges(ch: &mut Chooser) { // @EOBL [C05] @BOUNDED one node, two connections to the same peer (one dialed by each side), both arrival orders, then the loser's handler exit: the survivor is the connection dialed by the greater id whatever the order, the loser is closed, its late exit changes nothing
        let remote_greater = ch.any_bool();
        let (own, remote) = if remote_greater { (P1, P2) } else { (P2, P1) };
        let ap = ActivePeers::new(8);
        let co = conn(10, remote, ConnectionOrigin::Outbound);
        let ci = conn(11, remote, ConnectionOrigin::Inbound);
        // the two handshakes may complete any time apart (still within the connect timeout): the earlier one is 0 s, 1 s, 3 s or 9 s old
        let age = ch.below(4); unsafe { let a = if age == 0 { 0 } else if age == 1 { 1_000_000_000 } else if age == 2 { 3_000_000_000 } else { 9_000_000_000 }; ESTABLISHED_NS[10] = CLOCK_NS - a; ESTABLISHED_NS[11] = CLOCK_NS - a; }
        if ch.any_bool() { let _ = ap.add(&own, co.clone()); let _ = ap.add(&own, ci.clone()); } else { let _ = ap.add(&own, ci.clone()); let _ = ap.add(&own, co.clone()); }
        let (winner, loser) = if remote_greater { (&ci, &co) } else { (&co, &ci) };
        assert!(ap.get(&remote).map(|c| c.sid) == Some(winner.sid));
        assert!(is_closed(loser.sid) && !is_closed(winner.sid));
        let reasons = [ConnectionError::LocallyClosed, ConnectionError::ApplicationClosed(()), ConnectionError::ConnectionClosed(()), ConnectionError::TimedOut];
        let mut inflight: JoinSet<()> = JoinSet::new();
        block_on(inbound_request_handler_start_tail(&ap, loser, reasons[ch.below(4) as usize], &mut inflight));
        assert!(ap.get(&remote).map(|c| c.sid) == Some(winner.sid) && !is_closed(winner.sid));
        let n = event_len();
        assert!(n == 1 || n == 3);
    }
    pub fn mutual_dial_through_manager(ch: &mut Chooser) { // @EOBL [C05] @BOUNDED a mutual dial whose two connections (one dialed by each side, both already past admission and the acknowledgement handshake) are registered through ConnectionManager::add_peer in either order, on a node with no connection limit or a limit of 1 or 2, the remote peer unknown or known with Allowed affinity, possibly one other peer already connected: exactly one connection to the remote survives, it is the one dialed by the greater PeerId, the other is closed and a request handler runs for the survivor
        let remote_greater = ch.any_bool();
        let (own, remote) = if remote_greater { (P1, P2) } else { (P2, P1) };
        let lim = ch.below(3);
        let config = Arc::new(Config { max_concurrent_outstanding_connecting_connections: Some(100), connection_backoff_ms: None, max_connection_backoff_ms: None,
                                       max_concurrent_connections: if lim == 0 { None } else { Some(lim as usize) } });
        let mut known = KnownPeers::new();
        if ch.any_bool() { known.insert(PeerInfo { peer_id: remote, affinity: PeerAffinity::Allowed, address: vec![] }); }
        let mut cm = ConnectionManager {
            config, endpoint: Arc::new(Endpoint { id: own }), mailbox: mpsc::Receiver { _t: std::marker::PhantomData },
            pending_connections: JoinSet::new(), connection_handlers: JoinSet::new(), pending_dials: HashMap::default(), dial_backoff_states: HashMap::default(),
            active_peers: ActivePeers::new(8), known_peers: known, service: Svc,
        };
        if ch.any_bool() { cm.add_peer(conn(12, ME, ConnectionOrigin::Outbound)); cover(1); }      // somebody else is already connected
        let co = conn(10, remote, ConnectionOrigin::Outbound);
        let ci = conn(11, remote, ConnectionOrigin::Inbound);
        if ch.any_bool() { cm.add_peer(co.clone()); cm.add_peer(ci.clone()); } else { cover(0); cm.add_peer(ci.clone()); cm.add_peer(co.clone()); }
        let (winner, loser) = if remote_greater { (&ci, &co) } else { (&co, &ci) };
        assert!(cm.active_peers.get(&remote).map(|c| c.sid) == Some(winner.sid), "after a mutual dial the node does not hold the connection dialed by the greater id");
        assert!(is_closed(loser.sid) && !is_closed(winner.sid), "the losing connection of a mutual dial is not closed (or the winner is)");
        assert!(cm.connection_handlers.tasks.iter().any(|t| matches!(t, Task::Handler(sid) if *sid == winner.sid)), "no request handler runs for the surviving connection");
    }

    // ---------------- C13: background dialing over a few ticks ----------------
    struct Model { fails: [u32; 2], noticed: [u64; 2], outcome_unnoticed: [u8; 2], dialing: [bool; 2], connected: [bool; 2], known: [bool; 2] }   // outcome: 0 none, 1 failed, 2 succeeded
    fn dial_log(cm: &ConnectionManager, from: usize) -> Vec<(u8, PeerId)> {
        let mut v = Vec::new();
        let mut i = from;
        while i < cm.pending_connections.tasks.len() { if let Task::Dial { address, peer_id, .. } = &cm.pending_connections.tasks[i] { v.push((address.0, peer_id.unwrap())); } i += 1; }
        v
    }
    pub fn who_is_dialed(ch: &mut Chooser) { // @EOBL [C13,C10] @BOUNDED one connectivity check over every table of 2 known peers (each High / Allowed / Never, 0..2 addresses, the first possibly ourselves, the second possibly already connected), cap 1 or 100, no connection limit or a limit of 0 / 1 / 2 with or without an unrelated peer holding a connection (background dials to High-affinity peers are never blocked by the connection limit): exactly the peers the statement names are dialed (never ourselves, Allowed / Never peers, peers without address, connected peers), at their first address
        let cap: usize = if ch.any_bool() { 1 } else { 100 };
        let ids = [if ch.any_bool() { ME } else { P1 }, P2];
        let aff = [any_affinity(ch), any_affinity(ch)];
        let naddr: [usize; 2] = [ch.below(3) as usize, ch.below(3) as usize];
        let connected1 = ch.any_bool();
        let limit: Option<usize> = match ch.below(4) { 0 => None, 1 => Some(0), 2 => Some(1), _ => Some(2) };
        let unrelated = ch.any_bool();      // an unrelated peer holds a connection (and a slot of the limit)
        if limit.is_some() && unrelated { cover(1); }
        dialing_run(ch, cap, ids, aff, naddr, connected1, 1, false, false, limit, unrelated);
    }
    pub fn background_dialing_ticks(ch: &mut Chooser) { // @EOBL [C13] @BOUNDED every run of 4 connectivity checks over 2 High-affinity peers with 1..2 addresses each, cap 1 or 100, every dial in flight failing, succeeding or staying in flight, established connections possibly lost again, time advancing by 1s/10s/61s: never two concurrent dials to a peer, addresses rotate by CONSECUTIVE failure count, after k consecutive failures the next dial comes strictly later than noticed + min(60s, k x 10s), the cap on connections being established is respected, and at every check exactly min(eligible, free slots) dials are started (no eligible peer is left waiting while slots are free)
        let cap: usize = if ch.any_bool() { 1 } else { 100 };
        let naddr: [usize; 2] = [1 + ch.below(2) as usize, 1 + ch.below(2) as usize];
        dialing_run(ch, cap, [P1, P2], [PeerAffinity::High, PeerAffinity::High], naddr, false, 4, false, false, None, false);
    }
    pub fn closed_connection_bookkeeping(ch: &mut Chooser) { // @EOBL [C09,C04] @BOUNDED every sequence of 3 operations (register connection 0 / register connection 1 through ConnectionManager::add_peer, explicit disconnect, exit of a running handler) over two connections of one peer, each of which may ALREADY have been ended by the remote side or the transport when the operation runs: after every step the event log replays to the listing, every listed connection has a running handler (the one whose exit reports its loss), and an explicit disconnect of a listed peer removes it at once and appends exactly LostPeer(peer, Requested)
        let config = Arc::new(Config { max_concurrent_outstanding_connecting_connections: Some(100), connection_backoff_ms: Some(10_000), max_connection_backoff_ms: Some(60_000), max_concurrent_connections: None });
        let mut cm = ConnectionManager {
            config, endpoint: Arc::new(Endpoint { id: ME }), mailbox: mpsc::Receiver { _t: std::marker::PhantomData },
            pending_connections: JoinSet::new(), connection_handlers: JoinSet::new(), pending_dials: HashMap::default(), dial_backoff_states: HashMap::default(),
            active_peers: ActivePeers::new(8), known_peers: KnownPeers::new(), service: Svc,
        };
        let conns = [conn(20, P1, any_origin(ch)), conn(21, P1, any_origin(ch))];
        unsafe { REMOTE_CLOSED[20] = ch.any_bool(); REMOTE_CLOSED[21] = ch.any_bool(); }
        if unsafe { REMOTE_CLOSED[20] || REMOTE_CLOSED[21] } { cover(0); }
        let mut added = [false; 2];
        let mut running: Vec<usize> = Vec::new();          // handlers spawned and not yet exited
        let mut step = 0;
        while step < 3 {
            let op = ch.below(4);
            let handlers_before = cm.connection_handlers.tasks.len();
            if op < 2 {
                let k = op as usize;
                if !added[k] { added[k] = true; cm.add_peer(conns[k].clone());
                    let mut t = handlers_before; while t < cm.connection_handlers.tasks.len() { if let Task::Handler(sid) = &cm.connection_handlers.tasks[t] { running.push(*sid); } t += 1; } }
            } else if op == 2 {
                let listed = cm.active_peers.0.cell.borrow().connections.contains_key(&P1);
                let ev0 = event_len();
                cm.active_peers.remove(&P1, DisconnectReason::Requested);
                assert!(!cm.active_peers.0.cell.borrow().connections.contains_key(&P1), "an explicit disconnect left the peer listed");
                if listed { cover(1);
                    assert!(event_len() == ev0 + 1 && matches!(event(ev0), PeerEvent::LostPeer(p, DisconnectReason::Requested) if p == P1), "an explicit disconnect of a listed peer must append exactly LostPeer(peer, Requested)"); }
                else { assert!(event_len() == ev0, "disconnecting a peer that is not listed must not emit an event"); }
            } else if !running.is_empty() {
                let sid = running.remove(0);
                let k = sid - 20;
                let mut inflight: JoinSet<()> = JoinSet::new();
                block_on(inbound_request_handler_start_tail(&cm.active_peers, &conns[k], ConnectionError::ConnectionClosed(()), &mut inflight));
            }
            // ---- after every step ----
            let inner = cm.active_peers.0.cell.borrow();
            let listed = inner.connections.contains_key(&P1);
            assert!(replay(event_len()) == Some((listed, false)), "the event log no longer replays to the listing");
            if let Some(c) = inner.connections.get(&P1) { cover(2); assert!(running.contains(&c.sid), "a listed connection has no running handler: its loss would never be reported"); }
            step += 1;
        }
    }
    pub fn shutdown_after_history(ch: &mut Chooser) { // @EOBL [C08,C04] @BOUNDED the real ConnectionManager::shutdown after every history of 3 operations (register one of three connections -- two of peer 1, one of peer 2 -- through add_peer, explicit disconnect of peer 1, exit of a running handler), each connection possibly ALREADY ended by the remote side: shutdown closes the endpoint before it waits for anything, never waits for a handler whose connection nobody closed, never panics (its own assertion that no peer is left holds), and afterwards the listing is empty, every registered connection is closed, the event log replays to the empty listing (a LostPeer for every peer that was listed), the endpoint was waited idle and the socket was swapped out
        let config = Arc::new(Config { max_concurrent_outstanding_connecting_connections: Some(100), connection_backoff_ms: Some(10_000), max_connection_backoff_ms: Some(60_000), max_concurrent_connections: None });
        let mut cm = ConnectionManager {
            config, endpoint: Arc::new(Endpoint { id: ME }), mailbox: mpsc::Receiver { _t: std::marker::PhantomData },
            pending_connections: JoinSet::new(), connection_handlers: JoinSet::new(), pending_dials: HashMap::default(), dial_backoff_states: HashMap::default(),
            active_peers: ActivePeers::new(8), known_peers: KnownPeers::new(), service: Svc,
        };
        let conns = [conn(20, P1, any_origin(ch)), conn(21, P1, any_origin(ch)), conn(22, P2, any_origin(ch))];
        unsafe { REMOTE_CLOSED[20] = ch.any_bool(); REMOTE_CLOSED[22] = ch.any_bool(); }
        let mut added = [false; 3];
        let mut step = 0;
        while step < 3 {
            let op = ch.below(5);
            if op < 3 { let k = op as usize; if !added[k] { added[k] = true; cm.add_peer(conns[k].clone()); } }
            else if op == 3 { cm.active_peers.remove(&P1, DisconnectReason::Requested); }
            else if !cm.connection_handlers.tasks.is_empty() {
                // a running handler whose connection has ended exits on its own
                let mut idx = None; let mut t = 0;
                while t < cm.connection_handlers.tasks.len() { if let Task::Handler(sid) = &cm.connection_handlers.tasks[t] { if conns[*sid - 20].is_closed() { idx = Some(t); } } t += 1; }
                if let Some(t) = idx { if let Task::Handler(sid) = cm.connection_handlers.tasks.remove(t) { let mut inflight: JoinSet<()> = JoinSet::new(); let r = if unsafe { REMOTE_CLOSED[sid] } { ConnectionError::ConnectionClosed(()) } else { ConnectionError::LocallyClosed }; block_on(inbound_request_handler_start_tail(&cm.active_peers, &conns[sid - 20], r, &mut inflight)); cover(0); } }
            }
            step += 1;
        }
        let ap = cm.active_peers.clone();
        let listed_before = ap.0.cell.borrow().connections.len();
        if listed_before > 0 { cover(1); }
        if listed_before > 1 { cover(2); }
        block_on(cm.shutdown());
        assert!(unsafe { ENDPOINT_CLOSED }, "shutdown did not close the endpoint");
        assert!(ap.0.cell.borrow().connections.is_empty(), "peers are still listed after shutdown");
        let mut k = 0; while k < 3 { if added[k] { assert!(is_closed(conns[k].sid), "a registered connection was not closed by shutdown"); } k += 1; }
        assert!(replay(event_len()) == Some((false, false)), "the event log does not replay to the empty listing after shutdown (a listed peer got no LostPeer, or one got two)");
        assert!(unsafe { IDLE_WAITS } >= 1 && unsafe { REBINDS } >= 1, "shutdown did not wait for the endpoint to be idle, or did not swap the socket out");
    }
    pub fn backoff_configurations(ch: &mut Chooser) { // @EOBL [C13] @BOUNDED DialBackoffState::{new, update} for every back-off configuration out of step 0 / 5 s / 10 s (or unset) x cap 0 / 5 s / 10 s / 60 s (or unset) -- including a cap BELOW the step -- and 1..4 consecutive failures: never a panic; after k failures the next attempt is allowed exactly min(cap, k x step) after the failure was noticed
        let step = [None, Some(0u64), Some(5_000), Some(10_000)][ch.below(4) as usize];
        let cap = [None, Some(0u64), Some(5_000), Some(10_000), Some(60_000)][ch.below(5) as usize];
        let config = Config { max_concurrent_outstanding_connecting_connections: None, connection_backoff_ms: step, max_connection_backoff_ms: cap, max_concurrent_connections: None };
        let (s_ms, c_ms) = (step.unwrap_or(10_000), cap.unwrap_or(60_000));        // the documented defaults
        if c_ms < s_ms { cover(0); }
        let now = Instant(1_000_000_000_000);
        // (the two durations are read through the real Config accessors, as handle_connectivity_check does)
        let mut st = DialBackoffState::new(now, config.connection_backoff(), config.max_connection_backoff());
        let k = 1 + ch.below(4) as u64;
        let mut i = 1; while i < k { st.update(now, config.connection_backoff(), config.max_connection_backoff()); i += 1; }
        let want = std::cmp::min(c_ms, s_ms.saturating_mul(k)) * 1_000_000;
        assert!(st.attempts as u64 == k, "the count of consecutive failures is wrong");
        assert!(st.backoff.0 == now.0 + want, "after k failures the next attempt must be allowed exactly min(cap, k x step) after the failure was noticed");
    }
    pub fn known_peers_table(ch: &mut Chooser) { // @EOBL [C10,C13] @BOUNDED every history of 3 insertions / removals in the known-peer table over 2 peers, each insertion with any affinity (High / Allowed / Never) and 0 or 1 address: the table is a map -- after insert(info) the entry of that peer IS info (affinity and addresses as given, whatever was there before), insert and remove return what was there before, other peers' entries are untouched
        fn aff_no(a: &PeerAffinity) -> u8 { match a { PeerAffinity::High => 0, PeerAffinity::Allowed => 1, PeerAffinity::Never => 2 } }
        let kp = KnownPeers::new();
        let mut model: [Option<(u8, usize)>; 2] = [None, None];
        let ids = [P1, P2];
        let mut step = 0;
        while step < 3 {
            let p = ch.below(2) as usize;
            if ch.below(3) < 2 {
                let aff = any_affinity(ch); let n = ch.below(2) as usize;
                let mut address = Vec::new(); if n == 1 { address.push(Address(7)); }
                let before = kp.insert(PeerInfo { peer_id: ids[p], affinity: aff.clone(), address });
                assert!(before.as_ref().map(|i| (aff_no(&i.affinity), i.address.len())) == model[p], "insert did not return the entry that was there before");
                if model[p].is_some() { cover(0); if model[p].map(|m| m.0) != Some(aff_no(&aff)) { cover(1); } }
                model[p] = Some((aff_no(&aff), n));
            } else {
                let before = kp.remove(&ids[p]);
                assert!(before.as_ref().map(|i| (aff_no(&i.affinity), i.address.len())) == model[p], "remove did not return the entry that was there");
                model[p] = None;
            }
            let mut q = 0;
            while q < 2 { let got = kp.get(&ids[q]); assert!(got.as_ref().map(|i| (aff_no(&i.affinity), i.address.len())) == model[q] && got.map_or(true, |i| i.peer_id == ids[q]), "the known-peer table does not hold what was last inserted for a peer (its affinity or its addresses)"); q += 1; }
            step += 1;
        }
    }
    pub fn dial_races_inbound_connect(ch: &mut Chooser) { // @EOBL [C13,C06] @BOUNDED every run of 3 connectivity checks over 2 High-affinity peers (one address each, no cap) in which a peer that is being dialed may itself connect to us before that dial completes (our own id greater or smaller than the peer's, so that our dial wins or loses the tie-break), the dial then failing, succeeding or staying in flight: the connection manager never panics (in particular every dial it started is answered to whoever waits for it), never dials a connected peer, and the back-off / rotation / one-dial-per-peer rules still hold
        dialing_run(ch, 100, [P1, P2], [PeerAffinity::High, PeerAffinity::High], [1, 1], false, 3, true, false, None, false);
    }
    pub fn known_peers_change_during_dial(ch: &mut Chooser) { // @EOBL [C13] @BOUNDED every run of 3 connectivity checks over 2 High-affinity peers (one address each, no cap) in which, between checks, a known peer may be removed from the known-peer table and put back (as an application updating a peer does) while its dial fails, succeeds or stays in flight: a peer is never dialed while an earlier dial to it is still in flight, a peer that is not known is not dialed, and the back-off / rotation rules still hold
        dialing_run(ch, 100, [P1, P2], [PeerAffinity::High, PeerAffinity::High], [1, 1], false, 3, false, true, None, false);
    }
    fn dialing_run(ch: &mut Chooser, cap: usize, ids: [PeerId; 2], aff: [PeerAffinity; 2], naddr: [usize; 2], connected1: bool, ticks: usize, inbound_race: bool, churn: bool, limit: Option<usize>, unrelated: bool) {
        let config = Arc::new(Config { max_concurrent_outstanding_connecting_connections: Some(cap), connection_backoff_ms: None, max_connection_backoff_ms: None, max_concurrent_connections: limit });
        // (when peers may dial us at the same time, our own id is either greater than theirs -- our dial wins the tie-break -- or smaller -- it loses)
        let own = if inbound_race && ch.any_bool() { cover(6); LOW } else { ME };
        let known = KnownPeers::new();
        let mut i = 0;
        while i < 2 {
            let mut address = Vec::new();
            let mut j = 0; while j < naddr[i] { address.push(Address((10 * i + j) as u8)); j += 1; }
            known.insert(PeerInfo { peer_id: ids[i], affinity: aff[i], address });
            i += 1;
        }
        let active = ActivePeers::new(8);
        if connected1 { let _ = active.add(&own, conn(1, P2, ConnectionOrigin::Inbound)); }
        if unrelated { let _ = active.add(&own, conn(5, P3, ConnectionOrigin::Inbound)); }
        let mut cm = ConnectionManager {
            config, endpoint: Arc::new(Endpoint { id: own }), mailbox: mpsc::Receiver { _t: std::marker::PhantomData },
            pending_connections: JoinSet::new(), connection_handlers: JoinSet::new(), pending_dials: HashMap::default(), dial_backoff_states: HashMap::default(),
            active_peers: active, known_peers: known, service: Svc,
        };
        let mut m = Model { fails: [0; 2], noticed: [0; 2], outcome_unnoticed: [0; 2], dialing: [false; 2], connected: [false, connected1], known: [true; 2] };
        let mut now = Instant(1_000_000_000_000);
        let mut next_sid = 2;
        let mut tick = 0;
        while tick < ticks {
            // what this check will notice about dials that completed since the last one
            let mut p = 0;
            while p < 2 {
                if m.outcome_unnoticed[p] == 1 { m.fails[p] += 1; m.noticed[p] = now.0; m.dialing[p] = false; }
                if m.outcome_unnoticed[p] == 2 { m.fails[p] = 0; m.dialing[p] = false; }        // a success ends the run of CONSECUTIVE failures
                m.outcome_unnoticed[p] = 0;
                p += 1;
            }
            // who the statement says must be dialed now
            let mut eligible = 0;
            let mut p = 0;
            while p < 2 {
                let waited = m.fails[p] == 0 || now.0 > m.noticed[p] + std::cmp::min(60_000_000_000u64, 10_000_000_000u64 * m.fails[p] as u64);
                if m.known[p] && matches!(aff[p], PeerAffinity::High) && ids[p] != ME && naddr[p] > 0 && !m.connected[p] && !m.dialing[p] && waited { eligible += 1; }
                p += 1;
            }
            let before = cm.pending_connections.tasks.len();
            cm.handle_connectivity_check(now);
            let dials = dial_log(&cm, before);
            assert!(cm.pending_connections.tasks.len() <= std::cmp::max(cap, before), "cap on connections being established exceeded");
            assert!(dials.len() == std::cmp::min(eligible, cap.saturating_sub(before)), "number of dials started differs from min(eligible peers, free slots)");
            let mut d = 0;
            while d < dials.len() {
                let (addr, who) = dials[d];
                let p = if who == ids[0] { 0 } else { 1 };
                assert!(who == ids[p]);
                assert!(matches!(aff[p], PeerAffinity::High) && who != ME && naddr[p] > 0 && m.known[p], "dialed a peer that must never be background-dialed");
                assert!(!m.connected[p], "dialed a connected peer");
                assert!(!m.dialing[p], "dialed a peer that is already being dialed");
                if m.fails[p] > 0 { cover(1); if m.fails[p] > 1 { cover(2); }
                    let wait = std::cmp::min(60_000_000_000u64, 10_000_000_000u64 * m.fails[p] as u64);
                    assert!(now.0 > m.noticed[p] + wait, "dialed sooner than min(max-backoff, k x step) after the failure was noticed");
                }
                assert!(addr == (10 * p + (m.fails[p] as usize % naddr[p])) as u8, "address rotation does not follow the consecutive-failure count");
                m.dialing[p] = true; cover(0);
                d += 1;
            }
            // a peer we are dialing may meanwhile connect to us (its own dial won the race): the dial in flight then still completes, either way
            let mut p = 0;
            while p < 2 {
                if inbound_race && m.dialing[p] && !m.connected[p] && ch.any_bool() { next_sid += 1; let _ = cm.active_peers.add(&own, conn(next_sid, ids[p], ConnectionOrigin::Inbound)); m.connected[p] = true; cover(5); }
                p += 1;
            }
            // let some of the dials in flight complete: failure or success (the event loop hands the result to handle_connecting_result)
            let mut t = 0;
            while t < cm.pending_connections.tasks.len() {
                let outcome = ch.below(3);          // 0 stays in flight, 1 fails, 2 succeeds
                if outcome != 0 {
                    if let Task::Dial { address, peer_id, oneshot } = cm.pending_connections.tasks.remove(t) {
                        let who = peer_id.unwrap();
                        let p = if who == ids[0] { 0 } else { 1 };
                        m.outcome_unnoticed[p] = outcome as u8;
                        let result = if outcome == 1 { Err(Error) } else { next_sid += 1; m.connected[p] = true; cover(3); Ok(conn(next_sid, who, ConnectionOrigin::Outbound)) };
                        cm.handle_connecting_result(ConnectingOutput { connecting_result: result, maybe_oneshot: Some(oneshot), target_address: Some(address), target_peer_id: peer_id });
                    }
                } else { t += 1; }
            }
            // the application may take a peer out of the known-peer table and put it back (that is how an entry is updated)
            if churn {
                let mut p = 0;
                while p < 2 {
                    if ch.any_bool() {
                        if m.known[p] { let _ = cm.known_peers.remove(&ids[p]); m.known[p] = false; cover(6); }
                        else { let mut address = Vec::new(); let mut j = 0; while j < naddr[p] { address.push(Address((10 * p + j) as u8)); j += 1; }
                               cm.known_peers.insert(PeerInfo { peer_id: ids[p], affinity: aff[p], address }); m.known[p] = true; cover(7); }
                    }
                    p += 1;
                }
            }
            // an established connection may be lost again before the next check
            let mut p = 0;
            while p < 2 { if m.connected[p] && ch.any_bool() { cm.active_peers.remove(&ids[p], DisconnectReason::ConnectionClosed); m.connected[p] = false; cover(4); } p += 1; }
            let dt = ch.below(3);
            now = now + if dt == 0 { Duration::from_secs(1) } else if dt == 1 { Duration::from_secs(10) } else { Duration::from_secs(61) };
            tick += 1;
        }
    }
}
'''


def build(ctx):
    C = ctx
    C.helper_rewrites = [dict(rule='X5', pattern='std::time::Instant', repl='Instant'), dict(rule='X5', pattern='std::time::Duration', repl='Duration'),
                         dict(rule='X5', pattern='std::sync::RwLock', repl='RwLock')]
    t = PRELUDE
    t += P.peer_types(C).replace('#[derive(Copy, Clone, Hash, PartialEq, Eq, PartialOrd, Ord)]\npub struct PeerId', '#[derive(Copy, Clone, Hash, PartialEq, Eq, PartialOrd, Ord, Debug)]\npub struct PeerId')
    t = t.replace('#[derive(Clone, Copy, Hash, PartialEq, Eq)]\npub struct ConnectionOrigin', '#[derive(Clone, Copy, Hash, PartialEq, Eq, Debug)]\npub struct ConnectionOrigin')
    t = t.replace('#[derive(Clone, Copy, Hash, PartialEq, Eq)]\npub enum Direction', '#[derive(Clone, Copy, Hash, PartialEq, Eq, Debug)]\npub enum Direction')
    t += C.item(TYPES, 'enum DisconnectReason', extra_derive=['Debug']) + C.item(TYPES, 'enum PeerEvent', extra_derive=['Debug'])
    t += C.item(TYPES, 'enum PeerAffinity', extra_derive=['Debug']) + C.item(TYPES, 'struct PeerInfo', extra_derive=['Debug'])
    rw = [dict(rule='X5', pattern='std::sync::RwLockReadGuard', repl='RwLockReadGuard', optional=True), dict(rule='X5', pattern='std::sync::RwLockWriteGuard', repl='RwLockWriteGuard', optional=True),
          dict(rule='X5', pattern='std::time::Instant', repl='Instant', optional=True), dict(rule='X5', pattern='std::time::Duration', repl='Duration', optional=True),
          dict(rule='X5', pattern='BoxCloneService<Request<Bytes>, Response<Bytes>, Infallible>', repl='Svc', optional=True)]
    # ---- config accessors ----
    t += 'impl Config {\n'
    for f in ('max_concurrent_outstanding_connecting_connections', 'connection_backoff', 'max_connection_backoff', 'max_concurrent_connections'):
        t += C.fn(CONFIG, 'impl Config :: fn ' + f, 'Config::' + f, ['C13'], probe=False)
    t += '}\n'
    # ---- active peers ----
    t += C.item(CM, 'struct ActivePeersInner', extra_derive=['Debug'])
    t += C.item(CM, 'struct ActivePeers')
    t += 'impl ActivePeersInner {\n'
    for f in ('new', 'subscribe', 'peers', 'len', 'get', 'contains', 'remove', 'remove_with_stable_id', 'send_event', 'add', 'simultaneous_dial_tie_breaking'):
        t += C.fn(CM, 'impl ActivePeersInner :: fn ' + f, 'ActivePeersInner::' + f, ['C04', 'C05'], probe=False, rewrites=rw, optional=True)
    t += '}\nimpl ActivePeers {\n'
    for f in ('new', 'subscribe', 'peers', 'get', 'remove', 'remove_with_stable_id', 'add', 'inner', 'inner_mut', 'len'):
        t += C.fn(CM, 'impl ActivePeers :: fn ' + f, 'ActivePeers::' + f, ['C04', 'C05'], probe=False, rewrites=rw, optional=True)
    t += '}\n'
    # ---- known peers ----
    t += C.item(CM, 'struct KnownPeers', derives=False)
    t += 'impl KnownPeers {\n    pub fn new() -> Self { KnownPeers(Arc::new(RwLock::new(HashMap::default()))) }\n'
    for f in ('get', 'insert', 'remove', 'inner', 'inner_mut'):
        t += C.fn(CM, 'impl KnownPeers :: fn ' + f, 'KnownPeers::' + f, ['C13'], probe=False, rewrites=rw, optional=(f == 'remove'))
    t += '}\n'
    # ---- dial back-off + connection manager ----
    t += C.item(CM, 'struct DialBackoffState', rewrites=[dict(rule='X5', pattern='std::time::Instant', repl='Instant')])
    t += C.item(CM, 'struct ConnectingOutput')
    t += 'impl DialBackoffState {\n'
    for f in ('new', 'update'):
        t += C.fn(CM, 'impl DialBackoffState :: fn ' + f, 'DialBackoffState::' + f, ['C13'], probe=False, rewrites=rw)
    t += '}\n'
    t += C.item(CM, 'struct ConnectionManager', rewrites=[dict(rule='X5', pattern='BoxCloneService<Request<Bytes>, Response<Bytes>, Infallible>', repl='Svc')])
    t += 'impl ConnectionManager {\n'
    for f in ('add_peer', 'handle_connecting_result', 'handle_connectivity_check', 'dial_peer'):
        t += C.fn(CM, 'impl ConnectionManager :: fn ' + f, 'ConnectionManager::' + f, ['C13', 'C03'], probe=False, rewrites=rw)
    t += C.fn(CM, 'impl ConnectionManager :: fn shutdown', 'ConnectionManager::shutdown', ['C08'], probe=False, optional=True,
              rewrites=list(rw) + [dict(rule='X5', pattern='std::net::UdpSocket::bind((std::net::Ipv4Addr::LOCALHOST, 0))', repl='net_standin::bind_ephemeral()', optional=True)])
    t += '}\n'
    t += 'impl DisconnectReason {\n'
    t += C.fn(TYPES, 'impl DisconnectReason :: fn from_quinn_error', 'DisconnectReason::from_quinn_error', ['C09'], probe=False)
    t += '}\n'
    import re as _re
    from unitlib import extract as _extract
    try:
        _src = _extract(C.repo, 'crates/anemo/src/network/request_handler.rs', 'impl InboundRequestHandler :: fn start').text
    except Exception:
        _src = ''
    _mj = _re.search(r'let\s+mut\s+(\w+)\s*=\s*(?:tokio::task::)?JoinSet::new\(\)', _src)
    _ml = _re.search(r'let\s+(\w+)\s*=\s*loop\b', _src)
    JS, CRN = (_mj.group(1) if _mj else 'inflight_requests'), (_ml.group(1) if _ml else 'close_reason')
    t += C.lifted('crates/anemo/src/network/request_handler.rs', 'impl InboundRequestHandler :: fn start', 'InboundRequestHandler::start::tail',
                  ['C04', 'C05', 'C09'], anchor='let %s = loop' % CRN, kind='tail', name='inbound_request_handler_start_tail', is_async=True,
                  params='active_peers: &ActivePeers, connection: &Connection, %s: ConnectionError, %s: &mut JoinSet<()>' % (CRN, JS),
                  rewrites=[dict(rule='X10', pattern='self.active_peers', repl='active_peers', optional=True), dict(rule='X10', pattern='self.connection', repl='connection', optional=True),
                            dict(rule='X5', pattern='crate::types::DisconnectReason', repl='DisconnectReason', optional=True)])
    t += C.helpers_here()
    h = HARNESS
    if getattr(C, 'tier', 'quick') == 'thorough':
        # the thorough tier explores one step deeper (histories of 5 set operations, 5 connectivity checks)
        for a, b in (('while step < 4 {', 'while step < 5 {'), ('every history of 4 operations', 'every history of 5 operations'),
                     ('naddr, false, 4, false, false, None, false);', 'naddr, false, 5, false, false, None, false);'), ('every run of 4 connectivity checks', 'every run of 5 connectivity checks')):
            assert h.count(a) == 1, a
            h = h.replace(a, b)
    t += h
    return t
