"""Second half of unit wire: one RPC on one bidirectional stream (network/peer.rs do_rpc, network/request_handler.rs
BiStreamRequestHandler::{new, handle, do_handle}).  Properties: C02 (per stream), C15 (same codec both directions), C01 (identity is
attached after decoding), C06 (a failed exchange ends only its own stream).

Postconditions cannot talk about local streams that are dropped when the function returns, so besides ordinary postconditions this
part uses ghost snapshots and `assert`s inserted at anchors (X6: insert-only specification text).  A lost anchor is undecided.
"""
import re
import prelude as P
from unitlib import AnchorLost, code_mask, match_delim, extract

PEER = 'crates/anemo/src/network/peer.rs'
RH = 'crates/anemo/src/network/request_handler.rs'
REQ = 'crates/anemo/src/types/request.rs'
RESP = 'crates/anemo/src/types/response.rs'

STANDINS = r'''
// ---------- trusted stand-ins for the stream layer (quinn) ----------
// a bidirectional QUIC stream is a PAIR: what is written on the send half of pair p reaches exactly the receive half of pair p at
// the other end, in order, exactly once, isolated from every other pair (ASSUMED: quinn / QUIC)
pub struct SendStream { pub o: Ghost<Seq<u8>>, pub pair: Ghost<nat>, pub finished: Ghost<bool> }
pub struct RecvStream { pub rem: Ghost<Seq<u8>>, pub pair: Ghost<nat> }
impl AsyncWrite for SendStream { open spec fn out(&self) -> Seq<u8> { self.o@ } open spec fn id(&self) -> nat { self.pair@ } }
impl AsyncRead for RecvStream { open spec fn remaining(&self) -> Seq<u8> { self.rem@ } open spec fn id(&self) -> nat { self.pair@ } }
impl Unpin for SendStream {}
impl Unpin for RecvStream {}
impl SendStream {
    #[verifier::external_body]
    pub fn finish(&mut self) -> (r: Result<()>) ensures final(self).o == old(self).o, final(self).pair == old(self).pair, r is Ok ==> final(self).finished@ { unimplemented!() }
    // creating the `stopped` future does not touch the stream; it resolves when the remote stops reading (or errors)
    #[verifier::external_body]
    pub fn stopped(&mut self) -> (r: StoppedFut) ensures *final(self) == *old(self) { unimplemented!() }
}
pub struct StoppedFut;
impl StoppedFut { #[verifier::external_body] pub async fn resolved(self) -> (r: Result<u64>) { unimplemented!() } }
pub struct SocketAddr { pub a: u64 }
pub uninterp spec fn ack_bytes(c: Connection) -> Seq<u8>;
pub struct Connection { pub peer: PeerId, pub orig: ConnectionOrigin, pub addr: u64, pub opened: Ghost<nat> }
impl Connection {
    #[verifier::external_body] pub fn peer_id(&self) -> (r: PeerId) ensures r == self.peer { unimplemented!() }
    #[verifier::external_body] pub fn origin(&self) -> (r: ConnectionOrigin) ensures r == self.orig { unimplemented!() }
    #[verifier::external_body] pub fn remote_address(&self) -> (r: SocketAddr) ensures r.a == self.addr { unimplemented!() }
    // (observers of the connection an edit may reach for; whatever they answer, the obligations around them have to hold)
    #[verifier::external_body] pub fn is_closed(&self) -> (r: bool) { unimplemented!() }
    #[verifier::external_body] pub fn stable_id(&self) -> (r: usize) { unimplemented!() }
    #[verifier::external_body] pub fn close(&self) { unimplemented!() }
    // one call opens ONE stream and returns its two halves
    #[verifier::external_body]
    pub async fn open_bi(&self) -> (r: Result<(SendStream, RecvStream)>)
        ensures r is Ok ==> r->Ok_0.0.pair == r->Ok_0.1.pair && r->Ok_0.0.o@.len() == 0 && !r->Ok_0.0.finished@ { unimplemented!() }
    #[verifier::external_body] pub fn clone(&self) -> (r: Connection) ensures r == *self { unimplemented!() }
    // unidirectional streams (used only by the acknowledgement handshake)
    #[verifier::external_body]
    pub async fn open_uni(&self) -> (r: Result<SendStream>) ensures r is Ok ==> r->Ok_0.o@.len() == 0 && !r->Ok_0.finished@ { unimplemented!() }
    // the first unidirectional stream the other side opened on this connection: `ack_bytes` is what it wrote there
    #[verifier::external_body]
    pub async fn accept_uni(&self) -> (r: Result<RecvStream>) ensures r is Ok ==> r->Ok_0.rem@ == ack_bytes(*self) { unimplemented!() }
}
// what a request / response carries as local metadata: only the PeerId entry matters here
pub trait ExtValue { spec fn as_peer(&self) -> Option<PeerId>; }
impl ExtValue for PeerId { open spec fn as_peer(&self) -> Option<PeerId> { Some(*self) } }
impl ExtValue for ConnectionOrigin { open spec fn as_peer(&self) -> Option<PeerId> { None } }
impl ExtValue for SocketAddr { open spec fn as_peer(&self) -> Option<PeerId> { None } }
impl ExtValue for Direction { open spec fn as_peer(&self) -> Option<PeerId> { None } }
pub uninterp spec fn ext_peer(e: Extensions) -> Option<PeerId>;     // extensions().get::<PeerId>()
#[verifier::external_body]
pub broadcast proof fn axiom_empty_ext(e: Extensions) requires e.is_empty_spec() ensures #[trigger] ext_peer(e) is None {}
impl Extensions {
    #[verifier::external_body]
    pub fn insert<T: ExtValue>(&mut self, v: T) -> (r: Option<T>)
        ensures v.as_peer() is Some ==> ext_peer(*final(self)) == v.as_peer(), v.as_peer() is None ==> ext_peer(*final(self)) == ext_peer(*old(self)) { unimplemented!() }
}
// the user's service behind tower's `oneshot`: calling it runs the handler exactly once on the given request (ghost call log)
pub struct Svc { pub calls: Ghost<Seq<Request<Bytes>>> }
#[derive(Debug)]
pub struct Infallible;
pub uninterp spec fn handler_reply(req: Request<Bytes>) -> Response<Bytes>;
pub struct Oneshot { pub req: Ghost<Request<Bytes>> }
impl Svc {
    #[verifier::external_body]
    pub fn oneshot(&mut self, req: Request<Bytes>) -> (r: Oneshot) ensures final(self).calls@ == old(self).calls@.push(req), r.req@ == req { unimplemented!() }
    #[verifier::external_body] pub fn clone(&self) -> (r: Svc) ensures r == *self { unimplemented!() }
}
impl Oneshot {
    #[verifier::external_body]
    pub async fn resolved(self) -> (r: core::result::Result<Response<Bytes>, Infallible>) ensures r is Ok, r->Ok_0 == handler_reply(self.req@) { unimplemented!() }
}
#[verifier::external_body] pub fn select_nondet() -> (r: bool) { unimplemented!() }
#[verifier::external_body] pub fn select_arm() -> (r: u8) { unimplemented!() }
// the layer stack Builder::start built for outgoing requests (unit timeout proves what it contains)
pub struct OutboundRequestLayer { pub id: u64 }
// `tower::service_fn(move |request| { let peer = peer.clone(); async move { peer.do_rpc(request).await } }).boxed()`: the service whose call is do_rpc of that peer handle
pub struct DoRpcService { pub peer: Peer }
// what `layer.layer(inner)` builds and what calling it yields: the request goes through `layer` and, if the layer lets it through, to `inner`
pub struct LayeredService { pub layer: OutboundRequestLayer, pub inner: DoRpcService }
pub struct RpcFuture { pub layer: OutboundRequestLayer, pub inner: DoRpcService, pub req: Request<Bytes> }
impl OutboundRequestLayer {
    #[verifier::external_body] pub fn layer(&self, inner: DoRpcService) -> (r: LayeredService) ensures r.layer == *self, r.inner == inner { unimplemented!() }
}
impl LayeredService {
    #[verifier::external_body] pub fn call(&mut self, req: Request<Bytes>) -> (r: RpcFuture) ensures r.layer == old(self).layer, r.inner == old(self).inner, r.req == req, *final(self) == *old(self) { unimplemented!() }
}
impl Peer { #[verifier::external_body] pub fn clone(&self) -> (r: Self) ensures r == *self { unimplemented!() } }
// ---------- the per-connection accept loop (request_handler.rs InboundRequestHandler::start) ----------
pub struct ActivePeers;
// an error that the CONNECTION reported (quinn::ConnectionError): the only thing that may end the accept loop
pub uninterp spec fn from_connection(e: Error, c: Connection) -> bool;
impl Connection {
    #[verifier::external_body]
    pub async fn accept_bi(&self) -> (r: Result<(SendStream, RecvStream)>)
        ensures r is Ok ==> r->Ok_0.0.pair == r->Ok_0.1.pair && r->Ok_0.0.o@.len() == 0 && !r->Ok_0.0.finished@, r is Err ==> from_connection(r->Err_0, *self) { unimplemented!() }
    #[verifier::external_body]
    pub async fn accept_uni_stream(&self) -> (r: Result<RecvStream>) ensures r is Err ==> from_connection(r->Err_0, *self) { unimplemented!() }
    #[verifier::external_body]
    pub async fn read_datagram(&self) -> (r: Result<Bytes>) ensures r is Err ==> from_connection(r->Err_0, *self) { unimplemented!() }
}
// tokio::task::JoinSet of handler tasks: `spawned` is the ghost log of every task ever spawned, each one being `handle()` run on that handler
pub struct HandleTask { pub h: BiStreamRequestHandler }
pub struct JoinSet { pub spawned: Ghost<Seq<BiStreamRequestHandler>> }
// a task ends normally, is cancelled, or panics: tokio's JoinError is one of the latter two
pub struct JoinError { pub cancelled: bool }
pub struct PanicPayload;
impl JoinError {
    #[verifier::external_body] pub fn is_cancelled(&self) -> (r: bool) ensures r == self.cancelled { unimplemented!() }
    #[verifier::external_body] pub fn is_panic(&self) -> (r: bool) ensures r == !self.cancelled { unimplemented!() }
    #[verifier::external_body] pub fn into_panic(self) -> (r: PanicPayload) { unimplemented!() }
}
#[verifier::external_body] pub fn resume_unwind(p: PanicPayload) -> ! { unimplemented!() }
// `panic!(..)`: must be unreachable
#[verifier::external_body] pub fn explicit_panic() -> ! requires false { unimplemented!() }
impl JoinSet {
    #[verifier::external_body]
    pub fn spawn(&mut self, t: HandleTask) ensures final(self).spawned@ == old(self).spawned@.push(t.h) { unimplemented!() }
    #[verifier::external_body]
    pub async fn join_next(&mut self) -> (r: Option<core::result::Result<(), JoinError>>) ensures final(self).spawned == old(self).spawned { unimplemented!() }
}
'''


def select_standin(e):
    """X4: `tokio::select! { pat = fut => expr, _ = fut2 => expr2, }` (two arms) becomes a nondeterministic choice between the arms;
    each arm awaits its own future.  `handler` is the Oneshot stand-in (awaited through .resolved())."""
    t = e.text
    m = re.search(r'tokio::select!\s*\{', t)
    if not m:
        return
    mask = code_mask(t)
    o = m.end() - 1
    c = match_delim(t, mask, o)
    inner = t[o + 1:c]
    arms = re.findall(r'(\w+)\s*=\s*(\w+)\s*=>\s*(.*?),\s*(?=\w+\s*=\s*\w+\s*=>|$)', inner.strip() + '\n', re.S)
    if len(arms) != 2:
        raise AnchorLost('select! in %s does not have the two-arm shape (%d arms parsed)' % (e.key, len(arms)))
    (p1, f1, e1), (p2, f2, e2) = arms

    def aw(f):
        return '%s.resolved().await' % f
    # C12: the arm that fires when the remote stops the stream abandons the exchange -- recognised by SHAPE (its body returns an error without using what
    # the future yielded); the obligation sits in that arm, so it exists exactly as long as the service's answer is raced against the remote's stop
    abandon = ''
    if p2 == '_' and re.match(r'^return\s+Err\b', e2.strip()) and 'do_handle' in (e.key or ''):
        abandon = ('assert(self.send_stream.inner.o@ == before); // @OBL do_handle::remote_stop_abandons_the_exchange [C12] while the service is working on a request its answer is raced against the remote '
                   'stopping the stream (the caller abandoned the RPC): when that happens first, the exchange ends at once with an error, nothing has been or will be written, and the service\'s future -- owned by this '
                   'frame -- is dropped with it instead of being driven to completion\n            ')
    repl = 'if select_nondet() { let %s = %s; %s } else { let %s = %s; %s%s }' % (p1, aw(f1), e1.strip(), ('_unused' if p2 == '_' else p2), aw(f2), abandon, e2.strip())
    e.text = t[:m.start()] + repl + t[c + 1:]
    e.log('X4', 'tokio::select! with 2 arms replaced by a nondeterministic choice between them')


def do_rpc_obligations(C):
    """X6 for Peer::do_rpc: the ghost snapshot and the five asserts around `let mut <resp> = read_response(&mut <recv>).await?;` are attached by SHAPE; the names
    of the locals (request parameter, the two framed halves, the response) are read from the text, so renaming them changes nothing"""
    KEY = 'Peer::do_rpc'
    BEFORE = '''let ghost reply = %(recv)s.inner.remaining();
        assert(%(send)s.inner.pair == %(recv)s.inner.pair); // @OBL Peer::do_rpc::one_stream_pair [C02] the response is read from the receive half of the SAME bidirectional stream the request was written to (one open_bi per RPC)
        assert(%(send)s.codec == %(recv)s.codec); // @OBL Peer::do_rpc::same_codec_both_directions [C15] the caller frames what it sends and what it receives with one and the same limit, built from its configuration
        assert(%(send)s.inner.o@ == enc_message(%(req)s.head.version, raw_req(%(req)s.head.route, %(req)s.head.headers).ser(), %(req)s.body@)); // @OBL Peer::do_rpc::sends_exactly_the_request [C02] before the response is awaited, what went out on the stream is exactly the encoding of the caller's request (route, headers, body) and nothing else
        assert(%(send)s.inner.finished@); // @OBL Peer::do_rpc::finishes_stream [C02] the request stream is finished before the response is awaited
        '''
    AFTER = '''
        assert(({ let d = dec_message(reply, %(recv)s.codec.max as nat)->Some_0; let raw = RawResponseHeader::de(d.0)->Some_0;
                  Some(%(resp)s.head.status) == status_of(raw.status) && %(resp)s.head.headers == raw.headers && %(resp)s.body@ == d.1 })); // @OBL Peer::do_rpc::returns_exactly_the_reply [C02] the value returned is exactly (status, headers, body) decoded from the bytes that arrived on that stream'''

    def tr(e):
        t = e.text
        mr = list(re.finditer(r'let\s+mut\s+(\w+)\s*=\s*read_response\(\s*&mut\s+(\w+)\s*\)\s*\.await\s*\?\s*;', t))
        mw = list(re.finditer(r'write_request\(\s*&mut\s+(\w+)\s*,\s*(\w+)\s*\)\s*\.await', t))
        if len(mr) == 1 and len(mw) == 1 and mw[0].start() < mr[0].start():
            names = dict(resp=mr[0].group(1), recv=mr[0].group(2), send=mw[0].group(1), req=mw[0].group(2))
            # the request is consumed by write_request: the asserts speak about the value handed in, kept as a ghost copy at function entry
            req = names['req']
            b = t.index('{') + 1
            ghost_req = '\n        let ghost __req0 = %s;' % req
            names['req'] = '__req0'
            t = t[:mr[0].start()] + BEFORE % names + t[mr[0].start():mr[0].end()] + AFTER % names + t[mr[0].end():]
            t = t[:b] + ghost_req + t[b:]
            e.text = t
            e.log('X6', 'ghost copy of the request, ghost snapshot of the bytes to come and five asserts around the read of the response (locals: %s)' % ', '.join('%s=%s' % kv for kv in sorted(names.items())))
        else:
            C._lose(KEY, ['C02', 'C15'], [BEFORE % dict(send='s', recv='r', req='q'), AFTER % dict(recv='r', resp='p')],
                    'do_rpc no longer has the shape write_request(&mut <send>, <request>) ... let mut <response> = read_response(&mut <recv>).await?; (found %d / %d such places)' % (len(mw), len(mr)), body=False)
    return tr


def service_fn_standin(e):
    """X12: `tower::service_fn(move |request| { let peer = peer.clone(); async move { peer.do_rpc(request).await } }).boxed()` -- a closure returning an async
    block, which Verus cannot take -- is replaced by the stand-in `DoRpcService { peer }` ONLY if it has exactly this shape (whitespace aside)"""
    pat = re.compile(r'tower::service_fn\(\s*move\s*\|(\w+)\|\s*\{\s*let\s+(\w+)\s*=\s*\2\.clone\(\);\s*async\s+move\s*\{\s*\2\.do_rpc\(\1\)\.await\s*\}\s*\}\s*\)\s*\.boxed\(\)')
    t2, k = pat.subn(r'DoRpcService { peer: \2 }', e.text)
    if k != 1:
        raise AnchorLost('%s: the innermost service is no longer literally `service_fn(|request| peer.do_rpc(request))`' % e.key)
    e.text = t2
    e.log('X12', 'service_fn closure of the exact shape |request| peer.do_rpc(request) replaced by the stand-in DoRpcService { peer }')


def _select_arms(inner):
    """[(pattern, future expression, body)] of a tokio::select! body"""
    mask = code_mask(inner)
    arms, i, n = [], 0, len(inner)

    def top_level_find(start, pred):
        k = start
        while k < n:
            if mask[k] and inner[k] in '([{':
                k = match_delim(inner, mask, k) + 1
                continue
            if mask[k] and pred(k):
                return k
            k += 1
        return -1
    while True:
        while i < n and (not mask[i] or inner[i].isspace() or inner[i] == ','):
            i += 1
        if i >= n:
            break
        arrow = top_level_find(i, lambda k: inner.startswith('=>', k))
        if arrow < 0:
            raise AnchorLost('select! arm without `=>`')
        head = inner[i:arrow]
        hm = code_mask(head)
        eq = -1
        k = 0
        while k < len(head):
            if hm[k] and head[k] in '([{':
                k = match_delim(head, hm, k) + 1
                continue
            if hm[k] and head[k] == '=' and head[k + 1:k + 2] not in ('=', '>') and head[k - 1:k] not in ('=', '!', '<', '>'):
                eq = k
                break
            k += 1
        if eq < 0:
            raise AnchorLost('select! arm without `pattern = future`')
        pat, fut = head[:eq].strip(), head[eq + 1:].strip()
        j = arrow + 2
        while j < n and inner[j].isspace():
            j += 1
        if j < n and inner[j] == '{':
            c = match_delim(inner, mask, j)
            body = inner[j:c + 1]
            i = c + 1
        else:
            c = top_level_find(j, lambda k: inner[k] == ',')
            c = n if c < 0 else c
            body = '{ ' + inner[j:c].strip() + ' }'
            i = c + 1
        arms.append((pat, fut, body))
    return arms


def accept_loop_standin(key, props, C=None, js='inflight_requests', cr='close_reason'):
    """X4 for a select! loop: `loop { tokio::select! { p1 = f1 => b1, ... } }` becomes a loop over a nondeterministic choice of arm; the chosen
    arm awaits its own future (a refutable pattern that does not match disables the arm, as in tokio).  `break e` (the value of the loop
    is what the lifted function returns) becomes `return e`.  Inserts the per-iteration ghost snapshot and the two loop-level obligations."""
    def tr(e):
        e.replace_macro('panic', 'explicit_panic()')
        t = e.text
        m = re.search(r'tokio::select!\s*\{', t)
        if not m:
            raise AnchorLost('%s: no tokio::select! in the accept loop' % key)
        mask = code_mask(t)
        o = m.end() - 1
        c = match_delim(t, mask, o)
        arms = _select_arms(t[o + 1:c])
        waits = []
        out = ['match select_arm() {']
        for k, (pat, fut, body) in enumerate(arms):
            bm = code_mask(body)
            if any(bm[x.start()] for x in re.finditer(r'\.await\b', body)):
                waits.append(k)
            sel = '%d' % k if k < len(arms) - 1 else '_'
            if re.match(r'^[a-z_][A-Za-z0-9_]*$', pat):
                out.append('            %s => { let %s = %s.await; %s }' % (sel, pat if pat != '_' else '_unused', fut, body))
            else:
                out.append('            %s => { if let %s = %s.await %s }' % (sel, pat, fut, body))
        out.append('        }')
        verdict = ('if select_nondet() { assert(false); }' if waits else 'assert(true);')
        out.append('        %s // @OBL %s::arms_do_not_wait [%s] @CONFIRM between two rounds of accepting streams the loop never waits on anything (no await inside an arm of the select): a silent stream or a slow handler cannot keep the connection\'s other streams from being accepted%s'
                   % (verdict, key, ','.join(props), (' -- arm(s) %s of the select await inside their body' % waits) if waits else ''))
        out.append('        assert(%s.spawned@.len() <= pre.len() + 1); // @OBL %s::at_most_one_task_per_round [C02,C06] one round of the loop spawns at most one handler task' % (js, key))
        t = t[:m.start()] + '\n        '.join(out) + t[c + 1:]
        t2, nb = re.subn(r'\bbreak\s+([^;{}]+);', r'return \1;', t)
        t3, nl = re.subn(r'let\s+%s\s*=\s*loop\s*\{' % re.escape(cr), 'loop {\n            let ghost pre = %s.spawned@;' % js, t2, count=1)
        if not nl:
            raise AnchorLost('%s: the loop is no longer bound to a variable' % key)
        # ---- the obligations about the handler task, attached by SHAPE (the names of the locals are read from the text, so renaming them changes nothing)
        HANDLER_OBLS = '''
                            assert(%(js)s.spawned@ == pre.push(h0) && h0.send_stream.inner == tx0 && h0.recv_stream.inner == rx0 && h0.recv_stream.buffered@.len() == 0); // @OBL %(key)s::one_handler_per_accepted_stream [C02,C06] every accepted bidirectional stream is handed to exactly one new handler task, which serves exactly the two halves of that stream
                            assert(h0.connection == this.connection && h0.service == this.service); // @OBL %(key)s::handler_bound_to_connection_and_service [C01,C02] that handler attributes requests to THIS connection (its authenticated identity) and calls THIS network's service
                            assert(h0.send_stream.codec == h0.recv_stream.codec && (this.config.max_frame_size is Some ==> h0.send_stream.codec.max == this.config.max_frame_size->Some_0)); // @OBL %(key)s::handler_uses_configured_limit [C15] and frames both directions with the configured maximum frame size''' % dict(js=js, key=key)
        mp = list(re.finditer(r'Ok\(\(\s*(\w+)\s*,\s*(\w+)\s*\)\)\s*=>\s*\{', t3))
        ms = list(re.finditer(r'\b%s\.spawn\(\s*(\w+)\.handle\(\)\s*\)\s*;' % re.escape(js), t3))
        if len(mp) == 1 and len(ms) == 1 and mp[0].end() < ms[0].start():
            (tx, rx), h = mp[0].groups(), ms[0].group(1)
            t3 = (t3[:mp[0].end()] + ' let ghost tx0 = %s; let ghost rx0 = %s;' % (tx, rx) + t3[mp[0].end():ms[0].start()]
                  + 'let ghost h0 = %s;\n                            %s.spawn(HandleTask { h: %s });' % (h, js, h) + HANDLER_OBLS + t3[ms[0].end():])
            e.log('X6', 'ghost snapshots of the accepted halves (%s, %s) and of the handler (%s); three asserts after the spawn' % (tx, rx, h))
            e.log('X5', '`%s.handle()` (an un-awaited future) -> HandleTask { h: %s }' % (h, h))
        elif C is not None:
            C._lose(key, props, [HANDLER_OBLS], 'the accept arm no longer has the shape `Ok((tx, rx)) => { .. <set>.spawn(<handler>.handle()); }` (found %d / %d such places)' % (len(mp), len(ms)), body=False)
        e.text = t3
        e.log('X4', 'tokio::select! with %d arms replaced by a nondeterministic choice; `break e` -> `return e` (x%d); ghost snapshot per round' % (len(arms), nb))
    return tr


def build(C):
    t = STANDINS
    t += 'impl<T> Request<T> {\n'
    t += C.fn(REQ, 'impl <T> Request<T> :: fn extensions_mut', 'Request::extensions_mut', ['C01'], ret='r', spec='''
    ensures
        *r == old(self).head.extensions && final(self).head.extensions == *final(r) && final(self).head.route == old(self).head.route
            && final(self).head.headers == old(self).head.headers && final(self).head.version == old(self).head.version && final(self).body == old(self).body, // @OBL Request::extensions_mut::only_extensions [C01,C02] extensions_mut() gives access to the extensions and nothing else of the request
''')
    t += '}\nimpl<T> Response<T> {\n'
    t += C.fn(RESP, 'impl <T> Response<T> :: fn extensions_mut', 'Response::extensions_mut', ['C01'], ret='r', spec='''
    ensures
        *r == old(self).head.extensions && final(self).head.extensions == *final(r) && final(self).head.status == old(self).head.status
            && final(self).head.headers == old(self).head.headers && final(self).head.version == old(self).head.version && final(self).body == old(self).body, // @OBL Response::extensions_mut::only_extensions [C01,C02] extensions_mut() gives access to the extensions and nothing else of the response
''')
    t += '}\n'
    # ---- the acknowledgement handshake (wire.rs handshake): C03 / C10 mechanism ------------------------------------------
    t += C.fn('crates/anemo/src/network/wire.rs', 'fn handshake', 'handshake', ['C03', 'C10', 'C07'], ret='r',
              rewrites=[dict(rule='X5', pattern='crate::connection::Connection', repl='Connection'), dict(rule='X5', pattern='crate::ConnectionOrigin', repl='ConnectionOrigin'),
                        dict(rule='X5', pattern='.stopped().await', repl='.stopped().resolved().await', optional=True)],
              inserts=[
                  ('X6', 'send_stream.finish()?;', '''
            assert(send_stream.o@ == preamble(Version::V1) && send_stream.finished@); // @OBL handshake::listener_sends_exactly_the_preamble [C03,C10,C07] the listener's acknowledgement is exactly the 8-byte version preamble on a fresh unidirectional stream, which is then finished'''),
              ],
              spec='''
    ensures
        r is Ok ==> r->Ok_0 == connection, // @OBL handshake::returns_the_same_connection [C03] the handshake hands back the very connection it was given (identity unchanged)
        r is Ok && connection.orig == ConnectionOrigin::Outbound ==> ack_bytes(connection).len() >= 8 && ack_bytes(connection).subrange(0, 8) == preamble(Version::V1), // @OBL handshake::dialer_requires_the_acknowledgement [C03,C10] the dialer reports success only after it has received a valid acknowledgement from the listener: a dialer the listener refuses (never acknowledges) sees its connect fail
''')
    # ---- caller side: Peer::do_rpc -----------------------------------------------------------------------------
    t += C.item(PEER, 'struct Peer', derives=False, rewrites=[('X5', 'Arc<Config>', 'Config', 1)])
    t += 'impl Peer {\n'
    t += C.fn(PEER, 'impl Peer :: fn peer_id', 'Peer::peer_id', ['C01'], ret='r', spec='''
    ensures
        r == self.connection.peer, // @OBL Peer::peer_id::is_connection_identity [C01] a peer handle's identity is the authenticated identity of its connection
''')
    t += C.fn(PEER, 'impl Peer :: fn do_rpc', 'Peer::do_rpc', ['C02', 'C15', 'C01'], ret='r',
              body_prefix='\n        broadcast use axiom_empty_ext;\n', transforms=[do_rpc_obligations(C)],
              spec='''
    ensures
        r is Ok ==> ext_peer(r->Ok_0.head.extensions) == Some(self.connection.peer), // @OBL Peer::do_rpc::attributes_connection_identity [C01] the PeerId a caller sees on a response is the authenticated identity of the connection; it is attached after decoding and nothing in the message can supply it
''')
    t += C.fn(PEER, 'impl Service<Request<Bytes>> for Peer :: fn call', 'Peer::call', ['C11', 'C01', 'C02'], ret='r',
              sig_rewrites=[('Self::Future', 'RpcFuture')], param_names=('request0',),
              body_prefix='\n        broadcast use axiom_empty_ext;\n',
              rewrites=[dict(rule='X5', pattern='crate::Direction', repl='Direction', optional=True)], transforms=[service_fn_standin], spec='''
    ensures
        r.layer == old(self).outbound_request_layer, // @OBL Peer::call::through_the_network_outbound_layer [C11] an RPC made through a peer handle passes the outbound layer stack the handle was given by its network (the stack that starts with the timeout middleware armed with the configured default)
        r.inner.peer.connection == old(self).connection && r.inner.peer.config == old(self).config, // @OBL Peer::call::innermost_is_do_rpc_on_this_connection [C02,C01] and ends at do_rpc on this peer's own connection
        r.req.head.route == request0.head.route && r.req.head.headers == request0.head.headers && r.req.body == request0.body && r.req.head.version == request0.head.version, // @OBL Peer::call::request_unchanged [C02] the request handed on is the caller's request (route, headers, body)
        ext_peer(r.req.head.extensions) == Some(old(self).connection.peer), // @OBL Peer::call::tags_request_with_connection_identity [C01] middleware on the outbound path sees the authenticated identity of the connection as the request's peer
''')
    t += '}\n'
    # ---- serving side: BiStreamRequestHandler -------------------------------------------------------------------
    t += C.item(RH, 'struct BiStreamRequestHandler', rewrites=[
        ('X5', 'BoxCloneService<Request<Bytes>, Response<Bytes>, Infallible>', 'Svc', 1)])
    t += 'impl BiStreamRequestHandler {\n'
    t += C.fn(RH, 'impl BiStreamRequestHandler :: fn new', 'BiStreamRequestHandler::new', ['C15', 'C02'], ret='r',
              rewrites=[('X5', 'BoxCloneService<Request<Bytes>, Response<Bytes>, Infallible>', 'Svc', 1)], spec='''
    ensures
        r.send_stream.codec == r.recv_stream.codec, // @OBL BiStreamRequestHandler::new::same_codec_both_directions [C15] the serving side frames what it receives and what it sends with one and the same limit
        r.send_stream.codec.lfl == 4 && r.send_stream.codec.be && r.send_stream.codec.plain && (config.max_frame_size is Some ==> r.send_stream.codec.max == config.max_frame_size->Some_0), // @OBL BiStreamRequestHandler::new::codec_from_config [C15] that limit is the configured maximum frame size
        r.send_stream.inner == send_stream && r.recv_stream.inner == recv_stream && r.recv_stream.buffered@.len() == 0 && r.connection == connection && r.service == service, // @OBL BiStreamRequestHandler::new::wraps_the_given_streams [C02] the handler serves exactly the stream pair it was created for
''')
    t += C.fn(RH, 'impl BiStreamRequestHandler :: fn do_handle', 'BiStreamRequestHandler::do_handle', ['C02', 'C01', 'C06', 'C15', 'C12'], ret='r',
              sig_rewrites=[('mut self', '&mut self')], transforms=[select_standin],
              body_prefix='\n        broadcast use axiom_empty_ext;\n        let ghost arrived = self.recv_stream.inner.remaining();\n        let ghost before = self.send_stream.inner.o@;\n',
              rewrites=[dict(rule='X5', pattern='crate::Direction', repl='Direction', optional=True),
                        dict(rule='X5', pattern='.stopped().await', repl='.stopped().resolved().await', optional=True)],
              spec='''
    requires
        old(self).send_stream.codec.lfl == 4 && old(self).send_stream.codec.be && old(self).send_stream.codec.plain && old(self).recv_stream.codec.lfl == 4 && old(self).recv_stream.codec.be && old(self).recv_stream.codec.plain,
        old(self).recv_stream.buffered@.len() == 0,
    ensures
        final(self).service.calls@.len() <= old(self).service.calls@.len() + 1, // @OBL do_handle::at_most_one_invocation [C02] one stream causes at most one invocation of the service: no request is delivered to a handler more than once
        final(self).service.calls@.len() == old(self).service.calls@.len() + 1 ==> ({
            let req = final(self).service.calls@.last();
            let d = dec_message(old(self).recv_stream.inner.remaining(), old(self).recv_stream.codec.max as nat)->Some_0;
            let raw = RawRequestHeader::de(d.0)->Some_0;
            req.head.route == raw.route && req.head.headers == raw.headers && req.body@ == d.1 && ext_peer(req.head.extensions) == Some(old(self).connection.peer)
        }), // @OBL do_handle::delivers_exactly_the_request_with_authenticated_sender [C02,C01] the request handed to the service is exactly (route, headers, body) decoded from this stream, attributed to the authenticated identity of the connection (attached after decoding: nothing in the message can supply it)
        r is Ok ==> final(self).service.calls@.len() == old(self).service.calls@.len() + 1
            && final(self).send_stream.inner.o@ == old(self).send_stream.inner.o@
                + enc_message(handler_reply(final(self).service.calls@.last()).head.version,
                              raw_resp(status_code(handler_reply(final(self).service.calls@.last()).head.status), handler_reply(final(self).service.calls@.last()).head.headers).ser(),
                              handler_reply(final(self).service.calls@.last()).body@)
            && final(self).send_stream.inner.finished@, // @OBL do_handle::replies_exactly_the_handlers_response_on_the_same_stream [C02] a successful exchange writes exactly the encoding of the response the handler produced for that request to the send half of the same stream, then finishes it
        dec_message(old(self).recv_stream.inner.remaining(), old(self).recv_stream.codec.max as nat) is None ==> r is Err && final(self).service.calls@ == old(self).service.calls@, // @OBL do_handle::malformed_request_never_reaches_service [C06,C15] a malformed, truncated or oversized request is answered with an error for this stream only: the service is never invoked for it
''')
    t += C.fn(RH, 'impl BiStreamRequestHandler :: fn handle', 'BiStreamRequestHandler::handle', ['C06'],
              sig_rewrites=[('self', '&mut self')], spec='''
    requires
        old(self).send_stream.codec.lfl == 4 && old(self).send_stream.codec.be && old(self).send_stream.codec.plain && old(self).recv_stream.codec.lfl == 4 && old(self).recv_stream.codec.be && old(self).recv_stream.codec.plain,
        old(self).recv_stream.buffered@.len() == 0,
    ensures
        true, // @OBL BiStreamRequestHandler::handle::swallows_errors [C06] a failed exchange ends this stream's task normally: the error is swallowed here (no panic, nothing propagates to the connection or the network)
''')
    t += '}\n'
    # ---- the per-connection accept loop ---------------------------------------------------------------------------
    t += C.item(RH, 'struct InboundRequestHandler', derives=False, rewrites=[
        dict(rule='X5', pattern='BoxCloneService<Request<Bytes>, Response<Bytes>, Infallible>', repl='Svc', optional=True), dict(rule='X5', pattern='Arc<Config>', repl='Config', optional=True)])
    KEY = 'InboundRequestHandler::start::accept_loop'
    # the names of the two locals the lifted loop shares with its surroundings are read from the text (renaming them changes nothing)
    try:
        src = extract(C.repo, RH, 'impl InboundRequestHandler :: fn start').text
    except AnchorLost:
        src = ''
    mj = re.search(r'let\s+mut\s+(\w+)\s*=\s*(?:tokio::task::)?JoinSet::new\(\)', src)
    ml = re.search(r'let\s+(\w+)\s*=\s*loop\b', src)
    js, cr = (mj.group(1) if mj else 'inflight_requests'), (ml.group(1) if ml else 'close_reason')
    t += C.lifted(RH, 'impl InboundRequestHandler :: fn start', KEY, ['C06', 'C02', 'C09'], anchor='let %s = loop' % cr, kind='stmt',
                  name='inbound_request_handler_accept_loop', is_async=True, attrs='#[verifier::exec_allows_no_decreases_clause]\n',
                  params='this: &InboundRequestHandler, %s: &mut JoinSet' % js, ret_ty='Error', ret='close_reason',
                  rewrites=[dict(rule='X10', pattern='self.', repl='this.'), dict(rule='X10', pattern='Self::', repl='InboundRequestHandler::', optional=True), dict(rule='X5', pattern='this.connection.accept_uni()', repl='this.connection.accept_uni_stream()', optional=True),
                            dict(rule='X5', pattern='std::panic::resume_unwind', repl='resume_unwind', optional=True)],
                  transforms=[accept_loop_standin(KEY, ['C06'], C=C, js=js, cr=cr)],
                  spec='''
    ensures
        from_connection(close_reason, this.connection), // @OBL InboundRequestHandler::start::accept_loop::ends_only_on_connection_error [C06,C09] the accept loop ends only when the connection itself reports an error (closed, timed out, reset): nothing carried by a stream, a unidirectional stream or a datagram, and no failed request, ends it
''',
                  prose='lifted loop verifies: no panic unless a handler task panicked (the `panic!` branch for a JoinError that is neither a cancellation nor a panic is unreachable), every callee precondition holds')
    return t
