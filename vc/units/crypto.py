"""Unit crypto (Verus): anemo's identity-attribution glue around rustls / webpki (C01 glue, C03 pin).

Functions under contract: crypto.rs ExpectedCertVerifier::verify_server_cert, the six verify_tls1{2,3}_signature impls,
CertVerifier::{offer_client_auth, client_auth_mandatory}, peer_id_from_certificate; connection.rs Connection::{new, try_peer_id}.
Everything cryptographic is an uninterpreted predicate: rustls::crypto::verify_tls1x_signature, webpki, x509 parsing.
NOT verified: CertVerifier::verify_client_cert / verify_server_cert (iterator + closure pipelines over &str),
and the two statics SUPPORTED_SIG_ALGS / SUPPORTED_ALGORITHMS (checked textually, see `structural`).
"""
import re
import prelude as P
from unitlib import norm

NAME = 'crypto'
BACKEND = 'verus'
CRYPTO = 'crates/anemo/src/crypto.rs'
CONN = 'crates/anemo/src/connection.rs'

STANDINS = r'''
// ---------- trusted stand-ins: rustls / webpki / quinn as uninterpreted predicates ----------
#[derive(Debug)]
pub struct Error { pub tag: u8 }
impl Error { #[verifier::external_body] pub fn msg() -> (r: Error) { unimplemented!() } }
pub type Result<T, E = Error> = core::result::Result<T, E>;
pub struct AsStdError { pub e: Error }
impl From<Error> for AsStdError { #[verifier::external_body] fn from(e: Error) -> (r: AsStdError) { unimplemented!() } }
pub struct CertificateDer { pub der: Seq<u8> }
pub struct ServerName { pub n: Seq<char> }
pub struct UnixTime { pub t: u64 }
pub struct DigitallySignedStruct { pub scheme: rustls::SignatureScheme, pub sig: Seq<u8> }
pub struct ServerCertVerified;
pub struct ClientCertVerified;
pub struct HandshakeSignatureValid;
impl HandshakeSignatureValid { #[verifier::external_body] pub fn assertion() -> (r: Self) { unimplemented!() } }
impl ServerCertVerified { #[verifier::external_body] pub fn assertion() -> (r: Self) { unimplemented!() } }
#[derive(PartialEq, Eq, Clone, Copy, Structural)]
pub enum SignatureScheme { ED25519, EcdsaNistp256Sha256, RsaPssSha256, Unknown }
pub struct WebPkiSupportedAlgorithms { pub id: u8 }
// the crate's static: ED25519 only (its definition is checked textually on every run, obligation structural::supported_algorithms)
pub open spec fn ed25519_only() -> WebPkiSupportedAlgorithms { WebPkiSupportedAlgorithms { id: 1 } }
pub exec static SUPPORTED_ALGORITHMS: WebPkiSupportedAlgorithms ensures SUPPORTED_ALGORITHMS == ed25519_only() { WebPkiSupportedAlgorithms { id: 1 } }
pub mod rustls {
    use super::*;
    pub use super::SignatureScheme;
    pub struct OtherError(pub Arc<AsStdError>);
    pub enum CertificateError { BadEncoding, BadSignature, Other(OtherError) }
    pub enum Error { InvalidCertificate(CertificateError), UnsupportedNameType, General(u8) }
    pub mod client { pub mod danger { pub use super::super::super::HandshakeSignatureValid; } }
    pub mod crypto {
        use super::super::*;
        // "the remote end proved it holds the private key of the certificate's public key": rustls' check of the handshake signature
        pub uninterp spec fn sig_ok(tls13: bool, message: Seq<u8>, cert: CertificateDer, dss: DigitallySignedStruct, algs: WebPkiSupportedAlgorithms) -> bool;
        #[verifier::external_body]
        pub fn verify_tls12_signature(message: &[u8], cert: &CertificateDer, dss: &DigitallySignedStruct, algs: &WebPkiSupportedAlgorithms) -> (r: core::result::Result<HandshakeSignatureValid, super::Error>)
            ensures r is Ok <==> sig_ok(false, message@, *cert, *dss, *algs) { unimplemented!() }
        #[verifier::external_body]
        pub fn verify_tls13_signature(message: &[u8], cert: &CertificateDer, dss: &DigitallySignedStruct, algs: &WebPkiSupportedAlgorithms) -> (r: core::result::Result<HandshakeSignatureValid, super::Error>)
            ensures r is Ok <==> sig_ok(true, message@, *cert, *dss, *algs) { unimplemented!() }
    }
}
// identity = the Ed25519 key decoded (pkcs8) from the SubjectPublicKeyInfo of the X.509-parsed certificate.  The two parsers are
// uninterpreted (x509-parser, ed25519/pkcs8); WHICH field is decoded, and that every failure is an error, is verified below
pub uninterp spec fn x509_spki(der: Seq<u8>) -> Option<Seq<u8>>;              // x509-parser: raw SubjectPublicKeyInfo of a well-formed certificate
pub uninterp spec fn x509_other_key_like_field(der: Seq<u8>) -> Seq<u8>;       // anything else the parser exposes (never the identity)
pub uninterp spec fn ed25519_of_spki(raw: Seq<u8>) -> Option<[u8; 32]>;       // pkcs8::DecodePublicKey for ed25519::pkcs8::PublicKeyBytes
pub open spec fn cert_id(cert: CertificateDer) -> core::result::Result<PeerId, ()> {
    match x509_spki(cert.der) {
        Some(raw) => match ed25519_of_spki(raw) { Some(k) => Ok(PeerId(k)), None => Err(()) },
        None => Err(()),
    }
}
impl CertificateDer {
    #[verifier::external_body] pub fn as_ref(&self) -> (r: &[u8]) ensures r@ == self.der { unimplemented!() }
}
pub mod x509_parser {
    use super::*;
    pub struct X509Error;
    pub mod certificate {
        use super::super::*;
        pub struct SubjectPublicKeyInfo<'a> { pub raw: &'a [u8], pub subject_public_key: &'a [u8] }
        pub struct TbsCertificate<'a> { pub subject_pki: SubjectPublicKeyInfo<'a>, pub raw_serial: &'a [u8] }
        pub struct X509Certificate<'a> { pub tbs_certificate: TbsCertificate<'a>, pub signature_value: &'a [u8] }
        impl<'a> X509Certificate<'a> {
            #[verifier::external_body]
            pub fn public_key(&self) -> (r: &SubjectPublicKeyInfo<'a>) ensures *r == self.tbs_certificate.subject_pki { unimplemented!() }
        }
        impl<'a> super::prelude::FromDer<'a> for X509Certificate<'a> {
            #[verifier::external_body]
            fn from_der(i: &'a [u8]) -> (r: core::result::Result<(&'a [u8], Self), super::X509Error>)
                ensures r is Ok <==> x509_spki(i@) is Some, r is Ok ==> r->Ok_0.1.tbs_certificate.subject_pki.raw@ == x509_spki(i@)->Some_0
            { unimplemented!() }
        }
    }
    pub mod prelude {
        pub trait FromDer<'a>: Sized { fn from_der(i: &'a [u8]) -> core::result::Result<(&'a [u8], Self), super::X509Error>; }
    }
}
pub mod pkcs8 {
    pub struct SpkiError;
    pub trait DecodePublicKey: Sized { fn from_public_key_der(bytes: &[u8]) -> core::result::Result<Self, SpkiError>; }
}
pub mod ed25519 {
    pub mod pkcs8 {
        use super::super::*;
        pub struct PublicKeyBytes(pub [u8; 32]);
        impl PublicKeyBytes { #[verifier::external_body] pub fn to_bytes(&self) -> (r: [u8; 32]) ensures r == self.0 { unimplemented!() } }
        impl super::super::pkcs8::DecodePublicKey for PublicKeyBytes {
            #[verifier::external_body]
            fn from_public_key_der(bytes: &[u8]) -> (r: core::result::Result<Self, super::super::pkcs8::SpkiError>)
                ensures r is Ok <==> ed25519_of_spki(bytes@) is Some, r is Ok ==> r->Ok_0.0 == ed25519_of_spki(bytes@)->Some_0
            { unimplemented!() }
        }
    }
}

pub trait ServerCertVerifier {
    fn verify_server_cert(&self, end_entity: &CertificateDer, intermediates: &[CertificateDer], server_name: &ServerName, ocsp_response: &[u8], now: UnixTime) -> core::result::Result<ServerCertVerified, rustls::Error>;
    fn verify_tls12_signature(&self, message: &[u8], cert: &CertificateDer, dss: &DigitallySignedStruct) -> core::result::Result<HandshakeSignatureValid, rustls::Error>;
    fn verify_tls13_signature(&self, message: &[u8], cert: &CertificateDer, dss: &DigitallySignedStruct) -> core::result::Result<HandshakeSignatureValid, rustls::Error>;
}
pub trait ClientCertVerifier {
    fn offer_client_auth(&self) -> bool;
    fn client_auth_mandatory(&self) -> bool;
}
// the base verifier's certificate check (self-signed, Ed25519, valid for an accepted network name): NOT verified, uninterpreted
pub uninterp spec fn base_cert_ok(v: CertVerifier, end_entity: CertificateDer, intermediates: Seq<CertificateDer>, server_name: ServerName, now: UnixTime) -> bool;

// quinn::Connection: what the TLS layer reports as the peer's certificate chain (rustls: end-entity first)
pub struct QuinnConnection { pub chain: Seq<CertificateDer>, pub sid: usize }
pub trait Chain { spec fn certs(&self) -> Seq<CertificateDer>; }
impl Chain for Vec<CertificateDer> { open spec fn certs(&self) -> Seq<CertificateDer> { self@ } }
pub struct AnyBox { pub chain: Seq<CertificateDer> }
impl AnyBox {
    #[verifier::external_body]
    pub fn downcast<T: Chain>(self) -> (r: core::result::Result<Box<T>, AnyBox>) ensures r is Ok, r->Ok_0.certs() == self.chain { unimplemented!() }
}
impl QuinnConnection {
    #[verifier::external_body]
    pub fn peer_identity(&self) -> (r: Option<AnyBox>) ensures r is Some, r->Some_0.chain == self.chain { unimplemented!() }
}
// quinn::SendStream: finished (all data handed over, FIN sent), reset (abandoned with an error code), or still open
pub struct QuinnSendStream { pub finished: bool, pub reset_code: Option<u64> }
pub struct VarInt { pub v: u64 }
impl From<u8> for VarInt { #[verifier::external_body] fn from(x: u8) -> (r: VarInt) ensures r.v == x as u64 { unimplemented!() } }
pub struct ClosedStream;
impl QuinnSendStream {
    // reset abandons the stream unless it is already closed (finished or reset), in which case it reports ClosedStream and changes nothing
    #[verifier::external_body]
    pub fn reset(&mut self, code: VarInt) -> (r: core::result::Result<(), ClosedStream>)
        ensures (old(self).finished || old(self).reset_code is Some) ==> r is Err && *final(self) == *old(self),
                !(old(self).finished || old(self).reset_code is Some) ==> r is Ok && final(self).reset_code == Some(code.v) && final(self).finished == old(self).finished { unimplemented!() }
}
pub mod quinn { pub use super::QuinnConnection as Connection; pub use super::QuinnSendStream as SendStream; }
'''

SPEC = r'''
// =====================================================================================================
// Oracle written from the statements of C01 / C03
// =====================================================================================================
// C03: "succeeds only if the endpoint reached holds that identity's private key": the certificate accepted for a pinned dial
// carries exactly the expected public key AND passes the ordinary certificate validation
pub open spec fn pinned_accepts(v: ExpectedCertVerifier, end_entity: CertificateDer, intermediates: Seq<CertificateDer>, server_name: ServerName, now: UnixTime) -> bool {
    cert_id(end_entity) is Ok && cert_id(end_entity)->Ok_0 == v.1 && base_cert_ok(v.0, end_entity, intermediates, server_name, now)
}
'''


def unprefix_params(e):
    """X9: parameter names written with a leading underscore (`_message`) are renamed without it, consistently"""
    t2, k = re.subn(r'\b_(message|cert|dss)\b', r'\1', e.text)
    if k:
        e.text = t2
        e.log('X9', 'parameter(s) with a leading underscore renamed (x%d) so that the contract can name them' % k)


def name_closure_params(e):
    """X9: `|_|` closure parameters get a name (Verus does not accept `_` there)"""
    t2, k = re.subn(r'\|_\|', '|_unused|', e.text)
    if k:
        e.text = t2
        e.log('X9', '`|_|` closure parameter named (x%d)' % k)


def sig_contract(who, tls13):
    return '''
    ensures
        r is Ok <==> rustls::crypto::sig_ok(%s, message@, *cert, *dss, ed25519_only()), // @OBL %s::verify_tls1%s_signature::delegates_ed25519_only [C01,C03] the handshake signature (proof of holding the private key) is accepted iff rustls accepts it for this certificate restricted to Ed25519: never unconditionally, never with a wider algorithm list
''' % ('true' if tls13 else 'false', who, '3' if tls13 else '2')


def build(ctx):
    C = ctx
    C.helper_rewrites = [dict(rule='X5', pattern=r"\bCertificateDer<'\w+>", repl='CertificateDer', regex=True), dict(rule='X5', pattern='anyhow::Error', repl='Error')]
    t = P.HEADER.replace('use std::collections::HashMap;', 'use std::collections::HashMap;\nuse std::sync::Arc;') + P.STD_SPECS
    t += P.peer_types(C) + P.PEER_ID_AXIOMS
    t += C.item(CRYPTO, 'struct CertVerifier')
    t += C.item(CRYPTO, 'struct ExpectedCertVerifier')
    t += STANDINS + SPEC
    sigrw = [dict(rule='X5', pattern=r"\bCertificateDer<'\w+>", repl='CertificateDer', regex=True, optional=True),
             dict(rule='X5', pattern='rustls::DigitallySignedStruct', repl='DigitallySignedStruct', optional=True)]
    # ---- CertVerifier as server-cert verifier (client side of a dial without pin) ---------------------------------
    t += '''
impl ServerCertVerifier for CertVerifier {
    #[verifier::external_body]
    fn verify_server_cert(&self, end_entity: &CertificateDer, intermediates: &[CertificateDer], server_name: &ServerName, ocsp_response: &[u8], now: UnixTime) -> (r: core::result::Result<ServerCertVerified, rustls::Error>)
        ensures r is Ok <==> base_cert_ok(*self, *end_entity, intermediates@, *server_name, now) { unimplemented!() }   // NOT verified (iterator / closure pipeline, webpki)
'''
    for v in ('2', '3'):
        t += C.fn(CRYPTO, 'impl ServerCertVerifier for CertVerifier :: fn verify_tls1%s_signature' % v, 'CertVerifier(server)::verify_tls1%s_signature' % v,
                  ['C01'], ret='r', pub=False, rewrites=sigrw, transforms=[unprefix_params], spec=sig_contract('CertVerifier(server)', v == '3'))
    t += '}\nimpl ClientCertVerifier for CertVerifier {\n'
    t += C.fn(CRYPTO, 'impl ClientCertVerifier for CertVerifier :: fn offer_client_auth', 'CertVerifier::offer_client_auth', ['C01'], ret='r', pub=False, spec='''
    ensures
        r == true, // @OBL CertVerifier::offer_client_auth::always [C01] a listener always asks the dialer for a certificate
''')
    t += C.fn(CRYPTO, 'impl ClientCertVerifier for CertVerifier :: fn client_auth_mandatory', 'CertVerifier::client_auth_mandatory', ['C01'], ret='r', pub=False, spec='''
    ensures
        r == true, // @OBL CertVerifier::client_auth_mandatory::always [C01] client authentication is mandatory: a dialer without a certificate is never admitted (mTLS)
''')
    t += '}\n// (rendered as free functions: this Verus build cannot resolve two same-named trait methods on one type)\n'
    for v in ('2', '3'):
        t += C.fn(CRYPTO, 'impl ClientCertVerifier for CertVerifier :: fn verify_tls1%s_signature' % v, 'CertVerifier(client)::verify_tls1%s_signature' % v,
                  ['C01'], ret='r', pub=False, rewrites=sigrw, transforms=[unprefix_params], spec=sig_contract('CertVerifier(client)', v == '3'),
                  sig_rewrites=[('fn verify_tls1%s_signature(' % v, 'fn client_verify_tls1%s_signature(' % v), ('&self', '_self: &CertVerifier')])
    t += 'impl ServerCertVerifier for ExpectedCertVerifier {\n'
    t += C.fn(CRYPTO, 'impl ServerCertVerifier for ExpectedCertVerifier :: fn verify_server_cert', 'ExpectedCertVerifier::verify_server_cert',
              ['C03', 'C01'], ret='r', pub=False,
              rewrites=sigrw + [dict(rule='X5', pattern='&ServerName,', repl='&ServerName,', optional=True)],
              spec='''
    ensures
        r is Ok <==> pinned_accepts(*self, *end_entity, intermediates@, *server_name, now), // @OBL ExpectedCertVerifier::verify_server_cert::pin_and_validate [C03,C01] a dial that names the identity it expects accepts the answering certificate iff its public key IS that identity and the ordinary certificate validation accepts it: any other party answering is refused
''')
    for v in ('2', '3'):
        t += C.fn(CRYPTO, 'impl ServerCertVerifier for ExpectedCertVerifier :: fn verify_tls1%s_signature' % v, 'ExpectedCertVerifier::verify_tls1%s_signature' % v,
                  ['C01', 'C03'], ret='r', pub=False, rewrites=sigrw, transforms=[unprefix_params], spec=sig_contract('ExpectedCertVerifier', v == '3'))
    t += '}\n'
    # ---- the identity of a certificate (crypto.rs peer_id_from_certificate) -----------------------------------------
    t += C.fn(CRYPTO, 'fn peer_id_from_certificate', 'peer_id_from_certificate', ['C01', 'C03'], ret='r', transforms=[name_closure_params],
              spec='''
    ensures
        r is Ok <==> cert_id(*certificate) is Ok, // @OBL peer_id_from_certificate::fails_closed [C01,C03] an identity is produced only for a certificate that parses as X.509 AND whose SubjectPublicKeyInfo decodes as an Ed25519 key; every parser failure is an error
        r is Ok ==> r->Ok_0 == cert_id(*certificate)->Ok_0, // @OBL peer_id_from_certificate::is_subject_public_key [C01,C03] the PeerId is exactly the Ed25519 key decoded from the certificate's own SubjectPublicKeyInfo (the key the self-signature and the handshake signature are checked against), not any other field or byte pattern
''')
    # ---- which certificate the PeerId is read from (connection.rs) -------------------------------------------------
    t += '''
pub struct Connection { pub inner: QuinnConnection, pub peer_id: PeerId, pub origin: ConnectionOrigin, pub time_established: Instant }
pub struct Instant;
impl Instant { #[verifier::external_body] pub fn now() -> (r: Instant) { unimplemented!() } }
impl From<rustls::Error> for Error { #[verifier::external_body] fn from(e: rustls::Error) -> (r: Error) { unimplemented!() } }
impl Connection {
'''
    t += C.fn(CONN, 'impl Connection :: fn try_peer_id', 'Connection::try_peer_id', ['C01'], ret='r',
              rewrites=[dict(rule='X5', pattern='crate::crypto::peer_id_from_certificate', repl='peer_id_from_certificate', optional=True)],
              spec='''
    requires
        connection.chain.len() >= 1,      // ASSUMED: with mandatory client authentication rustls reports a non-empty chain, end-entity first
    ensures
        r is Ok <==> cert_id(connection.chain[0]) is Ok, // @OBL Connection::try_peer_id::end_entity_only [C01] the identity is read from the FIRST certificate of the chain (the end-entity certificate whose key signed the handshake), never from another one
        r is Ok ==> r->Ok_0 == cert_id(connection.chain[0])->Ok_0, // @OBL Connection::try_peer_id::is_public_key [C01] the PeerId attributed to the remote end is the public key parsed from that certificate
''')
    t += C.fn(CONN, 'impl Connection :: fn new', 'Connection::new', ['C01'], ret='r',
              rewrites=[dict(rule='X5', pattern='std::time::Instant', repl='Instant', optional=True)],
              spec='''
    requires
        inner.chain.len() >= 1,
    ensures
        r is Ok ==> r->Ok_0.peer_id == cert_id(inner.chain[0])->Ok_0 && r->Ok_0.origin == origin && r->Ok_0.inner == inner, // @OBL Connection::new::identity_from_handshake [C01] a connection is only reported as established with the identity of the certificate authenticated in ITS OWN handshake
''')
    t += '}\n'
    # ---- the send half of a stream is reset when it is dropped without having been finished (connection.rs) -------------
    t += C.item(CONN, 'struct SendStream', derives=False)
    t += 'impl SendStream {\n'
    t += C.fn(CONN, 'impl Drop for SendStream :: fn drop', 'SendStream::drop', ['C02', 'C12'], pub=True,
              sig_rewrites=[('fn drop(', 'fn drop_impl(')], spec='''
    ensures
        !old(self).0.finished ==> final(self).0.reset_code is Some, // @OBL SendStream::drop::unfinished_stream_is_reset [C02,C12] a send half that is dropped before it was finished is RESET, never silently closed: a response or request cut short by an error can not be mistaken by the other side for a complete one
        old(self).0.finished ==> *final(self) == *old(self), // @OBL SendStream::drop::finished_stream_untouched [C02] a finished stream is left as it is
''')
    t += '}\n'
    t += C.helpers_here()
    t += P.FOOTER
    t += 'impl std::fmt::Debug for AnyBox { fn fmt(&self, _f: &mut std::fmt::Formatter<\'_>) -> std::fmt::Result { Ok(()) } }\n'
    return t


# ---- textual check of the two statics (they are `&[&dyn Trait]` tables Verus cannot hold) -------------------------
EXPECTED_STATICS = {
    'SUPPORTED_SIG_ALGS': 'static SUPPORTED_SIG_ALGS: &[&dyn SignatureVerificationAlgorithm] = &[webpki::ring::ED25519];',
    'SUPPORTED_ALGORITHMS': 'static SUPPORTED_ALGORITHMS: WebPkiSupportedAlgorithms = WebPkiSupportedAlgorithms { all: SUPPORTED_SIG_ALGS, '
                            'mapping: &[(rustls::SignatureScheme::ED25519, SUPPORTED_SIG_ALGS)], };',
}


def structural(ctx):
    """returns [(name, ok, detail)] -- a mismatch makes the unit undecided (textual difference is not evidence of a defect)"""
    from unitlib import extract
    out = []
    for name, want in EXPECTED_STATICS.items():
        e = extract(ctx.repo, CRYPTO, 'static ' + name)
        e.strip_docs()
        got = norm(e.text)
        out.append((name, norm(want) == got, got))
    return out
