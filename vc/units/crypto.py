"""Unit crypto (Verus): anemo's identity-attribution glue around rustls / webpki (C01 glue, C03 pin).

Functions under contract: crypto.rs ExpectedCertVerifier::verify_server_cert, the six verify_tls1{2,3}_signature impls,
CertVerifier::{offer_client_auth, client_auth_mandatory, verify_server_cert, verify_client_cert}, prepare_for_self_signed, pki_error,
peer_id_from_certificate; connection.rs Connection::{new, try_peer_id}.
Everything cryptographic is an uninterpreted predicate: rustls::crypto::verify_tls1x_signature, x509 parsing, and webpki's four entry points
(EndEntityCert::try_from, anchor_from_trusted_cert, verify_for_usage, verify_is_valid_for_subject_name).  What IS verified about the two
certificate verifiers is the glue the property C14 lives in: which certificate is the trust root (the end entity itself: self-signed), which
algorithms and which key usage webpki is asked for, that every webpki failure is a refusal, that the requested name must be one the verifier is
configured for and the certificate valid for it (dialer side) / valid for at least one accepted name (listener side).
Shape rules X13 (trusted, stated here): three iterator pipelines Verus does not accept are rendered as calls of assumed generic functions whose
contracts quantify over the closure's own contract --
    <recv>.iter().find(<closure>)                                   -> iter_find(&<recv>, <closure>)
    <recv>.iter().map(<closure>).collect::<Result<Vec<_>, _>>()     -> iter_map_collect_result(&<recv>, <closure>)
    <recv>.into_iter().any(<closure>)                               -> into_iter_any(<recv>, <closure>)
and the three closures get the contract that their body's shape determines (a string comparison; ServerName::try_from; a subject-name check);
a closure of another shape stays without contract (the function is then tainted: undecided unless a failing input is reproduced).
The two statics SUPPORTED_SIG_ALGS / SUPPORTED_ALGORITHMS are checked textually, see `structural`.
"""
import re
import prelude as P
from unitlib import norm

NAME = 'crypto'
BACKEND = 'verus'
CRYPTO = 'crates/anemo/src/crypto.rs'
CONN = 'crates/anemo/src/connection.rs'

STANDINS = r'''
// ---------- trusted stand-ins: rustls / webpki / quinn as uninterpreted predicates ----------
#[derive(Debug)]
pub struct Error { pub tag: u8 }
impl Error { #[verifier::external_body] pub fn msg() -> (r: Error) { unimplemented!() } }
pub type Result<T, E = Error> = core::result::Result<T, E>;
pub struct AsStdError { pub e: Error }
impl From<Error> for AsStdError { #[verifier::external_body] fn from(e: Error) -> (r: AsStdError) { unimplemented!() } }
pub struct CertificateDer { pub der: Seq<u8> }
// rustls::pki_types::ServerName: a DNS name (its text) or an IP address
pub struct DnsName { pub n: Seq<char> }
impl DnsName { #[verifier::external_body] pub fn as_ref(&self) -> (r: &str) ensures r@ == self.n { unimplemented!() } }
pub struct IpAddrName { pub a: u8 }
pub enum ServerName { DnsName(DnsName), IpAddress(IpAddrName) }
pub struct InvalidDnsNameError;
pub uninterp spec fn dns_name_wf(s: Seq<char>) -> bool;     // rustls: the text is syntactically a DNS name (or an IP address literal: excluded, network names are not)
impl ServerName {
    #[verifier::external_body] pub fn try_from(s: &str) -> (r: core::result::Result<ServerName, InvalidDnsNameError>)
        ensures r is Ok <==> dns_name_wf(s@), r is Ok ==> r->Ok_0 == ServerName::DnsName(DnsName { n: s@ }) { unimplemented!() }
}
pub struct UnixTime { pub t: u64 }
pub struct DigitallySignedStruct { pub scheme: rustls::SignatureScheme, pub sig: Seq<u8> }
pub struct ServerCertVerified;
pub struct ClientCertVerified;
pub struct HandshakeSignatureValid;
impl HandshakeSignatureValid { #[verifier::external_body] pub fn assertion() -> (r: Self) { unimplemented!() } }
impl ServerCertVerified { #[verifier::external_body] pub fn assertion() -> (r: Self) { unimplemented!() } }
impl ClientCertVerified { #[verifier::external_body] pub fn assertion() -> (r: Self) { unimplemented!() } }
#[derive(PartialEq, Eq, Clone, Copy, Structural)]
pub enum SignatureScheme { ED25519, EcdsaNistp256Sha256, RsaPssSha256, Unknown }
pub struct WebPkiSupportedAlgorithms { pub id: u8 }
// the crate's static: ED25519 only (its definition is checked textually on every run, obligation structural::supported_algorithms)
pub open spec fn ed25519_only() -> WebPkiSupportedAlgorithms { WebPkiSupportedAlgorithms { id: 1 } }
pub exec static SUPPORTED_ALGORITHMS: WebPkiSupportedAlgorithms ensures SUPPORTED_ALGORITHMS == ed25519_only() { WebPkiSupportedAlgorithms { id: 1 } }
pub mod rustls {
    use super::*;
    pub use super::SignatureScheme;
    pub struct OtherError(pub Arc<AsStdError>);
    pub enum CertificateError { BadEncoding, BadSignature, Other(OtherError) }
    pub struct GeneralMsg;
    impl<'a> From<&'a str> for GeneralMsg { #[verifier::external_body] fn from(s: &'a str) -> (r: GeneralMsg) { unimplemented!() } }
    pub enum Error { InvalidCertificate(CertificateError), UnsupportedNameType, General(GeneralMsg) }
    pub mod client { pub mod danger { pub use super::super::super::HandshakeSignatureValid; } }
    pub mod crypto {
        use super::super::*;
        // "the remote end proved it holds the private key of the certificate's public key": rustls' check of the handshake signature
        pub uninterp spec fn sig_ok(tls13: bool, message: Seq<u8>, cert: CertificateDer, dss: DigitallySignedStruct, algs: WebPkiSupportedAlgorithms) -> bool;
        #[verifier::external_body]
        pub fn verify_tls12_signature(message: &[u8], cert: &CertificateDer, dss: &DigitallySignedStruct, algs: &WebPkiSupportedAlgorithms) -> (r: core::result::Result<HandshakeSignatureValid, super::Error>)
            ensures r is Ok <==> sig_ok(false, message@, *cert, *dss, *algs) { unimplemented!() }
        #[verifier::external_body]
        pub fn verify_tls13_signature(message: &[u8], cert: &CertificateDer, dss: &DigitallySignedStruct, algs: &WebPkiSupportedAlgorithms) -> (r: core::result::Result<HandshakeSignatureValid, super::Error>)
            ensures r is Ok <==> sig_ok(true, message@, *cert, *dss, *algs) { unimplemented!() }
    }
}
// identity = the Ed25519 key decoded (pkcs8) from the SubjectPublicKeyInfo of the X.509-parsed certificate.  The two parsers are
// uninterpreted (x509-parser, ed25519/pkcs8); WHICH field is decoded, and that every failure is an error, is verified below
pub uninterp spec fn x509_spki(der: Seq<u8>) -> Option<Seq<u8>>;              // x509-parser: raw SubjectPublicKeyInfo of a well-formed certificate
pub uninterp spec fn x509_other_key_like_field(der: Seq<u8>) -> Seq<u8>;       // anything else the parser exposes (never the identity)
pub uninterp spec fn ed25519_of_spki(raw: Seq<u8>) -> Option<[u8; 32]>;       // pkcs8::DecodePublicKey for ed25519::pkcs8::PublicKeyBytes
pub open spec fn cert_id(cert: CertificateDer) -> core::result::Result<PeerId, ()> {
    match x509_spki(cert.der) {
        Some(raw) => match ed25519_of_spki(raw) { Some(k) => Ok(PeerId(k)), None => Err(()) },
        None => Err(()),
    }
}
impl CertificateDer {
    #[verifier::external_body] pub fn as_ref(&self) -> (r: &[u8]) ensures r@ == self.der { unimplemented!() }
}
pub mod x509_parser {
    use super::*;
    pub struct X509Error;
    pub mod certificate {
        use super::super::*;
        pub struct SubjectPublicKeyInfo<'a> { pub raw: &'a [u8], pub subject_public_key: &'a [u8] }
        pub struct TbsCertificate<'a> { pub subject_pki: SubjectPublicKeyInfo<'a>, pub raw_serial: &'a [u8] }
        pub struct X509Certificate<'a> { pub tbs_certificate: TbsCertificate<'a>, pub signature_value: &'a [u8] }
        impl<'a> X509Certificate<'a> {
            #[verifier::external_body]
            pub fn public_key(&self) -> (r: &SubjectPublicKeyInfo<'a>) ensures *r == self.tbs_certificate.subject_pki { unimplemented!() }
        }
        impl<'a> super::prelude::FromDer<'a> for X509Certificate<'a> {
            #[verifier::external_body]
            fn from_der(i: &'a [u8]) -> (r: core::result::Result<(&'a [u8], Self), super::X509Error>)
                ensures r is Ok <==> x509_spki(i@) is Some, r is Ok ==> r->Ok_0.1.tbs_certificate.subject_pki.raw@ == x509_spki(i@)->Some_0
            { unimplemented!() }
        }
    }
    pub mod prelude {
        pub trait FromDer<'a>: Sized { fn from_der(i: &'a [u8]) -> core::result::Result<(&'a [u8], Self), super::X509Error>; }
    }
}
pub mod pkcs8 {
    pub struct SpkiError;
    pub trait DecodePublicKey: Sized { fn from_public_key_der(bytes: &[u8]) -> core::result::Result<Self, SpkiError>; }
}
pub mod ed25519 {
    pub mod pkcs8 {
        use super::super::*;
        pub struct PublicKeyBytes(pub [u8; 32]);
        impl PublicKeyBytes { #[verifier::external_body] pub fn to_bytes(&self) -> (r: [u8; 32]) ensures r == self.0 { unimplemented!() } }
        impl super::super::pkcs8::DecodePublicKey for PublicKeyBytes {
            #[verifier::external_body]
            fn from_public_key_der(bytes: &[u8]) -> (r: core::result::Result<Self, super::super::pkcs8::SpkiError>)
                ensures r is Ok <==> ed25519_of_spki(bytes@) is Some, r is Ok ==> r->Ok_0.0 == ed25519_of_spki(bytes@)->Some_0
            { unimplemented!() }
        }
    }
}

// ---------- webpki (rustls-webpki) as four uninterpreted entry points ----------
#[derive(Clone, Copy)]
pub struct SigAlgs { pub id: u8 }
pub open spec fn ed25519_sig_algs() -> SigAlgs { SigAlgs { id: 1 } }
// the crate's static: [webpki::ring::ED25519] (its definition is checked textually on every run, obligation structural::supported_sig_algs)
pub exec static SUPPORTED_SIG_ALGS: SigAlgs ensures SUPPORTED_SIG_ALGS == ed25519_sig_algs() { SigAlgs { id: 1 } }
#[derive(PartialEq, Eq, Clone, Copy, Structural)]
pub enum KeyUsage { Server, Client }
impl KeyUsage {
    pub fn server_auth() -> (r: KeyUsage) ensures r == KeyUsage::Server { KeyUsage::Server }
    pub fn client_auth() -> (r: KeyUsage) ensures r == KeyUsage::Client { KeyUsage::Client }
}
pub struct TrustAnchor { pub of: Seq<u8> }          // a trust anchor made from the certificate with this DER
pub mod webpki {
    use super::*;
    pub use super::{KeyUsage, TrustAnchor};
    pub enum Error { BadDer, BadDerTime, InvalidSignatureForPublicKey, UnsupportedSignatureAlgorithm, UnsupportedSignatureAlgorithmForPublicKey,
                     CertExpired, CertNotValidYet, CertNotValidForName, UnknownIssuer, RequiredEkuNotFound, Other }
    pub uninterp spec fn ee_parses(der: Seq<u8>) -> bool;          // EndEntityCert::try_from accepts the DER
    pub uninterp spec fn anchor_parses(der: Seq<u8>) -> bool;      // anchor_from_trusted_cert accepts the DER
    // path validation: the end entity chains, through the given intermediates, to one of the GIVEN trust anchors, every signature on the way made
    // with one of the GIVEN algorithms, everything within its validity at `now`, the end entity permitting the GIVEN usage
    pub uninterp spec fn path_ok(ee: Seq<u8>, algs: SigAlgs, roots: Seq<TrustAnchor>, inter: Seq<CertificateDer>, now: UnixTime, usage: KeyUsage) -> bool;
    pub uninterp spec fn name_ok(ee: Seq<u8>, name: ServerName) -> bool;   // the certificate is valid for this subject name
    pub struct EndEntityCert { pub der: Seq<u8> }
    pub struct VerifiedPath { pub ee: Seq<u8> }
    pub struct RevocationOptions;
    pub struct Policy;
    impl EndEntityCert {
        #[verifier::external_body] pub fn try_from(c: &CertificateDer) -> (r: core::result::Result<EndEntityCert, Error>)
            ensures r is Ok <==> ee_parses(c.der), r is Ok ==> r->Ok_0.der == c.der { unimplemented!() }
        #[verifier::external_body] pub fn verify_for_usage(&self, algs: SigAlgs, roots: &Vec<TrustAnchor>, inter: &[CertificateDer], now: UnixTime, usage: KeyUsage, rev: Option<RevocationOptions>, pol: Option<Policy>) -> (r: core::result::Result<VerifiedPath, Error>)
            ensures r is Ok <==> path_ok(self.der, algs, roots@, inter@, now, usage), r is Ok ==> r->Ok_0.ee == self.der { unimplemented!() }
        #[verifier::external_body] pub fn verify_is_valid_for_subject_name(&self, name: &ServerName) -> (r: core::result::Result<(), Error>)
            ensures r is Ok <==> name_ok(self.der, *name) { unimplemented!() }
    }
    impl VerifiedPath { #[verifier::external_body] pub fn end_entity(&self) -> (r: &EndEntityCert) ensures r.der == self.ee { unimplemented!() } }
    #[verifier::external_body] pub fn anchor_from_trusted_cert(c: &CertificateDer) -> (r: core::result::Result<TrustAnchor, Error>)
        ensures r is Ok <==> anchor_parses(c.der), r is Ok ==> r->Ok_0.of == c.der { unimplemented!() }
}
pub use webpki::Error::*;
// ---------- X13: the three iterator pipelines of the certificate verifiers as assumed generic functions over the closure's own contract ----------
#[verifier::external_body]
pub fn iter_find<'a, T, F: Fn(&&'a T) -> bool>(v: &'a Vec<T>, f: F) -> (r: Option<&'a T>)
    requires forall|i: int| 0 <= i < v@.len() ==> call_requires(f, (&&v@[i],)),
    ensures r is Some ==> exists|i: int| 0 <= i < v@.len() && *r->Some_0 == #[trigger] v@[i] && call_ensures(f, (&&v@[i],), true),
            r is None ==> forall|i: int| 0 <= i < v@.len() ==> call_ensures(f, (&&#[trigger] v@[i],), false),
{ v.iter().find(f) }
#[verifier::external_body]
pub fn iter_map_collect_result<'a, T, U, E, F: Fn(&'a T) -> core::result::Result<U, E>>(v: &'a Vec<T>, f: F) -> (r: core::result::Result<Vec<U>, E>)
    requires forall|i: int| 0 <= i < v@.len() ==> call_requires(f, (&v@[i],)),
    ensures r is Ok ==> r->Ok_0@.len() == v@.len() && forall|i: int| #![trigger r->Ok_0@[i]] #![trigger v@[i]] 0 <= i < v@.len() ==> call_ensures(f, (&v@[i],), Ok(r->Ok_0@[i])),
            r is Err ==> exists|i: int| 0 <= i < v@.len() && call_ensures(f, (&#[trigger] v@[i],), Err(r->Err_0)),
{ v.iter().map(f).collect::<core::result::Result<Vec<U>, E>>() }
#[verifier::external_body]
pub fn into_iter_any<T, F: FnMut(T) -> bool>(v: Vec<T>, f: F) -> (r: bool)
    requires forall|i: int| 0 <= i < v@.len() ==> call_requires(f, (v@[i],)),
    ensures r ==> exists|i: int| 0 <= i < v@.len() && call_ensures(f, (#[trigger] v@[i],), true),
            !r ==> forall|i: int| 0 <= i < v@.len() ==> call_ensures(f, (#[trigger] v@[i],), false),
{ v.into_iter().any(f) }

pub trait ServerCertVerifier {
    fn verify_server_cert(&self, end_entity: &CertificateDer, intermediates: &[CertificateDer], server_name: &ServerName, ocsp_response: &[u8], now: UnixTime) -> core::result::Result<ServerCertVerified, rustls::Error>;
    fn verify_tls12_signature(&self, message: &[u8], cert: &CertificateDer, dss: &DigitallySignedStruct) -> core::result::Result<HandshakeSignatureValid, rustls::Error>;
    fn verify_tls13_signature(&self, message: &[u8], cert: &CertificateDer, dss: &DigitallySignedStruct) -> core::result::Result<HandshakeSignatureValid, rustls::Error>;
}
pub trait ClientCertVerifier {
    fn offer_client_auth(&self) -> bool;
    fn client_auth_mandatory(&self) -> bool;
    fn verify_client_cert(&self, end_entity: &CertificateDer, intermediates: &[CertificateDer], now: UnixTime) -> core::result::Result<ClientCertVerified, rustls::Error>;
}

// quinn::Connection: what the TLS layer reports as the peer's certificate chain (rustls: end-entity first)
pub struct QuinnConnection { pub chain: Seq<CertificateDer>, pub sid: usize }
pub trait Chain { spec fn certs(&self) -> Seq<CertificateDer>; }
impl Chain for Vec<CertificateDer> { open spec fn certs(&self) -> Seq<CertificateDer> { self@ } }
pub struct AnyBox { pub chain: Seq<CertificateDer> }
impl AnyBox {
    #[verifier::external_body]
    pub fn downcast<T: Chain>(self) -> (r: core::result::Result<Box<T>, AnyBox>) ensures r is Ok, r->Ok_0.certs() == self.chain { unimplemented!() }
}
impl QuinnConnection {
    #[verifier::external_body]
    pub fn peer_identity(&self) -> (r: Option<AnyBox>) ensures r is Some, r->Some_0.chain == self.chain { unimplemented!() }
}
// quinn::SendStream: finished (all data handed over, FIN sent), reset (abandoned with an error code), or still open
pub struct QuinnSendStream { pub finished: bool, pub reset_code: Option<u64> }
pub struct VarInt { pub v: u64 }
impl From<u8> for VarInt { #[verifier::external_body] fn from(x: u8) -> (r: VarInt) ensures r.v == x as u64 { unimplemented!() } }
pub struct ClosedStream;
impl QuinnSendStream {
    // reset abandons the stream unless it is already closed (finished or reset), in which case it reports ClosedStream and changes nothing
    #[verifier::external_body]
    pub fn reset(&mut self, code: VarInt) -> (r: core::result::Result<(), ClosedStream>)
        ensures (old(self).finished || old(self).reset_code is Some) ==> r is Err && *final(self) == *old(self),
                !(old(self).finished || old(self).reset_code is Some) ==> r is Ok && final(self).reset_code == Some(code.v) && final(self).finished == old(self).finished { unimplemented!() }
}
pub mod quinn { pub use super::QuinnConnection as Connection; pub use super::QuinnSendStream as SendStream; }
'''

SPEC = r'''
// =====================================================================================================
// Oracle written from the statements of C01 / C03
// =====================================================================================================
// C03: "succeeds only if the endpoint reached holds that identity's private key": the certificate accepted for a pinned dial
// carries exactly the expected public key AND passes the ordinary certificate validation
pub open spec fn pinned_accepts(v: ExpectedCertVerifier, end_entity: CertificateDer, intermediates: Seq<CertificateDer>, server_name: ServerName, now: UnixTime) -> bool {
    cert_id(end_entity) is Ok && cert_id(end_entity)->Ok_0 == v.1 && base_cert_ok(v.0, end_entity, intermediates, server_name, now)
}

// C14 / C01, written from the statement.  A certificate is "a valid self-signed Ed25519 certificate permitting <usage>" when webpki parses it,
// and validates it against a trust store holding NOTHING BUT this very certificate, with Ed25519 as the only signature algorithm
pub open spec fn self_signed_ok(ee: CertificateDer, inter: Seq<CertificateDer>, now: UnixTime, usage: KeyUsage) -> bool {
    &&& webpki::ee_parses(ee.der) && webpki::anchor_parses(ee.der)
    &&& webpki::path_ok(ee.der, ed25519_sig_algs(), seq![TrustAnchor { of: ee.der }], inter, now, usage)
}
pub open spec fn configured_name(v: CertVerifier, n: Seq<char>) -> bool { exists|i: int| 0 <= i < v.server_names@.len() && #[trigger] v.server_names@[i]@ == n }
// what a DIALER demands of the listener's certificate: valid self-signed Ed25519 for server authentication, the name it asked for is a DNS name
// the verifier is configured for (the dialer's own network name, unit tls_config), and the certificate is valid for exactly that name
pub open spec fn base_cert_ok(v: CertVerifier, end_entity: CertificateDer, intermediates: Seq<CertificateDer>, server_name: ServerName, now: UnixTime) -> bool {
    &&& self_signed_ok(end_entity, intermediates, now, KeyUsage::Server)
    &&& server_name is DnsName && configured_name(v, server_name->DnsName_0.n)
    &&& webpki::name_ok(end_entity.der, server_name)
}
// what a LISTENER demands of a dialer's certificate: valid self-signed Ed25519 for client authentication, valid for at least one of the names the
// listener accepts (its primary or alternate network name, unit tls_config)
pub open spec fn client_cert_ok(v: CertVerifier, end_entity: CertificateDer, intermediates: Seq<CertificateDer>, now: UnixTime) -> bool {
    &&& self_signed_ok(end_entity, intermediates, now, KeyUsage::Client)
    &&& exists|i: int| 0 <= i < v.server_names@.len() && webpki::name_ok(end_entity.der, ServerName::DnsName(DnsName { n: #[trigger] v.server_names@[i]@ }))
}
pub open spec fn names_wf(v: CertVerifier) -> bool { forall|i: int| 0 <= i < v.server_names@.len() ==> dns_name_wf(#[trigger] v.server_names@[i]@) }
'''


def unprefix_params(e):
    """X9: parameter names written with a leading underscore (`_message`) are renamed without it, consistently"""
    t2, k = re.subn(r'\b_(message|cert|dss)\b', r'\1', e.text)
    if k:
        e.text = t2
        e.log('X9', 'parameter(s) with a leading underscore renamed (x%d) so that the contract can name them' % k)


def unprefix_ocsp(e):
    """X9: `_ocsp_response` -> `ocsp_response` (the trait declaration names it so)"""
    t2, k = re.subn(r'\b_ocsp_response\b', 'ocsp_response', e.text)
    if k:
        e.text = t2
        e.log('X9', 'parameter with a leading underscore renamed')


def name_closure_params(e):
    """X9: `|_|` closure parameters get a name (Verus does not accept `_` there)"""
    t2, k = re.subn(r'\|_\|', '|_unused|', e.text)
    if k:
        e.text = t2
        e.log('X9', '`|_|` closure parameter named (x%d)' % k)


def eta_pki_error(e):
    """X11: the function path handed to map_err is eta-expanded"""
    t2, k = re.subn(r'\.map_err\(\s*pki_error\s*\)', '.map_err(|e| pki_error(e))', e.text)
    if k:
        e.text = t2
        e.log('X11', '`.map_err(pki_error)` eta-expanded (x%d)' % k)


def _closure_at(t, i):
    """t[i] == '|': returns (param, body, end) of `|param| body` whose end is the `)` closing the call the closure is an argument of"""
    m = re.compile(r'\|\s*(\w+)\s*\|\s*').match(t, i)
    if not m:
        return None
    depth, j = 0, m.end()
    while j < len(t):
        c = t[j]
        if c in '([{':
            depth += 1
        elif c in ')]}':
            if depth == 0:
                break
            depth -= 1
        j += 1
    return m.group(1), t[m.end():j].strip(), j


def pipelines(e):
    """X13: the three iterator pipelines -> assumed generic functions; the closures get the contract their body's shape determines"""
    t = e.text
    k = 0
    # <recv>.iter().find(|x| <body>)
    m = re.search(r'(\bself\s*\.\s*\w+)\s*\.\s*iter\(\)\s*\.\s*find\(\s*(?=\|)', t)
    if m:
        c = _closure_at(t, m.end())
        if c:
            x, body, end = c
            b = re.fullmatch(r'(\w+)\.as_str\(\)\s*==\s*(\w+)\.as_ref\(\)', body)
            ann = ('|%s: &&String| -> (b: bool) ensures b == (%s@ == %s.n) { %s }' % (x, b.group(1), b.group(2), body)) if b and b.group(1) == x else '|%s| %s' % (x, body)
            t = t[:m.start()] + 'iter_find(&%s, %s' % (re.sub(r'\s+', '', m.group(1)), ann) + t[end:]
            k += 1
    # <recv>.iter().map(|x| <body>).collect::<Result<Vec<_>, _>>()
    m = re.search(r'(\bself\s*\.\s*\w+)\s*\.\s*iter\(\)\s*\.\s*map\(\s*(?=\|)', t)
    if m:
        c = _closure_at(t, m.end())
        if c:
            x, body, end = c
            m2 = re.compile(r'\)\s*\.\s*collect::<\s*Result<\s*Vec<_>\s*,\s*_\s*>\s*>\(\)').match(t, end)
            if m2:
                b = re.fullmatch(r'ServerName::try_from\(\s*(\w+)\.as_str\(\)\s*\)', body)
                ann = ('|%s: &String| -> (o: core::result::Result<ServerName, InvalidDnsNameError>) ensures o is Ok <==> dns_name_wf(%s@), o is Ok ==> o->Ok_0 == ServerName::DnsName(DnsName { n: %s@ }) { %s }'
                       % (x, x, x, body)) if b and b.group(1) == x else '|%s| %s' % (x, body)
                t = t[:m.start()] + 'iter_map_collect_result(&%s, %s)' % (re.sub(r'\s+', '', m.group(1)), ann) + t[m2.end():]
                k += 1
    # <local>.into_iter().any(|x| <body>)
    m = re.search(r'\b(\w+)\s*\.\s*into_iter\(\)\s*\.\s*any\(\s*(?=\|)', t)
    if m:
        c = _closure_at(t, m.end())
        if c:
            x, body, end = c
            b = re.fullmatch(r'\{\s*(\w+)\s*\.\s*end_entity\(\)\s*\.\s*verify_is_valid_for_subject_name\(\s*&(\w+)\s*\)\s*\.\s*is_ok\(\)\s*\}', body)
            ann = ('|%s: ServerName| -> (b: bool) ensures b == webpki::name_ok(%s.ee, %s) %s' % (x, b.group(1), x, body)) if b and b.group(2) == x else '|%s| %s' % (x, body)
            t = t[:m.start()] + 'into_iter_any(%s, %s' % (m.group(1), ann) + t[end:]
            k += 1
    if k:
        e.text = t
        e.log('X13', 'iterator pipeline(s) rendered as assumed generic functions over the closure contract (x%d)' % k)


def sig_contract(who, tls13):
    return '''
    ensures
        r is Ok <==> rustls::crypto::sig_ok(%s, message@, *cert, *dss, ed25519_only()), // @OBL %s::verify_tls1%s_signature::delegates_ed25519_only [C01,C03] the handshake signature (proof of holding the private key) is accepted iff rustls accepts it for this certificate restricted to Ed25519: never unconditionally, never with a wider algorithm list
''' % ('true' if tls13 else 'false', who, '3' if tls13 else '2')


def build(ctx):
    C = ctx
    C.helper_rewrites = [dict(rule='X5', pattern=r"\bCertificateDer<'\w+>", repl='CertificateDer', regex=True), dict(rule='X5', pattern='anyhow::Error', repl='Error')]
    t = P.HEADER.replace('use std::collections::HashMap;', 'use std::collections::HashMap;\nuse std::sync::Arc;') + P.STD_SPECS
    t += P.peer_types(C) + P.PEER_ID_AXIOMS
    t += C.item(CRYPTO, 'struct CertVerifier')
    t += C.item(CRYPTO, 'struct ExpectedCertVerifier')
    t += STANDINS + SPEC
    sigrw = [dict(rule='X5', pattern=r"\bCertificateDer<'\w+>", repl='CertificateDer', regex=True, optional=True),
             dict(rule='X5', pattern='rustls::DigitallySignedStruct', repl='DigitallySignedStruct', optional=True)]
    # ---- CertVerifier as server-cert verifier (client side of a dial without pin) ---------------------------------
    ltrw = [dict(rule='X5', pattern=r"\b(CertificateDer|EndEntityCert|TrustAnchor)<'\w+>", repl=r'\1', regex=True, optional=True)]
    t += C.item(CRYPTO, 'type CertChainAndRoots', rewrites=[dict(rule='X5', pattern=r"\b(CertificateDer|EndEntityCert|TrustAnchor)<'a>", repl=r'\1', regex=True)])
    t += C.fn(CRYPTO, 'fn pki_error', 'pki_error', ['C14', 'C01', 'C06'], ret='r', rewrites=ltrw,
              prose='total: every webpki error is turned into a rustls error, no panic')
    t += C.fn(CRYPTO, 'fn prepare_for_self_signed', 'prepare_for_self_signed', ['C14', 'C01', 'C03'], ret='r', rewrites=ltrw, transforms=[eta_pki_error], spec='''
    ensures
        r is Ok <==> webpki::ee_parses(end_entity.der) && webpki::anchor_parses(end_entity.der), // @OBL prepare_for_self_signed::fails_closed [C14,C01] a certificate webpki cannot parse (as an end entity, as a trust anchor) is refused
        r is Ok ==> r->Ok_0.0.der == end_entity.der && r->Ok_0.1@ == intermediates@, // @OBL prepare_for_self_signed::validates_the_presented_certificate [C14,C01,C03] the certificate handed to webpki for validation is the one the peer presented as its own, with the intermediates it sent
        r is Ok ==> r->Ok_0.2@ == seq![TrustAnchor { of: end_entity.der }], // @OBL prepare_for_self_signed::only_trust_root_is_the_certificate_itself [C14,C01,C03] the trust store holds exactly one anchor, made from the presented end-entity certificate itself (self-signed policy): never a certificate from the chain the peer sent along, never a second root
''')
    t += 'impl ServerCertVerifier for CertVerifier {\n'
    t += C.fn(CRYPTO, 'impl ServerCertVerifier for CertVerifier :: fn verify_server_cert', 'CertVerifier::verify_server_cert', ['C14', 'C01', 'C03'], ret='r', pub=False,
              rewrites=sigrw + ltrw, transforms=[unprefix_ocsp, name_closure_params, eta_pki_error, pipelines], spec='''
    ensures
        r is Ok ==> self_signed_ok(*end_entity, intermediates@, now, KeyUsage::Server), // @OBL CertVerifier::verify_server_cert::valid_self_signed_ed25519_for_server_auth [C14,C01,C03] a dialer accepts a listener's certificate only if webpki validates it as self-signed (its own and only trust root), Ed25519, within its validity, permitting server authentication
        r is Ok ==> server_name is DnsName && configured_name(*self, server_name->DnsName_0.n), // @OBL CertVerifier::verify_server_cert::requested_name_is_configured [C14] ... only if the name the dial asked for is a DNS name this verifier is configured for (the dialer's own network name)
        r is Ok ==> webpki::name_ok(end_entity.der, *server_name), // @OBL CertVerifier::verify_server_cert::certificate_valid_for_requested_name [C14] ... only if the certificate is valid for exactly the name asked for: a listener of another network is refused whatever its key
        base_cert_ok(*self, *end_entity, intermediates@, *server_name, now) ==> r is Ok, // @OBL CertVerifier::verify_server_cert::accepts_own_network [C14,C05,C13] and a certificate that meets all of that is accepted (nodes of the same network can connect)
''')
    for v in ('2', '3'):
        t += C.fn(CRYPTO, 'impl ServerCertVerifier for CertVerifier :: fn verify_tls1%s_signature' % v, 'CertVerifier(server)::verify_tls1%s_signature' % v,
                  ['C01'], ret='r', pub=False, rewrites=sigrw, transforms=[unprefix_params], spec=sig_contract('CertVerifier(server)', v == '3'))
    t += '}\nimpl ClientCertVerifier for CertVerifier {\n'
    t += C.fn(CRYPTO, 'impl ClientCertVerifier for CertVerifier :: fn offer_client_auth', 'CertVerifier::offer_client_auth', ['C01'], ret='r', pub=False, spec='''
    ensures
        r == true, // @OBL CertVerifier::offer_client_auth::always [C01] a listener always asks the dialer for a certificate
''')
    t += C.fn(CRYPTO, 'impl ClientCertVerifier for CertVerifier :: fn client_auth_mandatory', 'CertVerifier::client_auth_mandatory', ['C01'], ret='r', pub=False, spec='''
    ensures
        r == true, // @OBL CertVerifier::client_auth_mandatory::always [C01] client authentication is mandatory: a dialer without a certificate is never admitted (mTLS)
''')
    t += C.fn(CRYPTO, 'impl ClientCertVerifier for CertVerifier :: fn verify_client_cert', 'CertVerifier::verify_client_cert', ['C14', 'C01'], ret='r', pub=False,
              rewrites=sigrw + ltrw, transforms=[name_closure_params, eta_pki_error, pipelines], spec='''
    ensures
        r is Ok ==> self_signed_ok(*end_entity, intermediates@, now, KeyUsage::Client), // @OBL CertVerifier::verify_client_cert::valid_self_signed_ed25519_for_client_auth [C14,C01] a listener admits a dialer's certificate only if webpki validates it as self-signed (its own and only trust root), Ed25519, within its validity, permitting client authentication
        r is Ok ==> client_cert_ok(*self, *end_entity, intermediates@, now), // @OBL CertVerifier::verify_client_cert::valid_for_an_accepted_name [C14] ... and only if it is valid for at least one of the names the listener accepts: a dialer of another network is refused whatever its key
        names_wf(*self) && client_cert_ok(*self, *end_entity, intermediates@, now) ==> r is Ok, // @OBL CertVerifier::verify_client_cert::accepts_own_network [C14,C05,C13] and (the configured names being well-formed DNS names) a certificate that meets all of that is admitted
''')
    t += '}\n// (rendered as free functions: this Verus build cannot resolve two same-named trait methods on one type)\n'
    for v in ('2', '3'):
        t += C.fn(CRYPTO, 'impl ClientCertVerifier for CertVerifier :: fn verify_tls1%s_signature' % v, 'CertVerifier(client)::verify_tls1%s_signature' % v,
                  ['C01'], ret='r', pub=False, rewrites=sigrw, transforms=[unprefix_params], spec=sig_contract('CertVerifier(client)', v == '3'),
                  sig_rewrites=[('fn verify_tls1%s_signature(' % v, 'fn client_verify_tls1%s_signature(' % v), ('&self', '_self: &CertVerifier')])
    t += 'impl ServerCertVerifier for ExpectedCertVerifier {\n'
    t += C.fn(CRYPTO, 'impl ServerCertVerifier for ExpectedCertVerifier :: fn verify_server_cert', 'ExpectedCertVerifier::verify_server_cert',
              ['C03', 'C01'], ret='r', pub=False,
              rewrites=sigrw + [dict(rule='X5', pattern='&ServerName,', repl='&ServerName,', optional=True)],
              spec='''
    ensures
        r is Ok <==> pinned_accepts(*self, *end_entity, intermediates@, *server_name, now), // @OBL ExpectedCertVerifier::verify_server_cert::pin_and_validate [C03,C01] a dial that names the identity it expects accepts the answering certificate iff its public key IS that identity and the ordinary certificate validation accepts it: any other party answering is refused
''')
    for v in ('2', '3'):
        t += C.fn(CRYPTO, 'impl ServerCertVerifier for ExpectedCertVerifier :: fn verify_tls1%s_signature' % v, 'ExpectedCertVerifier::verify_tls1%s_signature' % v,
                  ['C01', 'C03'], ret='r', pub=False, rewrites=sigrw, transforms=[unprefix_params], spec=sig_contract('ExpectedCertVerifier', v == '3'))
    t += '}\n'
    # ---- the identity of a certificate (crypto.rs peer_id_from_certificate) -----------------------------------------
    t += C.fn(CRYPTO, 'fn peer_id_from_certificate', 'peer_id_from_certificate', ['C01', 'C03'], ret='r', transforms=[name_closure_params],
              spec='''
    ensures
        r is Ok <==> cert_id(*certificate) is Ok, // @OBL peer_id_from_certificate::fails_closed [C01,C03] an identity is produced only for a certificate that parses as X.509 AND whose SubjectPublicKeyInfo decodes as an Ed25519 key; every parser failure is an error
        r is Ok ==> r->Ok_0 == cert_id(*certificate)->Ok_0, // @OBL peer_id_from_certificate::is_subject_public_key [C01,C03] the PeerId is exactly the Ed25519 key decoded from the certificate's own SubjectPublicKeyInfo (the key the self-signature and the handshake signature are checked against), not any other field or byte pattern
''')
    # ---- which certificate the PeerId is read from (connection.rs) -------------------------------------------------
    t += '''
pub struct Connection { pub inner: QuinnConnection, pub peer_id: PeerId, pub origin: ConnectionOrigin, pub time_established: Instant }
pub struct Instant;
impl Instant { #[verifier::external_body] pub fn now() -> (r: Instant) { unimplemented!() } }
impl From<rustls::Error> for Error { #[verifier::external_body] fn from(e: rustls::Error) -> (r: Error) { unimplemented!() } }
impl Connection {
'''
    t += C.fn(CONN, 'impl Connection :: fn try_peer_id', 'Connection::try_peer_id', ['C01'], ret='r',
              rewrites=[dict(rule='X5', pattern='crate::crypto::peer_id_from_certificate', repl='peer_id_from_certificate', optional=True)],
              spec='''
    requires
        connection.chain.len() >= 1,      // ASSUMED: with mandatory client authentication rustls reports a non-empty chain, end-entity first
    ensures
        r is Ok <==> cert_id(connection.chain[0]) is Ok, // @OBL Connection::try_peer_id::end_entity_only [C01] the identity is read from the FIRST certificate of the chain (the end-entity certificate whose key signed the handshake), never from another one
        r is Ok ==> r->Ok_0 == cert_id(connection.chain[0])->Ok_0, // @OBL Connection::try_peer_id::is_public_key [C01] the PeerId attributed to the remote end is the public key parsed from that certificate
''')
    t += C.fn(CONN, 'impl Connection :: fn new', 'Connection::new', ['C01'], ret='r',
              rewrites=[dict(rule='X5', pattern='std::time::Instant', repl='Instant', optional=True)],
              spec='''
    requires
        inner.chain.len() >= 1,
    ensures
        r is Ok ==> r->Ok_0.peer_id == cert_id(inner.chain[0])->Ok_0 && r->Ok_0.origin == origin && r->Ok_0.inner == inner, // @OBL Connection::new::identity_from_handshake [C01] a connection is only reported as established with the identity of the certificate authenticated in ITS OWN handshake
''')
    t += '}\n'
    # ---- the send half of a stream is reset when it is dropped without having been finished (connection.rs) -------------
    t += C.item(CONN, 'struct SendStream', derives=False)
    t += 'impl SendStream {\n'
    t += C.fn(CONN, 'impl Drop for SendStream :: fn drop', 'SendStream::drop', ['C02', 'C12'], pub=True,
              sig_rewrites=[('fn drop(', 'fn drop_impl(')], spec='''
    ensures
        !old(self).0.finished ==> final(self).0.reset_code is Some, // @OBL SendStream::drop::unfinished_stream_is_reset [C02,C12] a send half that is dropped before it was finished is RESET, never silently closed: a response or request cut short by an error can not be mistaken by the other side for a complete one
        old(self).0.finished ==> *final(self) == *old(self), // @OBL SendStream::drop::finished_stream_untouched [C02] a finished stream is left as it is
''')
    t += '}\n'
    t += C.helpers_here()
    t += P.FOOTER
    t += 'impl std::fmt::Debug for AnyBox { fn fmt(&self, _f: &mut std::fmt::Formatter<\'_>) -> std::fmt::Result { Ok(()) } }\n'
    return t


# ---- textual check of the two statics (they are `&[&dyn Trait]` tables Verus cannot hold) -------------------------
EXPECTED_STATICS = {
    'SUPPORTED_SIG_ALGS': 'static SUPPORTED_SIG_ALGS: &[&dyn SignatureVerificationAlgorithm] = &[webpki::ring::ED25519];',
    'SUPPORTED_ALGORITHMS': 'static SUPPORTED_ALGORITHMS: WebPkiSupportedAlgorithms = WebPkiSupportedAlgorithms { all: SUPPORTED_SIG_ALGS, '
                            'mapping: &[(rustls::SignatureScheme::ED25519, SUPPORTED_SIG_ALGS)], };',
}


def structural(ctx):
    """returns [(name, ok, detail)] -- a mismatch makes the unit undecided (textual difference is not evidence of a defect)"""
    from unitlib import extract
    out = []
    for name, want in EXPECTED_STATICS.items():
        e = extract(ctx.repo, CRYPTO, 'static ' + name)
        e.strip_docs()
        got = norm(e.text)
        out.append((name, norm(want) == got, got))
    return out
