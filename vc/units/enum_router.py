"""Unit enum_router (BOUNDED exhaustive enumeration, native execution): anemo's Router (routing/mod.rs Router::{new, route, add_rpc_service,
merge, route_layer}, `impl Service for Router`, RouteMatcher::{insert, at}, RouteId::next with its real static counter, try_downcast;
routing/route.rs Route::{new, oneshot_inner}, `impl Service for Route`; routing/not_found.rs NotFound) compiled as it is against executable
stand-ins for tower (services are synchronous: a "future" already holds its result) and a MODEL of the matchit 0.5 trie.

The model of matchit (trusted, stated; the execution check `routing_table` runs the same table of patterns and route strings through the real
matchit on every run): a pattern is an exact path, or `<prefix>/*name`, which matches every route string that starts with `<prefix>/` and has
(the tail may be empty: matchit 0.5 answers `/s/` for `/s/*rest`; the statement does not say, so the oracle accepts either answer
for exactly that case); inserting a pattern twice is refused; lookup returns the exact pattern if present, otherwise the catch-all
pattern with the longest prefix; patterns with `:name` segments are outside the model."""
import prelude as P

NAME = 'enum_router'
BACKEND = 'enum'
RT = 'crates/anemo/src/routing/mod.rs'
ROUTE = 'crates/anemo/src/routing/route.rs'
NF = 'crates/anemo/src/routing/not_found.rs'
RESP = 'crates/anemo/src/types/response.rs'
COVER = {'router_histories': [0, 1, 2, 3, 4, 5, 6]}

PRELUDE = r'''// GENERATED on every run by /verif/vc from /repo's working tree -- do not edit
#![allow(dead_code, unused, non_upper_case_globals, non_camel_case_types)]
use std::collections::{BTreeMap, HashMap};
use std::convert::Infallible;
use std::fmt;
use std::sync::Arc;
#[derive(Clone, Debug, PartialEq)] pub struct Bytes;
pub mod bytes { pub use super::Bytes; }
#[derive(Clone, Debug, PartialEq)] pub struct Request<T> { pub route: String, pub body: T }
impl<T> Request<T> { pub fn route(&self) -> &str { &self.route } pub fn body(&self) -> &T { &self.body } pub fn into_body(self) -> T { self.body } }
// a response remembers who produced and who post-processed it: the service's id first, then every layer it passed on the way out
#[derive(Clone, Debug, PartialEq)] pub struct Response<T> { pub status: StatusCode, pub trace: Vec<u32>, pub body: T }
impl<T> Response<T> { pub fn status(&self) -> StatusCode { self.status } }
pub trait IntoResponse { fn into_response(self) -> Response<Bytes>; }
impl IntoResponse for StatusCode { fn into_response(self) -> Response<Bytes> { Response { status: self, trace: Vec::new(), body: Bytes } } }
pub mod types { pub mod response { pub use super::super::{IntoResponse, StatusCode}; } }
pub mod rpc { pub trait RpcService { const SERVICE_NAME: &'static str; } }
// ---- tower, synchronously: a future is a value that already holds its output ------------------------------------------------------------
pub trait NowFuture { type Output; fn now(self) -> Self::Output; }
impl<T> NowFuture for std::future::Ready<T> { type Output = T; fn now(self) -> T { self.into_inner() } }
pub mod tower {
    use super::*;
    pub trait Service<Req> {
        type Response; type Error;
        type Future: NowFuture<Output = Result<Self::Response, Self::Error>>;
        fn poll_ready(&mut self, cx: &mut std::task::Context<'_>) -> std::task::Poll<Result<(), Self::Error>>;
        fn call(&mut self, req: Req) -> Self::Future;
    }
    pub trait Layer<S> { type Service; fn layer(&self, inner: S) -> Self::Service; }
    pub trait ServiceExt<Req>: Service<Req> { fn oneshot(mut self, req: Req) -> util::Oneshot<Self, Req> where Self: Sized { util::Oneshot { out: Some(self.call(req).now()) } } }
    impl<T: Service<Req>, Req> ServiceExt<Req> for T {}
    pub mod util {
        use super::*;
        pub struct Oneshot<S: Service<Req>, Req> { pub out: Option<Result<S::Response, S::Error>> }
        impl<S: Service<Req>, Req> NowFuture for Oneshot<S, Req> { type Output = Result<S::Response, S::Error>; fn now(mut self) -> Self::Output { self.out.take().unwrap() } }
        trait Dyn<Req, Resp, Err>: Send { fn call_now(&mut self, req: Req) -> Result<Resp, Err>; fn boxed_clone(&self) -> Box<dyn Dyn<Req, Resp, Err>>; }
        impl<T, Req, Resp, Err> Dyn<Req, Resp, Err> for T where T: Service<Req, Response = Resp, Error = Err> + Clone + Send + 'static {
            fn call_now(&mut self, req: Req) -> Result<Resp, Err> { self.call(req).now() }
            fn boxed_clone(&self) -> Box<dyn Dyn<Req, Resp, Err>> { Box::new(self.clone()) }
        }
        pub struct BoxCloneService<Req, Resp, Err>(Box<dyn Dyn<Req, Resp, Err>>);
        impl<Req, Resp, Err> BoxCloneService<Req, Resp, Err> {
            pub fn new<T>(svc: T) -> Self where T: Service<Req, Response = Resp, Error = Err> + Clone + Send + 'static, T::Future: Send + 'static { BoxCloneService(Box::new(svc)) }
        }
        impl<Req, Resp, Err> Clone for BoxCloneService<Req, Resp, Err> { fn clone(&self) -> Self { BoxCloneService(self.0.boxed_clone()) } }
        impl<Req, Resp, Err> Service<Req> for BoxCloneService<Req, Resp, Err> {
            type Response = Resp; type Error = Err; type Future = std::future::Ready<Result<Resp, Err>>;
            fn poll_ready(&mut self, _cx: &mut std::task::Context<'_>) -> std::task::Poll<Result<(), Err>> { std::task::Poll::Ready(Ok(())) }
            fn call(&mut self, req: Req) -> Self::Future { std::future::ready(self.0.call_now(req)) }
        }
    }
}
use tower::{util::{BoxCloneService, Oneshot}, Service, ServiceExt};
// ---- the model of matchit 0.5 (see the unit's docstring) -----------------------------------------------------------------------------------
pub mod matchit {
    #[derive(Debug, PartialEq)] pub enum MatchError { MissingTrailingSlash, ExtraTrailingSlash, NotFound }
    #[derive(Debug)] pub enum InsertError { Conflict { with: String }, Unsupported }
    impl std::fmt::Display for InsertError { fn fmt(&self, f: &mut std::fmt::Formatter<'_>) -> std::fmt::Result { write!(f, "{:?}", self) } }
    pub struct Params;
    pub struct Match<'k, 'v, V> { pub value: V, pub params: std::marker::PhantomData<(&'k (), &'v ())> }
    #[derive(Clone)] pub struct Router<T> { pub pats: Vec<(String, T)> }
    impl<T> Default for Router<T> { fn default() -> Self { Router { pats: Vec::new() } } }
    impl<T> Router<T> {
        pub fn new() -> Self { Self::default() }
        pub fn insert(&mut self, route: impl Into<String>, value: T) -> Result<(), InsertError> {
            let route: String = route.into();
            if route.contains(':') || route[..route.len().saturating_sub(1)].contains('*') && !route.rsplit('/').next().unwrap_or("").starts_with('*') { return Err(InsertError::Unsupported); }
            if self.pats.iter().any(|p| p.0 == route) { return Err(InsertError::Conflict { with: route }); }
            self.pats.push((route, value));
            Ok(())
        }
        pub fn at<'m, 'p>(&'m self, path: &'p str) -> Result<Match<'m, 'p, &'m T>, MatchError> {
            if let Some(p) = self.pats.iter().find(|p| !p.0.contains('*') && p.0 == path) { return Ok(Match { value: &p.1, params: std::marker::PhantomData }); }
            let mut best: Option<(&String, &T)> = None;
            for p in self.pats.iter() {
                if let Some(star) = p.0.find('*') {
                    let prefix = &p.0[..star];       // ends with '/'
                    if path.starts_with(prefix) && best.map_or(true, |b| b.0.len() < p.0.len()) { best = Some((&p.0, &p.1)); }
                }
            }
            best.map(|b| Match { value: b.1, params: std::marker::PhantomData }).ok_or(MatchError::NotFound)
        }
    }
}
'''

HARNESS = r'''
pub static mut COVER: [u64; 8] = [0; 8];
pub fn cover(i: usize) { unsafe { COVER[i] += 1; } }
pub struct Chooser { pub path: Vec<(u32, u32)>, pub pos: usize }
impl Chooser {
    pub fn below(&mut self, n: u32) -> u32 { if self.pos == self.path.len() { self.path.push((0, n)); } let c = self.path[self.pos].0; self.pos += 1; c }
    pub fn any_bool(&mut self) -> bool { self.below(2) == 1 }
}
fn run_all(name: &str, f: fn(&mut Chooser)) {
    let mut path: Vec<(u32, u32)> = Vec::new();
    let (mut runs, mut failures, mut first): (u64, u64, Option<(Vec<u32>, String)>) = (0, 0, None);
    loop {
        let mut ch = Chooser { path: path.clone(), pos: 0 };
        let res = std::panic::catch_unwind(std::panic::AssertUnwindSafe(|| f(&mut ch)));
        runs += 1;
        path = ch.path;
        if let Err(e) = res {
            failures += 1;
            if first.is_none() {
                let msg = e.downcast_ref::<String>().cloned().or_else(|| e.downcast_ref::<&str>().map(|s| s.to_string())).unwrap_or_default();
                first = Some((path.iter().map(|c| c.0).collect(), msg));
            }
        }
        while let Some((c, n)) = path.pop() { if c + 1 < n { path.push((c + 1, n)); break; } }
        if path.is_empty() { break; }
    }
    let (p, m) = first.unwrap_or_default();
    let cov = unsafe { let c = COVER; COVER = [0; 8]; c };
    println!("{{\"harness\": \"{}\", \"runs\": {}, \"failures\": {}, \"first_failing_choices\": {:?}, \"message\": {:?}, \"cover\": {:?}}}", name, runs, failures, p, m, cov);
}
pub fn main() {
    let args: Vec<String> = std::env::args().collect();
    if args.len() == 4 && args[1] == "--replay" {
        let choices: Vec<(u32, u32)> = args[3].split(',').filter(|s| !s.is_empty()).map(|s| (s.trim().parse().unwrap(), u32::MAX)).collect();
        let mut ch = Chooser { path: choices, pos: 0 };
        harness::router_histories(&mut ch);
        println!("no assertion failed for this choice sequence");
        return;
    }
    std::panic::set_hook(Box::new(|_| {}));
    run_all("router_histories", harness::router_histories);
}
pub mod harness {
    use super::*;
    // a user service: answers Success and signs the response with its id
    #[derive(Clone)] pub struct Svc(pub u32);
    impl Service<Request<Bytes>> for Svc {
        type Response = Response<Bytes>; type Error = Infallible; type Future = std::future::Ready<Result<Response<Bytes>, Infallible>>;
        fn poll_ready(&mut self, _cx: &mut std::task::Context<'_>) -> std::task::Poll<Result<(), Infallible>> { std::task::Poll::Ready(Ok(())) }
        fn call(&mut self, _req: Request<Bytes>) -> Self::Future { std::future::ready(Ok(Response { status: StatusCode::Success, trace: vec![self.0], body: Bytes })) }
    }
    // generated RPC services: a service plus the name the router registers it under
    #[derive(Clone)] pub struct RpcS(pub u32);
    impl rpc::RpcService for RpcS { const SERVICE_NAME: &'static str = "s"; }
    impl Service<Request<Bytes>> for RpcS {
        type Response = Response<Bytes>; type Error = Infallible; type Future = std::future::Ready<Result<Response<Bytes>, Infallible>>;
        fn poll_ready(&mut self, _cx: &mut std::task::Context<'_>) -> std::task::Poll<Result<(), Infallible>> { std::task::Poll::Ready(Ok(())) }
        fn call(&mut self, _req: Request<Bytes>) -> Self::Future { std::future::ready(Ok(Response { status: StatusCode::Success, trace: vec![self.0], body: Bytes })) }
    }
    // a route-level middleware: signs every response that comes back through it
    #[derive(Clone)] pub struct Tag(pub u32);
    #[derive(Clone)] pub struct Tagged<S> { pub id: u32, pub inner: S }
    impl<S> tower::Layer<S> for Tag { type Service = Tagged<S>; fn layer(&self, inner: S) -> Tagged<S> { Tagged { id: self.0, inner } } }
    impl<S: Service<Request<Bytes>, Response = Response<Bytes>, Error = Infallible>> Service<Request<Bytes>> for Tagged<S> {
        type Response = Response<Bytes>; type Error = Infallible; type Future = std::future::Ready<Result<Response<Bytes>, Infallible>>;
        fn poll_ready(&mut self, _cx: &mut std::task::Context<'_>) -> std::task::Poll<Result<(), Infallible>> { std::task::Poll::Ready(Ok(())) }
        fn call(&mut self, req: Request<Bytes>) -> Self::Future { let mut r = self.inner.call(req).now().unwrap(); r.trace.push(self.id); std::future::ready(Ok(r)) }
    }
    pub const PATTERNS: [&str; 5] = ["/a", "/a/b", "/s/*rest", "/t/*rest", "/"];
    pub const QUERIES: [&str; 16] = ["", "/", "/a", "/a/", "/a/b", "/a/b/c", "/s", "/s/", "/s/x", "/s/x/y", "/t/m", "/u", "a", "/A", "/s/*rest", "//"];
    // the statement's reading of one pattern
    fn pattern_matches(p: &str, q: &str) -> bool { match p.find('*') { None => p == q, Some(star) => q.len() > star && q.starts_with(&p[..star]) } }
    // a wildcard tail and a route string that ends right where the tail would begin: the statement does not say whether the empty tail counts
    fn empty_tail(p: &str, q: &str) -> bool { match p.find('*') { None => false, Some(star) => q == &p[..star] } }
    // what the statement says a router is: (pattern, service, route-level middleware applied so far, innermost first)
    type Table = Vec<(String, u32, Vec<u32>)>;
    pub const STEPS: usize = 3;
    fn build(ch: &mut Chooser, steps: usize, depth: u32, next_id: &mut u32, nesting: bool) -> Option<(Router, Table)> {
        let mut r = Router::new();
        let mut t: Table = Vec::new();
        for _ in 0..steps {
            // depth 0: route / middleware / stop / RPC service / merge; depth 1 (a router being merged): route / middleware / stop / merge (of a depth-2 router);
            // depth 2: route / middleware / stop
            let op = match (depth, ch.below(if depth == 0 { 5 } else if depth == 1 && nesting && t.is_empty() { 4 } else { 3 })) { (1, 3) => 4, (_, o) => o };
            match op {
                0 | 3 => {     // a route (3: an RPC service under its name)
                    *next_id += 1; let id = *next_id;
                    let p = if op == 3 { "/s/*rest".to_owned() } else { PATTERNS[ch.below(PATTERNS.len() as u32) as usize].to_owned() };
                    let dup = t.iter().any(|e| e.0 == p);
                    let p2 = p.clone();
                    let res = std::panic::catch_unwind(std::panic::AssertUnwindSafe(move || if op == 3 { r.add_rpc_service(RpcS(id)) } else { r.route(&p2, Svc(id)) }));
                    match res {
                        Ok(nr) => { assert!(!dup, "the same pattern was registered twice without complaint: one of the two services can no longer be reached"); r = nr; }
                        Err(_) => { assert!(dup, "registering a fresh pattern panicked"); cover(0); return None; }
                    }
                    t.push((p, id, Vec::new()));
                }
                1 => { *next_id += 1; let id = *next_id; r = r.route_layer(Tag(id)); for e in t.iter_mut() { e.2.push(id); } cover(1); }
                2 => { if ch.any_bool() { cover(5); return Some((r, t)); } }     // stop early
                _ => {         // merge another router (built with up to 2 operations of its own)
                    let (o, ot) = match build(ch, if depth == 0 { 2 } else { 1 }, depth + 1, next_id, nesting) { Some(x) => x, None => return None };
                    if depth > 0 { cover(6); }
                    let clash = ot.iter().any(|e| t.iter().any(|f| f.0 == e.0));
                    let res = std::panic::catch_unwind(std::panic::AssertUnwindSafe(move || r.merge(o)));
                    match res {
                        Ok(nr) => { assert!(!clash, "two routers with a common pattern were merged without complaint"); r = nr; t.extend(ot); cover(2); }
                        Err(_) => { assert!(clash, "merging routers without a common pattern panicked"); return None; }
                    }
                }
            }
        }
        Some((r, t))
    }
    pub fn router_histories(ch: &mut Chooser) { // @EOBL [C16] @BOUNDED the real Router (route, add_rpc_service, merge, route_layer, call; RouteMatcher; RouteId::next with its static counter; Route; NotFound) on the model of matchit, for every history of STEPS operations (the thorough tier: one more) out of: register one of 5 patterns (exact paths, wildcard tails, the root) with a fresh service, register an RPC service under its name, apply a route-level middleware, merge another router built by up to 2 operations (one of which may itself be the merge of a third router): registering a pattern twice (directly or through a merge) panics, nothing else does; then for EACH of 16 route strings (empty, odd and well-formed ones): the request is answered by exactly the service registered for the one pattern matching it, having passed exactly the route-level middleware applied after that route was registered (in order), or -- if no pattern matches -- by NotFound with no middleware run; routing never panics on any route string
        let mut next_id = 0u32;
        // either STEPS operations whose merged routers are built from routes and middleware only, or one operation fewer with merged routers that may
        // themselves have received routes by a merge
        let nesting = ch.any_bool();
        let (router, table) = match build(ch, if nesting { STEPS - 1 } else { STEPS }, 0, &mut next_id, nesting) { Some(x) => x, None => return };
        for q in QUERIES.iter() {
            let hits: Vec<&(String, u32, Vec<u32>)> = table.iter().filter(|e| pattern_matches(&e.0, q)).collect();
            assert!(hits.len() <= 1, "harness: two patterns of the pool match one route string");
            let got = router.clone().call(Request { route: q.to_string(), body: Bytes }).now().unwrap();
            let maybe: Vec<&(String, u32, Vec<u32>)> = table.iter().filter(|e| empty_tail(&e.0, q)).collect();
            if hits.is_empty() && !maybe.is_empty() {
                let e = maybe[0];
                let mut want = vec![e.1]; want.extend(e.2.iter().copied());
                assert!((got.status == StatusCode::Success && got.trace == want) || (got.status == StatusCode::NotFound && got.trace.is_empty()), "route {:?} (empty wildcard tail of {:?}): neither that pattern's service behind its middleware nor a plain NotFound: status {:?} trace {:?}", q, e.0, got.status, got.trace);
                continue;
            }
            match hits.first() {
                Some(e) => {
                    let mut want = vec![e.1]; want.extend(e.2.iter().copied());
                    if !e.2.is_empty() { cover(3); }
                    assert!(got.status == StatusCode::Success && got.trace == want, "route {:?}: expected the service {} registered for {:?} behind middleware {:?}, got status {:?} trace {:?}", q, e.1, e.0, e.2, got.status, got.trace);
                }
                None => { cover(4); assert!(got.status == StatusCode::NotFound && got.trace.is_empty(), "route {:?} matches no registered pattern: expected NotFound with no middleware run, got status {:?} trace {:?}", q, got.status, got.trace); }
            }
        }
    }
}
'''


def build(ctx):
    C = ctx
    t = PRELUDE
    t += C.item(RESP, 'enum StatusCode', extra_derive=['Debug'])
    t += C.item(ROUTE, 'struct Route')
    t += 'impl Route {\n'
    t += C.fn(ROUTE, 'impl Route :: fn new', 'Route::new', ['C16'], probe=False)
    t += C.fn(ROUTE, 'impl Route :: fn oneshot_inner', 'Route::oneshot_inner', ['C16'], probe=False)
    t += '}\nimpl Service<Request<Bytes>> for Route {\n    type Response = Response<Bytes>;\n    type Error = Infallible;\n    type Future = Oneshot<BoxCloneService<Request<Bytes>, Response<Bytes>, Infallible>, Request<Bytes>>;\n'
    t += C.fn(ROUTE, 'impl Service<Request<Bytes>> for Route :: fn poll_ready', 'Route::poll_ready', ['C16'], probe=False, pub=False)
    t += C.fn(ROUTE, 'impl Service<Request<Bytes>> for Route :: fn call', 'Route::call', ['C16'], probe=False, pub=False)
    t += '}\n'
    t += 'pub mod not_found {\n    use super::*;\n'
    t += C.item(NF, 'struct NotFound')
    t += 'impl<B> Service<Request<B>> for NotFound where B: Send + \'static {\n    type Response = Response<Bytes>;\n    type Error = Infallible;\n    type Future = std::future::Ready<Result<Self::Response, Self::Error>>;\n'
    t += C.fn(NF, 'impl <B> Service<Request<B>> for NotFound .* :: fn poll_ready', 'NotFound::poll_ready', ['C16'], probe=False, pub=False)
    t += C.fn(NF, 'impl <B> Service<Request<B>> for NotFound .* :: fn call', 'NotFound::call', ['C16'], probe=False, pub=False)
    t += '}\n}\n'
    t += C.item(RT, 'struct RouteId')
    t += 'impl RouteId {\n' + C.fn(RT, 'impl RouteId :: fn next', 'RouteId::next', ['C16'], probe=False) + '}\n'
    t += C.item(RT, 'struct Router')
    t += 'impl Router {\n'
    for f in ('new', 'route', 'add_rpc_service', 'merge', 'route_layer'):
        t += C.fn(RT, 'impl Router :: fn %s' % f, 'Router::%s' % f, ['C16'], probe=False)
    t += '}\nimpl Service<Request<Bytes>> for Router {\n    type Response = Response<Bytes>;\n    type Error = Infallible;\n    type Future = Oneshot<BoxCloneService<Request<Bytes>, Response<Bytes>, Infallible>, Request<Bytes>>;\n'
    t += C.fn(RT, 'impl Service<Request<Bytes>> for Router :: fn poll_ready', 'Router::poll_ready', ['C16'], probe=False, pub=False)
    t += C.fn(RT, 'impl Service<Request<Bytes>> for Router :: fn call', 'Router::call', ['C16'], probe=False, pub=False)
    t += '}\n'
    t += C.item(RT, 'struct RouteMatcher', extra_derive=['Default'])
    t += 'impl RouteMatcher {\n'
    t += C.fn(RT, 'impl RouteMatcher :: fn insert', 'RouteMatcher::insert', ['C16'], probe=False)
    t += C.fn(RT, 'impl RouteMatcher :: fn at', 'RouteMatcher::at', ['C16'], probe=False)
    t += '}\n'
    t += C.fn(RT, 'fn try_downcast', 'try_downcast', ['C16'], probe=False)
    t += C.helpers_here()
    h = HARNESS
    if getattr(C, 'tier', 'quick') == 'thorough':
        h = h.replace('pub const STEPS: usize = 3;', 'pub const STEPS: usize = 4;')
    t += h
    return t
