"""Unit auth (Verus): the authorization layer of anemo-tower (C20).

Functions under contract: auth/mod.rs AllowedPeers::authorize; auth/service.rs RequireAuthorization::{new, call};
auth/future.rs ResponseFuture::{future, invalid_auth}; auth/layer.rs RequireAuthorizationLayer::{new, layer}.
Assumed: AllowedPeers::new (`into_iter().collect()`), ResponseFuture::poll (pin_project) is NOT verified.
"""
import re
import prelude as P

NAME = 'auth'
BACKEND = 'verus'
MOD = 'crates/anemo-tower/src/auth/mod.rs'
SVC = 'crates/anemo-tower/src/auth/service.rs'
FUT = 'crates/anemo-tower/src/auth/future.rs'
LAYER = 'crates/anemo-tower/src/auth/layer.rs'
RESP = 'crates/anemo/src/types/response.rs'

STANDINS = r'''
// ---------- trusted stand-ins for the anemo types the layer sees ----------
pub struct Bytes { pub v: Vec<u8> }
// anemo::Request<Bytes>: `sender` is the authenticated PeerId the network attached (extensions().get::<PeerId>())
// local metadata of a request (http::Extensions): an opaque type-keyed map; what it holds besides the sender is unknown to the layer
pub struct Extensions { pub m: Ghost<Map<int, int>> }
impl Extensions {
    #[verifier::external_body] pub fn get<X>(&self) -> (r: Option<&X>) { unimplemented!() }
    #[verifier::external_body] pub fn insert<X>(&mut self, v: X) -> (r: Option<X>) { unimplemented!() }
    #[verifier::external_body] pub fn is_empty(&self) -> (r: bool) { unimplemented!() }
}
// paths an edit may spell out in full
pub mod anemo { pub use super::{PeerId, Direction}; pub mod types { pub mod response { pub use super::super::super::{IntoResponse, StatusCode}; } } }
pub struct Request<T> { pub sender: Option<PeerId>, pub route: Seq<char>, pub body: T, pub ext: Extensions }
impl<T> Request<T> {
    #[verifier::external_body] pub fn extensions(&self) -> (r: &Extensions) ensures *r == self.ext { unimplemented!() }
    #[verifier::external_body] pub fn extensions_mut(&mut self) -> (r: &mut Extensions) ensures *r == old(self).ext, final(self).ext == *final(r), final(self).sender == old(self).sender, final(self).route == old(self).route, final(self).body == old(self).body { unimplemented!() }
    #[verifier::external_body]
    pub fn peer_id(&self) -> (r: Option<&PeerId>) ensures r is Some <==> self.sender is Some, r is Some ==> *r->Some_0 == self.sender->Some_0 { unimplemented!() }
}
// anemo::Response<Bytes>: status + whether it is the plain, body-less response produced by StatusCode::into_response()
pub struct Response<T> { pub status: StatusCode, pub plain: bool, pub body: T }
pub open spec fn into_response_spec(s: StatusCode) -> Response<Bytes>;   // uninterpreted value, pinned by the two clauses below
pub trait IntoResponse { fn into_response(self) -> Response<Bytes>; }
impl IntoResponse for StatusCode {
    #[verifier::external_body]
    fn into_response(self) -> (r: Response<Bytes>) ensures r == into_response_spec(self), r.status == self, r.plain { unimplemented!() }
}
#[verifier::external_body]
pub broadcast proof fn axiom_into_response(s: StatusCode) ensures (#[trigger] into_response_spec(s)).status == s, into_response_spec(s).plain {}

// tower::Service as a ghost call log (see unit timeout)
pub trait Service<Req> {
    type Future;
    spec fn calls(&self) -> Seq<Req>;
    spec fn fut_of(&self, req: Req) -> Self::Future;
    fn call(&mut self, req: Req) -> (r: Self::Future)
        ensures final(self).calls() == old(self).calls().push(req), r == old(self).fut_of(req);
}
'''

SPEC = r'''
// =====================================================================================================
// Oracle written from the statement of C20
// =====================================================================================================
// "accepts exactly the requests whose authenticated sender is in the list, answering NotFound for other senders and
//  InternalServerError when no sender identity is attached"
pub open spec fn allow_list_verdict(allowed: Set<PeerId>, sender: Option<PeerId>) -> Result<(), Response<Bytes>> {
    match sender {
        None => Err(into_response_spec(StatusCode::InternalServerError)),
        Some(p) => if allowed.contains(p) { Ok(()) } else { Err(into_response_spec(StatusCode::NotFound)) },
    }
}
// the authorizer interface; `authorize_spec` is the decision, `authorize` must implement it and leave the request alone
pub trait AuthorizeRequest {
    spec fn authorize_spec(&self, request: Request<Bytes>) -> Result<(), Response<Bytes>>;
    fn authorize(&self, request: &mut Request<Bytes>) -> (r: Result<(), Response<Bytes>>)
        ensures
            r == self.authorize_spec(*old(request)), // @OBL AuthorizeRequest::authorize::decision [C20] an authorizer returns exactly its decision for this request (for AllowedPeers: listed -> accept, unlisted -> NotFound, no sender -> InternalServerError)
            *final(request) == *old(request), // @OBL AuthorizeRequest::authorize::request_untouched [C20] deciding does not alter the request
    ;
}
'''


def closure_contracts(e):
    """X6: `ok_or_else(|| <E>.into_response())` gets the contract `ret == into_response_spec(<E>)` (what its body says)"""
    t = e.text
    t2, k = re.subn(r'\.ok_or_else\(\|\|\s*([A-Za-z_:]+)\.into_response\(\)\)',
                    r'.ok_or_else(|| -> (ret: Response<Bytes>) ensures ret == into_response_spec(\1) { \1.into_response() })', t)
    if k:
        e.text = t2
        e.log('X6', 'closure contract `ret == into_response_spec(<status>)` inserted on %d ok_or_else closure(s)' % k)


def drop_use(e):
    t2, k = re.subn(r'(?m)^\s*use\s+[^;]*;\s*$', '', e.text)
    if k:
        e.text = t2
        e.log('X2', 'dropped %d `use` statement(s) inside the body' % k)


def build(ctx):
    C = ctx
    t = P.HEADER + P.STD_SPECS
    t += P.peer_types(C)
    t += P.PEER_ID_AXIOMS
    t += C.item(RESP, 'enum StatusCode', rewrites=[('X5', r'\s*=\s*\d+,', ',', None, True)])
    t += STANDINS + SPEC
    t += C.item(MOD, 'struct AllowedPeers', rewrites=[('X5', 'std::collections::HashSet<anemo::PeerId>', 'HashSet<PeerId>', 1)])
    t += '''
impl AuthorizeRequest for AllowedPeers {
    open spec fn authorize_spec(&self, request: Request<Bytes>) -> Result<(), Response<Bytes>> { allow_list_verdict(self.allowed_peers@, request.sender) }
'''
    t += C.fn(MOD, 'impl AuthorizeRequest for AllowedPeers :: fn authorize', 'AllowedPeers::authorize', ['C20'], ret='r', pub=False,
              transforms=[drop_use, closure_contracts], body_prefix='\n        broadcast use axiom_peer_id_key, axiom_into_response;\n',
              prose='AllowedPeers::authorize implements the allow-list decision of the statement (checked against the trait contract) and never panics')
    t += '}\n'
    # ---- future / service / layer ----------------------------------------------------------------------
    t += '''
// ResponseFuture<F> is declared through pin_project!; its two constructors are under contract, `poll` is NOT verified
'''
    t += C.item(FUT, 'pin_project! :: struct ResponseFuture')
    t += C.item(FUT, 'pin_project! :: enum Kind')
    t += 'impl<F> ResponseFuture<F> {\n'
    t += C.fn(FUT, 'impl <F> ResponseFuture<F> :: fn future', 'ResponseFuture::future', ['C20'], ret='r', spec='''
    ensures
        r.kind == (Kind::Future { future }), // @OBL ResponseFuture::future::wraps [C20] the accepted case wraps exactly the wrapped service's future
''')
    t += C.fn(FUT, 'impl <F> ResponseFuture<F> :: fn invalid_auth', 'ResponseFuture::invalid_auth', ['C20'], ret='r', spec='''
    ensures
        r.kind == (Kind::<F>::Error { response: Some(response) }), // @OBL ResponseFuture::invalid_auth::holds_response [C20] the refused case holds exactly the given response
''')
    t += '}\n'
    t += C.item(SVC, 'struct RequireAuthorization')
    t += C.item(LAYER, 'struct RequireAuthorizationLayer')
    t += 'impl<S, A> RequireAuthorization<S, A> {\n'
    t += C.fn(SVC, 'impl <S, A> RequireAuthorization<S, A> :: fn new', 'RequireAuthorization::new', ['C20'], ret='r', spec='''
    ensures
        r.inner == inner && r.auth == auth, // @OBL RequireAuthorization::new::fields [C20] the middleware wraps the given service with the given authorizer
''')
    t += '}\nimpl<S: Service<Request<Bytes>>, A: AuthorizeRequest> RequireAuthorization<S, A> {\n'
    t += C.fn(SVC, 'impl <S, A> Service<Request<Bytes>> for RequireAuthorization<S, A> .* :: fn call', 'RequireAuthorization::call', ['C20'], ret='r',
              sig_rewrites=[('Self::Future', 'ResponseFuture<S::Future>')], spec='''
    ensures
        old(self).auth.authorize_spec(request) is Ok ==> final(self).inner.calls() == old(self).inner.calls().push(request), // @OBL RequireAuthorization::call::accepted_invokes_once [C20] an accepted request is handed, unchanged, to the wrapped service exactly once
        old(self).auth.authorize_spec(request) is Ok ==> r.kind == (Kind::Future { future: old(self).inner.fut_of(request) }), // @OBL RequireAuthorization::call::accepted_returns_inner_future [C20] an accepted request yields the wrapped service's own future
        old(self).auth.authorize_spec(request) is Err ==> final(self).inner.calls() == old(self).inner.calls(), // @OBL RequireAuthorization::call::refused_never_invokes [C20] a refused request causes NO invocation of the wrapped service
        old(self).auth.authorize_spec(request) is Err ==> r.kind == (Kind::<S::Future>::Error { response: Some(old(self).auth.authorize_spec(request)->Err_0) }), // @OBL RequireAuthorization::call::refused_gets_authorizers_response [C20] a refused request receives exactly the authorizer's response
        final(self).auth == old(self).auth, // @OBL RequireAuthorization::call::authorizer_unchanged [C20] serving a request never changes the authorizer (no shared mutable state: clones decide independently)
''')
    t += '}\nimpl<A> RequireAuthorizationLayer<A> {\n'
    t += C.fn(LAYER, 'impl <A> RequireAuthorizationLayer<A> :: fn new', 'RequireAuthorizationLayer::new', ['C20'], ret='r', spec='''
    ensures
        r.auth == auth, // @OBL RequireAuthorizationLayer::new::keeps_authorizer [C20] the layer stores the given authorizer
''')
    t += '}\n'
    t += C.helpers_here()
    t += P.FOOTER
    return t
