"""Unit enum_limits (BOUNDED exhaustive enumeration of schedules, native execution): anemo-tower's per-peer in-flight limiter
(inflight_limit.rs: InflightLimitLayer::{new, layer}, InflightLimit::{new, layer}, `impl Service for InflightLimit`::{poll_ready, call} -- the real async
block, boxed as it is) driven by a hand scheduler over a MODEL of tokio's Semaphore and of DashMap.

The futures are real Rust futures polled with a no-op waker; the wrapped service is a future that completes when the scheduler says so and that counts
itself in and out (also when it is dropped unfinished).  The scheduler enumerates every sequence of: start the next request (with or without polling it
at once), poll a started request, let a request inside the wrapped service finish, drop (cancel) a started request.

The model of tokio::sync::Semaphore (trusted, stated): a counter of permits; `acquire()` is a future that takes a permit when one is there and is
pending otherwise (no queueing order is modelled: whichever waiter is polled first wins); `try_acquire()` takes one or reports NoPermits; a permit gives
its slot back when dropped.  DashMap: a mutex around an association list.

Second harness (C19): the per-peer rate limiter (rate_limit.rs: RateLimitLayer::{new, layer}, RateLimit::{new, layer}, `impl Service for RateLimit`::call) on a
MODEL of governor 0.6 over a virtual clock: a keyed GCRA (per key a theoretical arrival time; a cell is admitted iff now >= tat - (burst - 1) x period, and
then tat = max(tat, now) + period; otherwise NotUntil(tat - (burst - 1) x period)); `until_key_ready` is a future that is ready when `check_key` admits."""
import re
import prelude as P

NAME = 'enum_limits'
BACKEND = 'enum'
IL = 'crates/anemo-tower/src/inflight_limit.rs'
RESP = 'crates/anemo/src/types/response.rs'
RL = 'crates/anemo-tower/src/rate_limit.rs'
COVER = {'inflight_schedules': [0, 1, 2, 3, 4, 5], 'rate_limit_histories': [0, 1, 2, 3, 4]}

PRELUDE = r'''// GENERATED on every run by /verif/vc from /repo's working tree -- do not edit
#![allow(dead_code, unused, non_upper_case_globals, non_camel_case_types)]
use std::future::Future;
use std::pin::Pin;
use std::sync::{Arc, Mutex};
use std::sync::atomic::{AtomicUsize, Ordering};
use std::task::{Context, Poll};
pub type BoxFuture<'a, T> = Pin<Box<dyn Future<Output = T> + Send + 'a>>;
pub mod futures { pub mod future { pub use super::super::BoxFuture; } }
#[derive(Clone, Copy, PartialEq, Eq, Hash, Debug)] pub struct PeerId(pub [u8; 32]);
pub struct Request<T> { pub peer: Option<PeerId>, pub id: usize, pub body: T }
impl<T> Request<T> { pub fn peer_id(&self) -> Option<&PeerId> { self.peer.as_ref() } pub fn extensions(&self) -> &Option<PeerId> { &self.peer } }
#[derive(Debug)] pub struct Response<T> { pub id: usize, pub body: T }
#[derive(Debug)] pub struct Status { pub code: StatusCode, pub headers: Vec<(String, String)> }
impl Status {
    pub fn new(code: StatusCode) -> Self { Status { code, headers: Vec::new() } }
    pub fn internal<M: Into<String>>(_m: M) -> Self { Status::new(StatusCode::InternalServerError) }
    pub fn new_with_message<M: Into<String>>(code: StatusCode, _m: M) -> Self { Status::new(code) }
    pub fn status(&self) -> StatusCode { self.code }
    pub fn with_header<K: Into<String>, V: Into<String>>(mut self, k: K, v: V) -> Self { self.headers.push((k.into(), v.into())); self }
}
pub mod anemo {
    pub use super::{PeerId, Request, Response};
    pub mod rpc { pub use super::super::Status; }
    pub mod types { pub mod response { pub use super::super::super::StatusCode; } }
}
pub mod tower {
    pub trait Service<Req> {
        type Response; type Error; type Future: std::future::Future<Output = Result<Self::Response, Self::Error>>;
        fn poll_ready(&mut self, cx: &mut std::task::Context<'_>) -> std::task::Poll<Result<(), Self::Error>>;
        fn call(&mut self, req: Req) -> Self::Future;
    }
    pub mod layer { pub trait Layer<S> { type Service; fn layer(&self, inner: S) -> Self::Service; } }
    pub use layer::Layer;
}
use tower::{layer::Layer, Service};
// ---- the model of tokio::sync::Semaphore (see the unit's docstring) -----------------------------------------------------------------
pub mod tokio {
  // tokio::time on the virtual clock of the governor model: a sleep is over when the clock has passed its deadline
  pub mod time {
    pub use std::time::Duration;
    pub struct Sleep { pub deadline: u64 }
    pub fn sleep(d: Duration) -> Sleep { Sleep { deadline: super::super::NOW_NS.load(std::sync::atomic::Ordering::SeqCst) + d.as_nanos() as u64 } }
    impl std::future::Future for Sleep {
        type Output = ();
        fn poll(self: std::pin::Pin<&mut Self>, _cx: &mut std::task::Context<'_>) -> std::task::Poll<()> { if super::super::NOW_NS.load(std::sync::atomic::Ordering::SeqCst) >= self.deadline { std::task::Poll::Ready(()) } else { std::task::Poll::Pending } }
    }
    pub async fn timeout<F: std::future::Future>(d: Duration, f: F) -> Result<F::Output, ()> { let _ = d; Ok(f.await) }
  }
  pub mod sync {
    use std::sync::atomic::{AtomicUsize, Ordering};
    use std::sync::Arc;
    #[derive(Debug)] pub struct Semaphore { pub permits: AtomicUsize, pub capacity: usize }
    #[derive(Debug)] pub struct AcquireError(());
    #[derive(Debug, PartialEq)] pub enum TryAcquireError { Closed, NoPermits }
    #[derive(Debug)] pub struct SemaphorePermit<'a> { sem: &'a Semaphore, n: usize }
    #[derive(Debug)] pub struct OwnedSemaphorePermit { sem: Arc<Semaphore>, n: usize }
    impl Semaphore {
        pub fn new(permits: usize) -> Self { Semaphore { permits: AtomicUsize::new(permits), capacity: permits } }
        pub const fn const_new(permits: usize) -> Self { Semaphore { permits: AtomicUsize::new(permits), capacity: permits } }
        pub fn available_permits(&self) -> usize { self.permits.load(Ordering::SeqCst) }
        fn take(&self, n: usize) -> bool { let p = self.permits.load(Ordering::SeqCst); if p >= n { self.permits.store(p - n, Ordering::SeqCst); true } else { false } }
        pub fn acquire(&self) -> Acquire<'_> { Acquire { sem: self, n: 1 } }
        pub fn acquire_many(&self, n: u32) -> Acquire<'_> { Acquire { sem: self, n: n as usize } }
        pub fn try_acquire(&self) -> Result<SemaphorePermit<'_>, TryAcquireError> { if self.take(1) { Ok(SemaphorePermit { sem: self, n: 1 }) } else { Err(TryAcquireError::NoPermits) } }
        pub fn acquire_owned(self: Arc<Self>) -> AcquireOwned { AcquireOwned { sem: Some(self) } }
        pub fn try_acquire_owned(self: Arc<Self>) -> Result<OwnedSemaphorePermit, TryAcquireError> { if self.take(1) { Ok(OwnedSemaphorePermit { sem: self, n: 1 }) } else { Err(TryAcquireError::NoPermits) } }
        pub fn add_permits(&self, n: usize) { self.permits.fetch_add(n, Ordering::SeqCst); }
    }
    pub struct Acquire<'a> { sem: &'a Semaphore, n: usize }
    impl<'a> std::future::Future for Acquire<'a> {
        type Output = Result<SemaphorePermit<'a>, AcquireError>;
        fn poll(self: std::pin::Pin<&mut Self>, _cx: &mut std::task::Context<'_>) -> std::task::Poll<Self::Output> {
            if self.sem.take(self.n) { std::task::Poll::Ready(Ok(SemaphorePermit { sem: self.sem, n: self.n })) } else { std::task::Poll::Pending }
        }
    }
    pub struct AcquireOwned { sem: Option<Arc<Semaphore>> }
    impl std::future::Future for AcquireOwned {
        type Output = Result<OwnedSemaphorePermit, AcquireError>;
        fn poll(mut self: std::pin::Pin<&mut Self>, _cx: &mut std::task::Context<'_>) -> std::task::Poll<Self::Output> {
            let ok = self.sem.as_ref().map(|s| s.take(1)).unwrap_or(false);
            if ok { std::task::Poll::Ready(Ok(OwnedSemaphorePermit { sem: self.sem.take().unwrap(), n: 1 })) } else { std::task::Poll::Pending }
        }
    }
    // tokio::sync::Mutex (for edits that serialise requests through one): a flag; `lock()` is ready when the flag is clear and sets it; the guard clears it in Drop
    pub struct Mutex<T> { locked: std::sync::atomic::AtomicBool, v: std::cell::UnsafeCell<T> }
    unsafe impl<T: Send> Sync for Mutex<T> {}
    unsafe impl<T: Send> Send for Mutex<T> {}
    impl<T: std::fmt::Debug> std::fmt::Debug for Mutex<T> { fn fmt(&self, f: &mut std::fmt::Formatter<'_>) -> std::fmt::Result { f.write_str("Mutex") } }
    impl<T: Default> Default for Mutex<T> { fn default() -> Self { Mutex::new(T::default()) } }
    #[derive(Debug)] pub struct TryLockError(());
    pub struct MutexGuard<'a, T> { m: &'a Mutex<T> }
    pub struct OwnedMutexGuard<T> { m: Arc<Mutex<T>> }
    impl<T> Mutex<T> {
        pub fn new(v: T) -> Self { Mutex { locked: std::sync::atomic::AtomicBool::new(false), v: std::cell::UnsafeCell::new(v) } }
        fn take(&self) -> bool { !self.locked.swap(true, Ordering::SeqCst) }
        pub fn lock(&self) -> Lock<'_, T> { Lock { m: self } }
        pub fn try_lock(&self) -> Result<MutexGuard<'_, T>, TryLockError> { if self.take() { Ok(MutexGuard { m: self }) } else { Err(TryLockError(())) } }
        pub fn lock_owned(self: Arc<Self>) -> LockOwned<T> { LockOwned { m: Some(self) } }
        pub fn try_lock_owned(self: Arc<Self>) -> Result<OwnedMutexGuard<T>, TryLockError> { if self.take() { Ok(OwnedMutexGuard { m: self }) } else { Err(TryLockError(())) } }
    }
    pub struct Lock<'a, T> { m: &'a Mutex<T> }
    impl<'a, T> std::future::Future for Lock<'a, T> {
        type Output = MutexGuard<'a, T>;
        fn poll(self: std::pin::Pin<&mut Self>, _cx: &mut std::task::Context<'_>) -> std::task::Poll<Self::Output> { if self.m.take() { std::task::Poll::Ready(MutexGuard { m: self.m }) } else { std::task::Poll::Pending } }
    }
    pub struct LockOwned<T> { m: Option<Arc<Mutex<T>>> }
    impl<T> Unpin for LockOwned<T> {}
    impl<T> std::future::Future for LockOwned<T> {
        type Output = OwnedMutexGuard<T>;
        fn poll(mut self: std::pin::Pin<&mut Self>, _cx: &mut std::task::Context<'_>) -> std::task::Poll<Self::Output> {
            let ok = self.m.as_ref().map(|m| m.take()).unwrap_or(false);
            if ok { std::task::Poll::Ready(OwnedMutexGuard { m: self.m.take().unwrap() }) } else { std::task::Poll::Pending }
        }
    }
    impl<'a, T> std::ops::Deref for MutexGuard<'a, T> { type Target = T; fn deref(&self) -> &T { unsafe { &*self.m.v.get() } } }
    impl<'a, T> std::ops::DerefMut for MutexGuard<'a, T> { fn deref_mut(&mut self) -> &mut T { unsafe { &mut *self.m.v.get() } } }
    impl<T> std::ops::Deref for OwnedMutexGuard<T> { type Target = T; fn deref(&self) -> &T { unsafe { &*self.m.v.get() } } }
    impl<T> std::ops::DerefMut for OwnedMutexGuard<T> { fn deref_mut(&mut self) -> &mut T { unsafe { &mut *self.m.v.get() } } }
    unsafe impl<'a, T: Send> Send for MutexGuard<'a, T> {}
    impl<'a, T> Drop for MutexGuard<'a, T> { fn drop(&mut self) { self.m.locked.store(false, Ordering::SeqCst); } }
    impl<T> Drop for OwnedMutexGuard<T> { fn drop(&mut self) { self.m.locked.store(false, Ordering::SeqCst); } }
    impl<'a> SemaphorePermit<'a> { pub fn forget(mut self) { self.n = 0; } }
    impl OwnedSemaphorePermit { pub fn forget(mut self) { self.n = 0; } }
    impl<'a> Drop for SemaphorePermit<'a> { fn drop(&mut self) { self.sem.permits.fetch_add(self.n, Ordering::SeqCst); } }
    impl Drop for OwnedSemaphorePermit { fn drop(&mut self) { self.sem.permits.fetch_add(self.n, Ordering::SeqCst); } }
  }
}
use tokio::sync::Semaphore;
// ---- DashMap: a mutex around an association list -----------------------------------------------------------------------------------------
pub mod dashmap {
    use std::sync::{Mutex, MutexGuard};
    #[derive(Debug)] pub struct DashMap<K, V> { pub items: Mutex<Vec<(K, V)>> }
    pub struct RefMut<'a, K, V> { g: MutexGuard<'a, Vec<(K, V)>>, idx: usize }
    pub struct Ref<'a, K, V> { g: MutexGuard<'a, Vec<(K, V)>>, idx: usize }
    pub struct Entry<'a, K, V> { g: MutexGuard<'a, Vec<(K, V)>>, key: K }
    impl<K: PartialEq + Clone, V> DashMap<K, V> {
        pub fn new() -> Self { DashMap { items: Mutex::new(Vec::new()) } }
        pub fn entry(&self, key: K) -> Entry<'_, K, V> { Entry { g: self.items.lock().unwrap(), key } }
        pub fn get(&self, key: &K) -> Option<Ref<'_, K, V>> { let g = self.items.lock().unwrap(); let idx = g.iter().position(|kv| &kv.0 == key)?; Some(Ref { g, idx }) }
        pub fn get_mut(&self, key: &K) -> Option<RefMut<'_, K, V>> { let g = self.items.lock().unwrap(); let idx = g.iter().position(|kv| &kv.0 == key)?; Some(RefMut { g, idx }) }
        pub fn insert(&self, key: K, v: V) -> Option<V> { let mut g = self.items.lock().unwrap(); match g.iter().position(|kv| kv.0 == key) { Some(i) => Some(std::mem::replace(&mut g[i].1, v)), None => { g.push((key, v)); None } } }
        pub fn contains_key(&self, key: &K) -> bool { self.items.lock().unwrap().iter().any(|kv| &kv.0 == key) }
        pub fn remove(&self, key: &K) -> Option<(K, V)> { let mut g = self.items.lock().unwrap(); let i = g.iter().position(|kv| &kv.0 == key)?; Some(g.remove(i)) }
        pub fn len(&self) -> usize { self.items.lock().unwrap().len() }
        // (more of DashMap's API, for edits that reach for it)
        pub fn is_empty(&self) -> bool { self.items.lock().unwrap().is_empty() }
        pub fn clear(&self) { self.items.lock().unwrap().clear() }
        pub fn remove_if(&self, key: &K, f: impl FnOnce(&K, &V) -> bool) -> Option<(K, V)> { let mut g = self.items.lock().unwrap(); let i = g.iter().position(|kv| &kv.0 == key)?; if f(&g[i].0, &g[i].1) { Some(g.remove(i)) } else { None } }
        pub fn remove_if_mut(&self, key: &K, f: impl FnOnce(&K, &mut V) -> bool) -> Option<(K, V)> { let mut g = self.items.lock().unwrap(); let i = g.iter().position(|kv| &kv.0 == key)?; let keep = { let kv = &mut g[i]; f(&kv.0, &mut kv.1) }; if keep { Some(g.remove(i)) } else { None } }
        pub fn retain(&self, mut f: impl FnMut(&K, &mut V) -> bool) { let mut g = self.items.lock().unwrap(); let mut i = 0; while i < g.len() { let keep = { let kv = &mut g[i]; f(&kv.0, &mut kv.1) }; if keep { i += 1; } else { g.remove(i); } } }
        pub fn alter(&self, key: &K, f: impl FnOnce(&K, V) -> V) where V: Clone { let mut g = self.items.lock().unwrap(); if let Some(i) = g.iter().position(|kv| &kv.0 == key) { let v = g[i].1.clone(); g[i].1 = f(&g[i].0, v); } }
    }
    impl<'a, K: PartialEq + Clone, V> Entry<'a, K, V> {
        pub fn or_insert_with<F: FnOnce() -> V>(mut self, f: F) -> RefMut<'a, K, V> {
            let idx = match self.g.iter().position(|kv| kv.0 == self.key) { Some(i) => i, None => { let k = self.key.clone(); self.g.push((k, f())); self.g.len() - 1 } };
            RefMut { g: self.g, idx }
        }
        pub fn or_insert(self, v: V) -> RefMut<'a, K, V> { self.or_insert_with(|| v) }
        pub fn or_default(self) -> RefMut<'a, K, V> where V: Default { self.or_insert_with(V::default) }
    }
    impl<'a, K, V> RefMut<'a, K, V> { pub fn value(&self) -> &V { &self.g[self.idx].1 } pub fn value_mut(&mut self) -> &mut V { &mut self.g[self.idx].1 } pub fn key(&self) -> &K { &self.g[self.idx].0 } }
    impl<'a, K, V> Ref<'a, K, V> { pub fn value(&self) -> &V { &self.g[self.idx].1 } pub fn key(&self) -> &K { &self.g[self.idx].0 } }
    impl<'a, K, V> std::ops::Deref for RefMut<'a, K, V> { type Target = V; fn deref(&self) -> &V { self.value() } }
    impl<'a, K, V> std::ops::Deref for Ref<'a, K, V> { type Target = V; fn deref(&self) -> &V { self.value() } }
}
use dashmap::DashMap;
// ---- the model of governor 0.6 over a virtual clock (see the unit's docstring) --------------------------------------------------------------
pub static NOW_NS: std::sync::atomic::AtomicU64 = std::sync::atomic::AtomicU64::new(1_000_000);
pub mod governor {
    use std::marker::PhantomData;
    use std::sync::atomic::Ordering;
    use std::sync::Mutex;
    use std::time::Duration;
    pub mod clock {
        pub trait Clock: Clone { type Instant: Copy; fn now(&self) -> Self::Instant; }
        #[derive(Clone, Debug, Default)] pub struct DefaultClock;
        impl Clock for DefaultClock { type Instant = u64; fn now(&self) -> u64 { super::super::NOW_NS.load(std::sync::atomic::Ordering::SeqCst) } }
        pub type QuantaClock = DefaultClock;
    }
    pub mod middleware { #[derive(Debug)] pub struct NoOpMiddleware<I = u64>(pub std::marker::PhantomData<I>); }
    pub mod state { pub mod keyed { #[derive(Debug)] pub struct DefaultKeyedStateStore<K>(pub std::marker::PhantomData<K>); } #[derive(Debug)] pub struct NotKeyed; #[derive(Debug)] pub struct InMemoryState; }
    #[derive(Clone, Copy, Debug)] pub struct Quota { pub burst: u32, pub period_ns: u64 }
    impl Quota {
        pub fn with_period(p: Duration) -> Option<Quota> { if p.is_zero() { None } else { Some(Quota { burst: 1, period_ns: p.as_nanos() as u64 }) } }
        pub fn per_second(n: std::num::NonZeroU32) -> Quota { Quota { burst: n.get(), period_ns: 1_000_000_000 / n.get() as u64 } }
        pub fn allow_burst(mut self, n: std::num::NonZeroU32) -> Quota { self.burst = n.get(); self }
    }
    #[derive(Debug)] pub struct NotUntil { pub earliest: u64 }
    impl NotUntil {
        pub fn wait_time_from(&self, from: u64) -> Duration { Duration::from_nanos(self.earliest.saturating_sub(from)) }
        pub fn earliest_possible(&self) -> u64 { self.earliest }
    }
    #[derive(Debug)]
    pub struct RateLimiter<K, S, C, MW> { pub quota: Quota, pub cells: Mutex<Vec<(Option<K>, u64)>>, pub p: PhantomData<(S, C, MW)> }
    fn gcra<K: PartialEq + Clone>(cells: &Mutex<Vec<(Option<K>, u64)>>, q: Quota, key: Option<K>) -> Result<(), NotUntil> {
        let now = super::NOW_NS.load(Ordering::SeqCst);
        let mut g = cells.lock().unwrap();
        let idx = match g.iter().position(|c| c.0 == key) { Some(i) => i, None => { g.push((key, 0)); g.len() - 1 } };
        let tat = g[idx].1;
        let tau = q.period_ns * (q.burst as u64 - 1);
        if tat > now + tau { return Err(NotUntil { earliest: tat - tau }); }
        g[idx].1 = std::cmp::max(tat, now) + q.period_ns;
        Ok(())
    }
    impl<K: PartialEq + Clone> RateLimiter<K, state::keyed::DefaultKeyedStateStore<K>, clock::DefaultClock, middleware::NoOpMiddleware<u64>> {
        pub fn keyed(quota: Quota) -> Self { RateLimiter { quota, cells: Mutex::new(Vec::new()), p: PhantomData } }
        pub fn dashmap(quota: Quota) -> Self { Self::keyed(quota) }
        pub fn dashmap_with_clock(quota: Quota, _clock: &clock::DefaultClock) -> Self { Self::keyed(quota) }
        pub fn hashmap(quota: Quota) -> Self { Self::keyed(quota) }
        pub fn check_key(&self, key: &K) -> Result<(), NotUntil> { gcra(&self.cells, self.quota, Some(key.clone())) }
        pub fn until_key_ready<'a>(&'a self, key: &'a K) -> UntilKeyReady<'a, K> { UntilKeyReady { l: self, key } }
        // (the unkeyed API, for edits that reach for it: one cell for everybody)
        pub fn check(&self) -> Result<(), NotUntil> { gcra(&self.cells, self.quota, None) }
    }
    pub struct UntilKeyReady<'a, K> { l: &'a RateLimiter<K, state::keyed::DefaultKeyedStateStore<K>, clock::DefaultClock, middleware::NoOpMiddleware<u64>>, key: &'a K }
    impl<'a, K: PartialEq + Clone> std::future::Future for UntilKeyReady<'a, K> {
        type Output = ();
        fn poll(self: std::pin::Pin<&mut Self>, _cx: &mut std::task::Context<'_>) -> std::task::Poll<()> { if self.l.check_key(self.key).is_ok() { std::task::Poll::Ready(()) } else { std::task::Poll::Pending } }
    }
}
'''

HARNESS = r'''
pub static mut COVER: [u64; 8] = [0; 8];
pub fn cover(i: usize) { unsafe { COVER[i] += 1; } }
pub struct Chooser { pub path: Vec<(u32, u32)>, pub pos: usize }
impl Chooser {
    pub fn below(&mut self, n: u32) -> u32 { if self.pos == self.path.len() { self.path.push((0, n)); } let c = self.path[self.pos].0; self.pos += 1; c }
    pub fn any_bool(&mut self) -> bool { self.below(2) == 1 }
}
fn run_all(name: &str, f: fn(&mut Chooser)) {
    let mut path: Vec<(u32, u32)> = Vec::new();
    let (mut runs, mut failures, mut first): (u64, u64, Option<(Vec<u32>, String)>) = (0, 0, None);
    loop {
        let mut ch = Chooser { path: path.clone(), pos: 0 };
        let res = std::panic::catch_unwind(std::panic::AssertUnwindSafe(|| f(&mut ch)));
        runs += 1;
        path = ch.path;
        if let Err(e) = res {
            failures += 1;
            if first.is_none() {
                let msg = e.downcast_ref::<String>().cloned().or_else(|| e.downcast_ref::<&str>().map(|s| s.to_string())).unwrap_or_default();
                first = Some((path.iter().map(|c| c.0).collect(), msg));
            }
        }
        while let Some((c, n)) = path.pop() { if c + 1 < n { path.push((c + 1, n)); break; } }
        if path.is_empty() { break; }
    }
    let (p, m) = first.unwrap_or_default();
    let cov = unsafe { let c = COVER; COVER = [0; 8]; c };
    println!("{{\"harness\": \"{}\", \"runs\": {}, \"failures\": {}, \"first_failing_choices\": {:?}, \"message\": {:?}, \"cover\": {:?}}}", name, runs, failures, p, m, cov);
}
pub fn main() {
    let args: Vec<String> = std::env::args().collect();
    if args.len() == 4 && args[1] == "--replay" {
        let choices: Vec<(u32, u32)> = args[3].split(',').filter(|s| !s.is_empty()).map(|s| (s.trim().parse().unwrap(), u32::MAX)).collect();
        let mut ch = Chooser { path: choices, pos: 0 };
        if args[2] == "rate_limit_histories" { harness::rate_limit_histories(&mut ch); } else { harness::inflight_schedules(&mut ch); }
        println!("no assertion failed for this choice sequence");
        return;
    }
    std::panic::set_hook(Box::new(|_| {}));
    run_all("inflight_schedules", harness::inflight_schedules);
    run_all("rate_limit_histories", harness::rate_limit_histories);
}
pub mod harness {
    use super::*;
    // what goes on inside the wrapped service: who is in there right now, who ever got in, who may finish
    #[derive(Default)] pub struct World { pub inside: Vec<(usize, PeerId)>, pub entered: Vec<usize>, pub may_finish: Vec<usize> }
    #[derive(Clone)] pub struct Inner(pub Arc<Mutex<World>>);
    pub struct InnerFut { id: usize, w: Arc<Mutex<World>>, done: bool }
    impl Future for InnerFut {
        type Output = Result<Response<()>, Status>;
        fn poll(mut self: Pin<&mut Self>, _cx: &mut Context<'_>) -> Poll<Self::Output> {
            let id = self.id;
            let fin = self.w.lock().unwrap().may_finish.contains(&id);
            if fin { self.w.lock().unwrap().inside.retain(|x| x.0 != id); self.done = true; Poll::Ready(Ok(Response { id, body: () })) } else { Poll::Pending }
        }
    }
    impl Drop for InnerFut { fn drop(&mut self) { if !self.done { let id = self.id; self.w.lock().unwrap().inside.retain(|x| x.0 != id); } } }
    impl Service<Request<()>> for Inner {
        type Response = Response<()>; type Error = Status; type Future = InnerFut;
        fn poll_ready(&mut self, _cx: &mut Context<'_>) -> Poll<Result<(), Status>> { Poll::Ready(Ok(())) }
        fn call(&mut self, req: Request<()>) -> InnerFut {
            let mut w = self.0.lock().unwrap();
            let p = req.peer.unwrap_or(PeerId([0; 32]));
            assert!(!w.entered.contains(&req.id), "a request reached the wrapped service twice");
            w.entered.push(req.id); w.inside.push((req.id, p));
            InnerFut { id: req.id, w: self.0.clone(), done: false }
        }
    }
    const P1: PeerId = PeerId([1; 32]);
    // the two peers differ in ONE byte in the middle of their ids: an accounting keyed by a prefix, a suffix or a short hash of the id would merge them
    const P2: PeerId = { let mut b = [1u8; 32]; b[16] = 2; PeerId(b) };
    pub const REQUESTS: usize = 3;
    pub const STEPS: usize = 6;
    pub const PLAIN_START: bool = false;     // (the thorough tier also starts requests WITHOUT polling them at once)
    #[derive(PartialEq, Clone, Copy, Debug)] enum St { NotStarted, Started, Refused, Finished, Dropped }
    fn poll_once<F: Future + ?Sized>(f: Pin<&mut F>) -> Poll<F::Output> { let w = std::task::Waker::noop(); let mut cx = Context::from_waker(&w); f.poll(&mut cx) }
    fn inside_of(w: &Arc<Mutex<World>>, p: PeerId) -> usize { w.lock().unwrap().inside.iter().filter(|x| x.1 == p).count() }
    pub fn inflight_schedules(ch: &mut Chooser) { // @EOBL [C18,C12] @BOUNDED the real InflightLimitLayer / InflightLimit (constructors, layer, call with its async block) on the model of tokio's Semaphore, for a limit of 1 or 2, Block or ReturnError, REQUESTS requests each from peer 1, peer 2 or without identity, issued through one layered service, a clone of it, or a second service built by the same layer, and EVERY schedule of STEPS actions out of: start the next request and poll it once (the thorough tier: also start it without polling), poll a started request, let a request inside the wrapped service finish, drop a started request: at every instant at most `limit` requests of one peer are inside the wrapped service; a request polled while its peer is below the limit gets in (one peer's load never takes another's slot); at the limit it waits (Block) or is refused with TooManyRequests without ever reaching the service (ReturnError); a request without identity is refused with InternalServerError; nothing reaches the service twice; and after everything has finished, failed or been dropped every peer can again have exactly `limit` requests inside (no slot leaks, none appears)
        let limit = 1 + ch.below(2) as usize;
        let mode = if ch.any_bool() { WaitMode::Block } else { WaitMode::ReturnError };
        let block = matches!(mode, WaitMode::Block);
        let world = Arc::new(Mutex::new(World::default()));
        let layer = InflightLimitLayer::new(limit, mode);
        let svc_a = layer.layer(Inner(world.clone()));
        let svc_b = layer.layer(Inner(world.clone()));          // a second service built by the same layer: shares the per-peer accounting
        let mut peers: [Option<PeerId>; REQUESTS] = [None; REQUESTS];
        let mut futs: Vec<Option<BoxFuture<'static, Result<Response<()>, Status>>>> = Vec::new();
        let mut st = [St::NotStarted; REQUESTS];
        let mut started = 0usize;
        let check_bound = |w: &Arc<Mutex<World>>| { assert!(inside_of(w, P1) <= limit && inside_of(w, P2) <= limit, "more requests of one peer inside the wrapped service than the limit allows"); };
        let mut step = 0;
        while step < STEPS {
            // enabled actions: 0 = start the next request; then poll / finish / drop for each started one
            let mut acts: Vec<(u8, usize)> = Vec::new();
            if started < REQUESTS { if PLAIN_START { acts.push((0, started)); } acts.push((4, started)); }      // 4: start it and poll it once right away
            for i in 0..started { if st[i] == St::Started { acts.push((1, i)); if world.lock().unwrap().inside.iter().any(|x| x.0 == i) && !world.lock().unwrap().may_finish.contains(&i) { acts.push((2, i)); } acts.push((3, i)); } }
            if acts.is_empty() { break; }
            let (a0, i) = acts[ch.below(acts.len() as u32) as usize];
            let mut a = a0;
            if a == 4 { a = 0; }
            let mut again = true;
            while again { again = false; match a {
                0 => {
                    let who = match ch.below(3) { 0 => Some(P1), 1 => Some(P2), _ => None };
                    peers[i] = who;
                    let req = Request { peer: who, id: i, body: () };
                    let f = match ch.below(3) { 0 => svc_a.clone().call(req), 1 => { let mut s = svc_a.clone(); s.call(req) } , _ => svc_b.clone().call(req) };
                    let full = who.map_or(true, |p| inside_of(&world, p) >= limit);
                    assert!(!(full && world.lock().unwrap().entered.contains(&i)), "a request was handed to the wrapped service before a slot was taken for it (its peer is at the limit, or it has no identity)");
                    futs.push(Some(f)); st[i] = St::Started; started += 1;
                    if a0 == 4 { a = 1; again = true; }
                }
                1 => {
                    let was_inside = world.lock().unwrap().entered.contains(&i);
                    let before = peers[i].map(|p| inside_of(&world, p));
                    let r = poll_once(futs[i].as_mut().unwrap().as_mut());
                    let now_inside = world.lock().unwrap().entered.contains(&i);
                    match (&r, peers[i]) {
                        (Poll::Ready(Err(s)), None) => { assert!(s.code == StatusCode::InternalServerError && !now_inside, "a request without identity must be refused with InternalServerError and never reach the service"); cover(0); }
                        (_, None) => panic!("a request without identity was not refused"),
                        (Poll::Ready(Ok(_)), Some(_)) => { assert!(was_inside || now_inside); }
                        (Poll::Ready(Err(s)), Some(_)) => {
                            assert!(!block, "in Block mode a request is never refused");
                            assert!(!was_inside && !now_inside, "a refused request reached the wrapped service");
                            assert!(before == Some(limit) && s.code == StatusCode::TooManyRequests, "a request was refused although its peer was below the limit (or with another status than TooManyRequests)");
                            cover(1);
                        }
                        (Poll::Pending, Some(_)) => {
                            if !was_inside {
                                if before.unwrap() < limit { assert!(now_inside, "a request polled while its peer is below the limit did not get into the wrapped service (another peer's load, or a leaked slot, is holding it up)"); }
                                else { assert!(block && !now_inside, "a request over the limit neither waits outside the service (Block) nor is refused (ReturnError)"); cover(2); }
                            }
                        }
                    }
                    if r.is_ready() { st[i] = if matches!(r, Poll::Ready(Ok(_))) { St::Finished } else { St::Refused }; futs[i] = None; }
                }
                2 => { world.lock().unwrap().may_finish.push(i); cover(3); }
                _ => { futs[i] = None; st[i] = St::Dropped; cover(4); }
            } }
            check_bound(&world);
            step += 1;
        }
        // wind down: everything still running finishes or is dropped
        for i in 0..started { if st[i] == St::Started { if ch.any_bool() { futs[i] = None; } else { world.lock().unwrap().may_finish.push(i); let mut k = 0; while k < 3 && futs[i].is_some() { if poll_once(futs[i].as_mut().unwrap().as_mut()).is_ready() { futs[i] = None; } k += 1; } futs[i] = None; } } }
        assert!(world.lock().unwrap().inside.is_empty(), "harness: the wrapped service is not empty after the wind-down");
        // no slot leaked, none appeared: each peer gets exactly `limit` requests in again
        for p in [P1, P2] {
            let mut keep = Vec::new();
            for k in 0..limit + 1 {
                let id = 100 + keep.len() + if p == P1 { 0 } else { 50 };
                let mut f = svc_b.clone().call(Request { peer: Some(p), id, body: () });
                let r = poll_once(f.as_mut());
                let got_in = world.lock().unwrap().inside.iter().any(|x| x.0 == id);
                if k < limit { assert!(got_in && r.is_pending(), "after all earlier requests finished, failed or were dropped, a peer no longer gets its full number of slots (a slot leaked)"); }
                else { assert!(!got_in, "a peer gets more slots than the limit after earlier requests ended"); cover(5); }
                keep.push(f);
            }
            drop(keep);
        }
    }

    // ---- C19 ------------------------------------------------------------------------------------------------------------------------------------
    #[derive(Clone)] pub struct Instant0(pub Arc<Mutex<Vec<(usize, Option<PeerId>, u64)>>>);       // (request, sender, virtual time) of everything that reached the service
    impl Service<Request<()>> for Instant0 {
        type Response = Response<()>; type Error = Status; type Future = std::future::Ready<Result<Response<()>, Status>>;
        fn poll_ready(&mut self, _cx: &mut Context<'_>) -> Poll<Result<(), Status>> { Poll::Ready(Ok(())) }
        fn call(&mut self, req: Request<()>) -> Self::Future {
            let mut g = self.0.lock().unwrap();
            assert!(!g.iter().any(|x| x.0 == req.id), "a request reached the wrapped service twice");
            g.push((req.id, req.peer, NOW_NS.load(Ordering::SeqCst)));
            std::future::ready(Ok(Response { id: req.id, body: () }))
        }
    }
    pub const RL_REQUESTS: usize = 4;
    pub fn rate_limit_histories(ch: &mut Chooser) { // @EOBL [C19] @BOUNDED the real RateLimitLayer / RateLimit (constructors, layer, call with its async block) on the model of governor over a virtual clock: quota burst 1 or 2 per period of 10 time units, Block or ReturnError, every history of RL_REQUESTS requests, each from peer 1, peer 2 or without identity, arriving 0 / 4 / 10 / 25 units after the previous one, through one layered service, its clone or a second service of the same layer: the requests of one peer admitted to the wrapped service within ANY window never exceed burst + window / period (checked on the admission times, not on the model's state); a request over quota is refused with TooManyRequests carrying a wait-nanos header that is a positive integer (ReturnError) or waits and gets in once the quota allows (Block); refused and waiting requests never reach the service; one peer exhausting its quota changes nothing for the other; a request without identity is refused with InternalServerError
        use rate_limit::{RateLimitLayer, WaitMode as RlMode};
        let burst = 1 + ch.below(2);
        let period: u64 = 10;
        let block = ch.any_bool();
        let quota = governor::Quota::with_period(std::time::Duration::from_nanos(period)).unwrap().allow_burst(std::num::NonZeroU32::new(burst).unwrap());
        let log = Arc::new(Mutex::new(Vec::new()));
        let layer = RateLimitLayer::new(quota, if block { RlMode::Block } else { RlMode::ReturnError });
        let svc_a = layer.layer(Instant0(log.clone()));
        let svc_b = layer.layer(Instant0(log.clone()));
        NOW_NS.store(1_000_000, Ordering::SeqCst);
        // the statement's reading of the quota, per peer: theoretical arrival time
        let mut tat: [u64; 2] = [0, 0];
        let mut waiting: Vec<(usize, usize, BoxFuture<'static, Result<Response<()>, Status>>)> = Vec::new();
        for i in 0..RL_REQUESTS {
            let adv = [0u64, 4, 10, 25][ch.below(4) as usize];
            NOW_NS.fetch_add(adv, Ordering::SeqCst);
            let now = NOW_NS.load(Ordering::SeqCst);
            // requests that were waiting and whose time has come get in when polled again (Block)
            let mut k = 0;
            while k < waiting.len() {
                let p = waiting[k].1;
                if tat[p] <= now + period * (burst as u64 - 1) {
                    let r = poll_once(waiting[k].2.as_mut());
                    assert!(matches!(r, Poll::Ready(Ok(_))) && log.lock().unwrap().iter().any(|x| x.0 == waiting[k].0), "a waiting request did not get in although its peer's quota allows it now");
                    tat[p] = std::cmp::max(tat[p], now) + period; cover(4);
                    waiting.remove(k);
                } else { k += 1; }
            }
            let who = match ch.below(3) { 0 => Some(P1), 1 => Some(P2), _ => None };
            let req = Request { peer: who, id: i, body: () };
            let mut f = match ch.below(3) { 0 => svc_a.clone().call(req), 1 => { let mut s = svc_a.clone(); s.call(req) }, _ => svc_b.clone().call(req) };
            let r = poll_once(f.as_mut());
            let reached = log.lock().unwrap().iter().any(|x| x.0 == i);
            match who {
                None => { assert!(matches!(&r, Poll::Ready(Err(s)) if s.code == StatusCode::InternalServerError) && !reached, "a request without identity must be refused with InternalServerError and never reach the service"); cover(0); }
                Some(p) => {
                    let pi = if p == P1 { 0 } else { 1 };
                    let allowed = tat[pi] <= now + period * (burst as u64 - 1);
                    if allowed {
                        assert!(matches!(r, Poll::Ready(Ok(_))) && reached, "a request within its peer's quota was not admitted (another peer's traffic, or an earlier refusal, is being charged to it)");
                        tat[pi] = std::cmp::max(tat[pi], now) + period; cover(1);
                    } else if block {
                        assert!(r.is_pending() && !reached, "a request over quota must wait outside the wrapped service (Block)");
                        waiting.push((i, pi, f)); cover(2);
                        continue;
                    } else {
                        match r {
                            Poll::Ready(Err(s)) => {
                                assert!(s.code == StatusCode::TooManyRequests && !reached, "a request over quota must be refused with TooManyRequests and never reach the service");
                                let hint = s.headers.iter().find(|h| h.0 == "wait-nanos").and_then(|h| h.1.parse::<u128>().ok());
                                assert!(matches!(hint, Some(n) if n > 0), "the refusal carries no positive wait-nanos hint");
                                cover(3);
                            }
                            _ => panic!("a request over quota was neither refused (ReturnError) nor kept out of the service"),
                        }
                    }
                }
            }
        }
        // the bound itself, on the admission times: any window [t_i, t_j] holds at most burst + (t_j - t_i) / period admissions of one peer
        for p in [P1, P2] {
            let times: Vec<u64> = log.lock().unwrap().iter().filter(|x| x.1 == Some(p)).map(|x| x.2).collect();
            for a in 0..times.len() { for b in a..times.len() { assert!((b - a + 1) as u64 <= burst as u64 + (times[b] - times[a]) / period, "more requests of one peer admitted within a window than burst + window / period"); } }
        }
    }
}
'''


def tokio_sync_names(repo, rel):
    """names the source file imports from tokio::sync at its top level (`use tokio::sync::Mutex;`, `use tokio::sync::{Mutex, Semaphore};`)"""
    import os
    src = open(os.path.join(repo, rel)).read()
    names = []
    for m in re.finditer(r'(?m)^use\s+tokio::sync::(\{[^}]*\}|\w+)\s*;', src):
        g = m.group(1)
        names += [x.strip() for x in g.strip('{}').split(',') if x.strip()] if g.startswith('{') else [g]
    return [n for n in names if re.fullmatch(r'\w+', n)]


def build(ctx):
    C = ctx
    # the inflight-limit items live at the top level of this file, next to std's Mutex: a tokio::sync name the source file imports is spelled out
    ILRW = [dict(rule='X5', pattern=r'(?<![:\w])%s\b(?!\s*::\s*new\b\s*\(\s*Vec)' % n_, repl='tokio::sync::%s' % n_, regex=True, optional=True) for n_ in tokio_sync_names(C.repo, IL) if n_ in ('Mutex', 'MutexGuard', 'OwnedMutexGuard')]
    t = PRELUDE
    t += C.item(RESP, 'enum StatusCode', extra_derive=['Debug'])
    t += C.item(IL, 'enum WaitMode', rewrites=ILRW)
    t += C.item(IL, 'struct InflightLimitLayer', rewrites=ILRW)
    t += 'impl InflightLimitLayer {\n' + C.fn(IL, 'impl InflightLimitLayer :: fn new', 'InflightLimitLayer::new', ['C18'], rewrites=ILRW, probe=False) + '}\n'
    t += 'impl<S> Layer<S> for InflightLimitLayer {\n    type Service = InflightLimit<S>;\n'
    t += C.fn(IL, 'impl <S> Layer<S> for InflightLimitLayer :: fn layer', 'InflightLimitLayer::layer', ['C18'], rewrites=ILRW, probe=False, pub=False) + '}\n'
    t += C.item(IL, 'struct InflightLimit', rewrites=ILRW)
    t += 'impl<S> InflightLimit<S> {\n'
    for f in ('new', 'layer'):
        t += C.fn(IL, 'impl <S> InflightLimit<S> :: fn %s' % f, 'InflightLimit::%s' % f, ['C18'], rewrites=ILRW, probe=False)
    t += '}\n'
    t += '''impl<ResBody, ReqBody, S> Service<Request<ReqBody>> for InflightLimit<S>
where
    S: Service<Request<ReqBody>, Response = Response<ResBody>, Error = anemo::rpc::Status> + 'static + Clone + Send,
    <S as Service<Request<ReqBody>>>::Future: Send,
    ReqBody: 'static + Send + Sync,
{
    type Response = S::Response;
    type Error = S::Error;
    type Future = BoxFuture<'static, Result<Self::Response, Self::Error>>;
'''
    t += C.fn(IL, 'impl <ResBody, ReqBody, S> Service<Request<ReqBody>> for InflightLimit<S> .* :: fn poll_ready', 'InflightLimit::poll_ready', ['C18'], rewrites=ILRW, probe=False, pub=False)
    t += C.fn(IL, 'impl <ResBody, ReqBody, S> Service<Request<ReqBody>> for InflightLimit<S> .* :: fn call', 'InflightLimit::call', ['C18'], rewrites=ILRW, probe=False, pub=False)
    t += '}\n'
    # ---- rate limiter (its own module: it has a WaitMode of its own) ----
    rl_names = tokio_sync_names(C.repo, RL)
    t += 'pub mod rate_limit {\n    use super::*;\n' + ('    use tokio::sync::{%s};   // the source file\'s own imports from tokio::sync (they shadow the glob import)\n' % ', '.join(rl_names) if rl_names else '') + '    use governor::{clock::{Clock, DefaultClock}, middleware::NoOpMiddleware, state::keyed::DefaultKeyedStateStore, RateLimiter};\n    pub mod anemo { pub use super::super::anemo::*; pub use super::super::PeerId; }\n'
    t += C.item(RL, 'type SharedRateLimiter')
    t += C.item(RL, 'enum WaitMode')
    t += C.item(RL, 'const WAIT_NANOS_HEADER')
    t += C.item(RL, 'struct RateLimitLayer')
    t += 'impl RateLimitLayer {\n' + C.fn(RL, 'impl RateLimitLayer :: fn new', 'RateLimitLayer::new', ['C19'], probe=False) + '}\n'
    t += 'impl<S> Layer<S> for RateLimitLayer {\n    type Service = RateLimit<S>;\n'
    t += C.fn(RL, 'impl <S> Layer<S> for RateLimitLayer :: fn layer', 'RateLimitLayer::layer', ['C19'], probe=False, pub=False) + '}\n'
    t += C.item(RL, 'struct RateLimit')
    t += 'impl<S> RateLimit<S> {\n'
    for f in ('new', 'layer'):
        t += C.fn(RL, 'impl <S> RateLimit<S> :: fn %s' % f, 'RateLimit::%s' % f, ['C19'], probe=False)
    t += '}\n'
    t += '''impl<ResBody, ReqBody, S> Service<Request<ReqBody>> for RateLimit<S>
where
    S: Service<Request<ReqBody>, Response = Response<ResBody>, Error = anemo::rpc::Status> + 'static + Clone + Send,
    <S as Service<Request<ReqBody>>>::Future: Send,
    ReqBody: 'static + Send + Sync,
{
    type Response = S::Response;
    type Error = S::Error;
    type Future = BoxFuture<'static, Result<Self::Response, Self::Error>>;
'''
    t += C.fn(RL, 'impl <ResBody, ReqBody, S> Service<Request<ReqBody>> for RateLimit<S> .* :: fn poll_ready', 'RateLimit::poll_ready', ['C19'], probe=False, pub=False)
    t += C.fn(RL, 'impl <ResBody, ReqBody, S> Service<Request<ReqBody>> for RateLimit<S> .* :: fn call', 'RateLimit::call', ['C19'], probe=False, pub=False)
    t += '}\n}\n'
    t += C.helpers_here()
    h = HARNESS
    if getattr(C, 'tier', 'quick') == 'thorough':
        h = h.replace('pub const STEPS: usize = 6;', 'pub const STEPS: usize = 8;')
    t += h
    return t
