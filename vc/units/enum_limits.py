"""Unit enum_limits (BOUNDED exhaustive enumeration of schedules, native execution): anemo-tower's per-peer in-flight limiter
(inflight_limit.rs: InflightLimitLayer::{new, layer}, InflightLimit::{new, layer}, `impl Service for InflightLimit`::{poll_ready, call} -- the real async
block, boxed as it is) driven by a hand scheduler over a MODEL of tokio's Semaphore and of DashMap.

The futures are real Rust futures polled with a no-op waker; the wrapped service is a future that completes when the scheduler says so and that counts
itself in and out (also when it is dropped unfinished).  The scheduler enumerates every sequence of: start the next request, poll a started request,
let a request inside the wrapped service finish, drop (cancel) a started request.

The model of tokio::sync::Semaphore (trusted, stated): a counter of permits; `acquire()` is a future that takes a permit when one is there and is
pending otherwise (no queueing order is modelled: whichever waiter is polled first wins); `try_acquire()` takes one or reports NoPermits; a permit gives
its slot back when dropped.  DashMap: a mutex around an association list."""
import prelude as P

NAME = 'enum_limits'
BACKEND = 'enum'
IL = 'crates/anemo-tower/src/inflight_limit.rs'
RESP = 'crates/anemo/src/types/response.rs'
COVER = {'inflight_schedules': [0, 1, 2, 3, 4, 5]}

PRELUDE = r'''// GENERATED on every run by /verif/vc from /repo's working tree -- do not edit
#![allow(dead_code, unused, non_upper_case_globals, non_camel_case_types)]
use std::future::Future;
use std::pin::Pin;
use std::sync::{Arc, Mutex};
use std::sync::atomic::{AtomicUsize, Ordering};
use std::task::{Context, Poll};
pub type BoxFuture<'a, T> = Pin<Box<dyn Future<Output = T> + Send + 'a>>;
pub mod futures { pub mod future { pub use super::super::BoxFuture; } }
#[derive(Clone, Copy, PartialEq, Eq, Hash, Debug)] pub struct PeerId(pub [u8; 32]);
pub struct Request<T> { pub peer: Option<PeerId>, pub id: usize, pub body: T }
impl<T> Request<T> { pub fn peer_id(&self) -> Option<&PeerId> { self.peer.as_ref() } pub fn extensions(&self) -> &Option<PeerId> { &self.peer } }
#[derive(Debug)] pub struct Response<T> { pub id: usize, pub body: T }
#[derive(Debug)] pub struct Status { pub code: StatusCode, pub headers: Vec<(String, String)> }
impl Status {
    pub fn new(code: StatusCode) -> Self { Status { code, headers: Vec::new() } }
    pub fn internal<M: Into<String>>(_m: M) -> Self { Status::new(StatusCode::InternalServerError) }
    pub fn new_with_message<M: Into<String>>(code: StatusCode, _m: M) -> Self { Status::new(code) }
    pub fn status(&self) -> StatusCode { self.code }
    pub fn with_header<K: Into<String>, V: Into<String>>(mut self, k: K, v: V) -> Self { self.headers.push((k.into(), v.into())); self }
}
pub mod anemo {
    pub use super::{PeerId, Request, Response};
    pub mod rpc { pub use super::super::Status; }
    pub mod types { pub mod response { pub use super::super::super::StatusCode; } }
}
pub mod tower {
    pub trait Service<Req> {
        type Response; type Error; type Future: std::future::Future<Output = Result<Self::Response, Self::Error>>;
        fn poll_ready(&mut self, cx: &mut std::task::Context<'_>) -> std::task::Poll<Result<(), Self::Error>>;
        fn call(&mut self, req: Req) -> Self::Future;
    }
    pub mod layer { pub trait Layer<S> { type Service; fn layer(&self, inner: S) -> Self::Service; } }
    pub use layer::Layer;
}
use tower::{layer::Layer, Service};
// ---- the model of tokio::sync::Semaphore (see the unit's docstring) -----------------------------------------------------------------
pub mod tokio { pub mod sync {
    use std::sync::atomic::{AtomicUsize, Ordering};
    use std::sync::Arc;
    #[derive(Debug)] pub struct Semaphore { pub permits: AtomicUsize, pub capacity: usize }
    #[derive(Debug)] pub struct AcquireError(());
    #[derive(Debug, PartialEq)] pub enum TryAcquireError { Closed, NoPermits }
    #[derive(Debug)] pub struct SemaphorePermit<'a> { sem: &'a Semaphore, n: usize }
    #[derive(Debug)] pub struct OwnedSemaphorePermit { sem: Arc<Semaphore>, n: usize }
    impl Semaphore {
        pub fn new(permits: usize) -> Self { Semaphore { permits: AtomicUsize::new(permits), capacity: permits } }
        pub const fn const_new(permits: usize) -> Self { Semaphore { permits: AtomicUsize::new(permits), capacity: permits } }
        pub fn available_permits(&self) -> usize { self.permits.load(Ordering::SeqCst) }
        fn take(&self, n: usize) -> bool { let p = self.permits.load(Ordering::SeqCst); if p >= n { self.permits.store(p - n, Ordering::SeqCst); true } else { false } }
        pub fn acquire(&self) -> Acquire<'_> { Acquire { sem: self, n: 1 } }
        pub fn acquire_many(&self, n: u32) -> Acquire<'_> { Acquire { sem: self, n: n as usize } }
        pub fn try_acquire(&self) -> Result<SemaphorePermit<'_>, TryAcquireError> { if self.take(1) { Ok(SemaphorePermit { sem: self, n: 1 }) } else { Err(TryAcquireError::NoPermits) } }
        pub fn acquire_owned(self: Arc<Self>) -> AcquireOwned { AcquireOwned { sem: Some(self) } }
        pub fn try_acquire_owned(self: Arc<Self>) -> Result<OwnedSemaphorePermit, TryAcquireError> { if self.take(1) { Ok(OwnedSemaphorePermit { sem: self, n: 1 }) } else { Err(TryAcquireError::NoPermits) } }
        pub fn add_permits(&self, n: usize) { self.permits.fetch_add(n, Ordering::SeqCst); }
    }
    pub struct Acquire<'a> { sem: &'a Semaphore, n: usize }
    impl<'a> std::future::Future for Acquire<'a> {
        type Output = Result<SemaphorePermit<'a>, AcquireError>;
        fn poll(self: std::pin::Pin<&mut Self>, _cx: &mut std::task::Context<'_>) -> std::task::Poll<Self::Output> {
            if self.sem.take(self.n) { std::task::Poll::Ready(Ok(SemaphorePermit { sem: self.sem, n: self.n })) } else { std::task::Poll::Pending }
        }
    }
    pub struct AcquireOwned { sem: Option<Arc<Semaphore>> }
    impl std::future::Future for AcquireOwned {
        type Output = Result<OwnedSemaphorePermit, AcquireError>;
        fn poll(mut self: std::pin::Pin<&mut Self>, _cx: &mut std::task::Context<'_>) -> std::task::Poll<Self::Output> {
            let ok = self.sem.as_ref().map(|s| s.take(1)).unwrap_or(false);
            if ok { std::task::Poll::Ready(Ok(OwnedSemaphorePermit { sem: self.sem.take().unwrap(), n: 1 })) } else { std::task::Poll::Pending }
        }
    }
    impl<'a> SemaphorePermit<'a> { pub fn forget(mut self) { self.n = 0; } }
    impl OwnedSemaphorePermit { pub fn forget(mut self) { self.n = 0; } }
    impl<'a> Drop for SemaphorePermit<'a> { fn drop(&mut self) { self.sem.permits.fetch_add(self.n, Ordering::SeqCst); } }
    impl Drop for OwnedSemaphorePermit { fn drop(&mut self) { self.sem.permits.fetch_add(self.n, Ordering::SeqCst); } }
} }
use tokio::sync::Semaphore;
// ---- DashMap: a mutex around an association list -----------------------------------------------------------------------------------------
pub mod dashmap {
    use std::sync::{Mutex, MutexGuard};
    #[derive(Debug)] pub struct DashMap<K, V> { pub items: Mutex<Vec<(K, V)>> }
    pub struct RefMut<'a, K, V> { g: MutexGuard<'a, Vec<(K, V)>>, idx: usize }
    pub struct Ref<'a, K, V> { g: MutexGuard<'a, Vec<(K, V)>>, idx: usize }
    pub struct Entry<'a, K, V> { g: MutexGuard<'a, Vec<(K, V)>>, key: K }
    impl<K: PartialEq + Clone, V> DashMap<K, V> {
        pub fn new() -> Self { DashMap { items: Mutex::new(Vec::new()) } }
        pub fn entry(&self, key: K) -> Entry<'_, K, V> { Entry { g: self.items.lock().unwrap(), key } }
        pub fn get(&self, key: &K) -> Option<Ref<'_, K, V>> { let g = self.items.lock().unwrap(); let idx = g.iter().position(|kv| &kv.0 == key)?; Some(Ref { g, idx }) }
        pub fn get_mut(&self, key: &K) -> Option<RefMut<'_, K, V>> { let g = self.items.lock().unwrap(); let idx = g.iter().position(|kv| &kv.0 == key)?; Some(RefMut { g, idx }) }
        pub fn insert(&self, key: K, v: V) -> Option<V> { let mut g = self.items.lock().unwrap(); match g.iter().position(|kv| kv.0 == key) { Some(i) => Some(std::mem::replace(&mut g[i].1, v)), None => { g.push((key, v)); None } } }
        pub fn contains_key(&self, key: &K) -> bool { self.items.lock().unwrap().iter().any(|kv| &kv.0 == key) }
        pub fn remove(&self, key: &K) -> Option<(K, V)> { let mut g = self.items.lock().unwrap(); let i = g.iter().position(|kv| &kv.0 == key)?; Some(g.remove(i)) }
        pub fn len(&self) -> usize { self.items.lock().unwrap().len() }
    }
    impl<'a, K: PartialEq + Clone, V> Entry<'a, K, V> {
        pub fn or_insert_with<F: FnOnce() -> V>(mut self, f: F) -> RefMut<'a, K, V> {
            let idx = match self.g.iter().position(|kv| kv.0 == self.key) { Some(i) => i, None => { let k = self.key.clone(); self.g.push((k, f())); self.g.len() - 1 } };
            RefMut { g: self.g, idx }
        }
        pub fn or_insert(self, v: V) -> RefMut<'a, K, V> { self.or_insert_with(|| v) }
        pub fn or_default(self) -> RefMut<'a, K, V> where V: Default { self.or_insert_with(V::default) }
    }
    impl<'a, K, V> RefMut<'a, K, V> { pub fn value(&self) -> &V { &self.g[self.idx].1 } pub fn value_mut(&mut self) -> &mut V { &mut self.g[self.idx].1 } pub fn key(&self) -> &K { &self.g[self.idx].0 } }
    impl<'a, K, V> Ref<'a, K, V> { pub fn value(&self) -> &V { &self.g[self.idx].1 } pub fn key(&self) -> &K { &self.g[self.idx].0 } }
    impl<'a, K, V> std::ops::Deref for RefMut<'a, K, V> { type Target = V; fn deref(&self) -> &V { self.value() } }
    impl<'a, K, V> std::ops::Deref for Ref<'a, K, V> { type Target = V; fn deref(&self) -> &V { self.value() } }
}
use dashmap::DashMap;
'''

HARNESS = r'''
pub static mut COVER: [u64; 8] = [0; 8];
pub fn cover(i: usize) { unsafe { COVER[i] += 1; } }
pub struct Chooser { pub path: Vec<(u32, u32)>, pub pos: usize }
impl Chooser {
    pub fn below(&mut self, n: u32) -> u32 { if self.pos == self.path.len() { self.path.push((0, n)); } let c = self.path[self.pos].0; self.pos += 1; c }
    pub fn any_bool(&mut self) -> bool { self.below(2) == 1 }
}
fn run_all(name: &str, f: fn(&mut Chooser)) {
    let mut path: Vec<(u32, u32)> = Vec::new();
    let (mut runs, mut failures, mut first): (u64, u64, Option<(Vec<u32>, String)>) = (0, 0, None);
    loop {
        let mut ch = Chooser { path: path.clone(), pos: 0 };
        let res = std::panic::catch_unwind(std::panic::AssertUnwindSafe(|| f(&mut ch)));
        runs += 1;
        path = ch.path;
        if let Err(e) = res {
            failures += 1;
            if first.is_none() {
                let msg = e.downcast_ref::<String>().cloned().or_else(|| e.downcast_ref::<&str>().map(|s| s.to_string())).unwrap_or_default();
                first = Some((path.iter().map(|c| c.0).collect(), msg));
            }
        }
        while let Some((c, n)) = path.pop() { if c + 1 < n { path.push((c + 1, n)); break; } }
        if path.is_empty() { break; }
    }
    let (p, m) = first.unwrap_or_default();
    let cov = unsafe { let c = COVER; COVER = [0; 8]; c };
    println!("{{\"harness\": \"{}\", \"runs\": {}, \"failures\": {}, \"first_failing_choices\": {:?}, \"message\": {:?}, \"cover\": {:?}}}", name, runs, failures, p, m, cov);
}
pub fn main() {
    let args: Vec<String> = std::env::args().collect();
    if args.len() == 4 && args[1] == "--replay" {
        let choices: Vec<(u32, u32)> = args[3].split(',').filter(|s| !s.is_empty()).map(|s| (s.trim().parse().unwrap(), u32::MAX)).collect();
        let mut ch = Chooser { path: choices, pos: 0 };
        harness::inflight_schedules(&mut ch);
        println!("no assertion failed for this choice sequence");
        return;
    }
    std::panic::set_hook(Box::new(|_| {}));
    run_all("inflight_schedules", harness::inflight_schedules);
}
pub mod harness {
    use super::*;
    // what goes on inside the wrapped service: who is in there right now, who ever got in, who may finish
    #[derive(Default)] pub struct World { pub inside: Vec<(usize, PeerId)>, pub entered: Vec<usize>, pub may_finish: Vec<usize> }
    #[derive(Clone)] pub struct Inner(pub Arc<Mutex<World>>);
    pub struct InnerFut { id: usize, w: Arc<Mutex<World>>, done: bool }
    impl Future for InnerFut {
        type Output = Result<Response<()>, Status>;
        fn poll(mut self: Pin<&mut Self>, _cx: &mut Context<'_>) -> Poll<Self::Output> {
            let id = self.id;
            let fin = self.w.lock().unwrap().may_finish.contains(&id);
            if fin { self.w.lock().unwrap().inside.retain(|x| x.0 != id); self.done = true; Poll::Ready(Ok(Response { id, body: () })) } else { Poll::Pending }
        }
    }
    impl Drop for InnerFut { fn drop(&mut self) { if !self.done { let id = self.id; self.w.lock().unwrap().inside.retain(|x| x.0 != id); } } }
    impl Service<Request<()>> for Inner {
        type Response = Response<()>; type Error = Status; type Future = InnerFut;
        fn poll_ready(&mut self, _cx: &mut Context<'_>) -> Poll<Result<(), Status>> { Poll::Ready(Ok(())) }
        fn call(&mut self, req: Request<()>) -> InnerFut {
            let mut w = self.0.lock().unwrap();
            let p = req.peer.unwrap_or(PeerId([0; 32]));
            assert!(!w.entered.contains(&req.id), "a request reached the wrapped service twice");
            w.entered.push(req.id); w.inside.push((req.id, p));
            InnerFut { id: req.id, w: self.0.clone(), done: false }
        }
    }
    const P1: PeerId = PeerId([1; 32]);
    const P2: PeerId = PeerId([2; 32]);
    pub const REQUESTS: usize = 3;
    pub const STEPS: usize = 6;
    #[derive(PartialEq, Clone, Copy, Debug)] enum St { NotStarted, Started, Refused, Finished, Dropped }
    fn poll_once<F: Future + ?Sized>(f: Pin<&mut F>) -> Poll<F::Output> { let w = std::task::Waker::noop(); let mut cx = Context::from_waker(&w); f.poll(&mut cx) }
    fn inside_of(w: &Arc<Mutex<World>>, p: PeerId) -> usize { w.lock().unwrap().inside.iter().filter(|x| x.1 == p).count() }
    pub fn inflight_schedules(ch: &mut Chooser) { // @EOBL [C18] @BOUNDED the real InflightLimitLayer / InflightLimit (constructors, layer, call with its async block) on the model of tokio's Semaphore, for a limit of 1 or 2, Block or ReturnError, REQUESTS requests each from peer 1, peer 2 or without identity, issued through one layered service, a clone of it, or a second service built by the same layer, and EVERY schedule of STEPS actions out of: start the next request, poll a started request, let a request inside the wrapped service finish, drop a started request: at every instant at most `limit` requests of one peer are inside the wrapped service; a request polled while its peer is below the limit gets in (one peer's load never takes another's slot); at the limit it waits (Block) or is refused with TooManyRequests without ever reaching the service (ReturnError); a request without identity is refused with InternalServerError; nothing reaches the service twice; and after everything has finished, failed or been dropped every peer can again have exactly `limit` requests inside (no slot leaks, none appears)
        let limit = 1 + ch.below(2) as usize;
        let mode = if ch.any_bool() { WaitMode::Block } else { WaitMode::ReturnError };
        let block = matches!(mode, WaitMode::Block);
        let world = Arc::new(Mutex::new(World::default()));
        let layer = InflightLimitLayer::new(limit, mode);
        let svc_a = layer.layer(Inner(world.clone()));
        let svc_b = layer.layer(Inner(world.clone()));          // a second service built by the same layer: shares the per-peer accounting
        let mut peers: [Option<PeerId>; REQUESTS] = [None; REQUESTS];
        let mut futs: Vec<Option<BoxFuture<'static, Result<Response<()>, Status>>>> = Vec::new();
        let mut st = [St::NotStarted; REQUESTS];
        let mut started = 0usize;
        let check_bound = |w: &Arc<Mutex<World>>| { assert!(inside_of(w, P1) <= limit && inside_of(w, P2) <= limit, "more requests of one peer inside the wrapped service than the limit allows"); };
        let mut step = 0;
        while step < STEPS {
            // enabled actions: 0 = start the next request; then poll / finish / drop for each started one
            let mut acts: Vec<(u8, usize)> = Vec::new();
            if started < REQUESTS { acts.push((0, started)); }
            for i in 0..started { if st[i] == St::Started { acts.push((1, i)); if world.lock().unwrap().inside.iter().any(|x| x.0 == i) && !world.lock().unwrap().may_finish.contains(&i) { acts.push((2, i)); } acts.push((3, i)); } }
            if acts.is_empty() { break; }
            let (a, i) = acts[ch.below(acts.len() as u32) as usize];
            match a {
                0 => {
                    let who = match ch.below(3) { 0 => Some(P1), 1 => Some(P2), _ => None };
                    peers[i] = who;
                    let req = Request { peer: who, id: i, body: () };
                    let f = match ch.below(3) { 0 => svc_a.clone().call(req), 1 => { let mut s = svc_a.clone(); s.call(req) } , _ => svc_b.clone().call(req) };
                    assert!(!world.lock().unwrap().entered.contains(&i) || true);
                    futs.push(Some(f)); st[i] = St::Started; started += 1;
                }
                1 => {
                    let was_inside = world.lock().unwrap().entered.contains(&i);
                    let before = peers[i].map(|p| inside_of(&world, p));
                    let r = poll_once(futs[i].as_mut().unwrap().as_mut());
                    let now_inside = world.lock().unwrap().entered.contains(&i);
                    match (&r, peers[i]) {
                        (Poll::Ready(Err(s)), None) => { assert!(s.code == StatusCode::InternalServerError && !now_inside, "a request without identity must be refused with InternalServerError and never reach the service"); cover(0); }
                        (_, None) => panic!("a request without identity was not refused"),
                        (Poll::Ready(Ok(_)), Some(_)) => { assert!(was_inside || now_inside); }
                        (Poll::Ready(Err(s)), Some(_)) => {
                            assert!(!block, "in Block mode a request is never refused");
                            assert!(!was_inside && !now_inside, "a refused request reached the wrapped service");
                            assert!(before == Some(limit) && s.code == StatusCode::TooManyRequests, "a request was refused although its peer was below the limit (or with another status than TooManyRequests)");
                            cover(1);
                        }
                        (Poll::Pending, Some(_)) => {
                            if !was_inside {
                                if before.unwrap() < limit { assert!(now_inside, "a request polled while its peer is below the limit did not get into the wrapped service (another peer's load, or a leaked slot, is holding it up)"); }
                                else { assert!(block && !now_inside, "a request over the limit neither waits outside the service (Block) nor is refused (ReturnError)"); cover(2); }
                            }
                        }
                    }
                    if r.is_ready() { st[i] = if matches!(r, Poll::Ready(Ok(_))) { St::Finished } else { St::Refused }; futs[i] = None; }
                }
                2 => { world.lock().unwrap().may_finish.push(i); cover(3); }
                _ => { futs[i] = None; st[i] = St::Dropped; cover(4); }
            }
            check_bound(&world);
            step += 1;
        }
        // wind down: everything still running finishes or is dropped
        for i in 0..started { if st[i] == St::Started { if ch.any_bool() { futs[i] = None; } else { world.lock().unwrap().may_finish.push(i); let mut k = 0; while k < 3 && futs[i].is_some() { if poll_once(futs[i].as_mut().unwrap().as_mut()).is_ready() { futs[i] = None; } k += 1; } futs[i] = None; } } }
        assert!(world.lock().unwrap().inside.is_empty(), "harness: the wrapped service is not empty after the wind-down");
        // no slot leaked, none appeared: each peer gets exactly `limit` requests in again
        for p in [P1, P2] {
            let mut keep = Vec::new();
            for k in 0..limit + 1 {
                let id = 100 + keep.len() + if p == P1 { 0 } else { 50 };
                let mut f = svc_b.clone().call(Request { peer: Some(p), id, body: () });
                let r = poll_once(f.as_mut());
                let got_in = world.lock().unwrap().inside.iter().any(|x| x.0 == id);
                if k < limit { assert!(got_in && r.is_pending(), "after all earlier requests finished, failed or were dropped, a peer no longer gets its full number of slots (a slot leaked)"); }
                else { assert!(!got_in, "a peer gets more slots than the limit after earlier requests ended"); cover(5); }
                keep.push(f);
            }
            drop(keep);
        }
    }
}
'''


def build(ctx):
    C = ctx
    t = PRELUDE
    t += C.item(RESP, 'enum StatusCode', extra_derive=['Debug'])
    t += C.item(IL, 'enum WaitMode')
    t += C.item(IL, 'struct InflightLimitLayer')
    t += 'impl InflightLimitLayer {\n' + C.fn(IL, 'impl InflightLimitLayer :: fn new', 'InflightLimitLayer::new', ['C18'], probe=False) + '}\n'
    t += 'impl<S> Layer<S> for InflightLimitLayer {\n    type Service = InflightLimit<S>;\n'
    t += C.fn(IL, 'impl <S> Layer<S> for InflightLimitLayer :: fn layer', 'InflightLimitLayer::layer', ['C18'], probe=False, pub=False) + '}\n'
    t += C.item(IL, 'struct InflightLimit')
    t += 'impl<S> InflightLimit<S> {\n'
    for f in ('new', 'layer'):
        t += C.fn(IL, 'impl <S> InflightLimit<S> :: fn %s' % f, 'InflightLimit::%s' % f, ['C18'], probe=False)
    t += '}\n'
    t += '''impl<ResBody, ReqBody, S> Service<Request<ReqBody>> for InflightLimit<S>
where
    S: Service<Request<ReqBody>, Response = Response<ResBody>, Error = anemo::rpc::Status> + 'static + Clone + Send,
    <S as Service<Request<ReqBody>>>::Future: Send,
    ReqBody: 'static + Send + Sync,
{
    type Response = S::Response;
    type Error = S::Error;
    type Future = BoxFuture<'static, Result<Self::Response, Self::Error>>;
'''
    t += C.fn(IL, 'impl <ResBody, ReqBody, S> Service<Request<ReqBody>> for InflightLimit<S> .* :: fn poll_ready', 'InflightLimit::poll_ready', ['C18'], probe=False, pub=False)
    t += C.fn(IL, 'impl <ResBody, ReqBody, S> Service<Request<ReqBody>> for InflightLimit<S> .* :: fn call', 'InflightLimit::call', ['C18'], probe=False, pub=False)
    t += '}\n'
    t += C.helpers_here()
    h = HARNESS
    if getattr(C, 'tier', 'quick') == 'thorough':
        h = h.replace('pub const STEPS: usize = 6;', 'pub const STEPS: usize = 8;')
    t += h
    return t
